------------------------------- MODULE GirIO -------------------------------
(* C07 -- GIR files survive a read/write cycle unchanged.

   Implementation-shaped layer: the writer/reader pair as a table of CHANNELS, one row per
   (node kind, ast field, XML attribute or child element), transcribed from
   giscanner/girwriter.py:GIRWriter._write_* / _append_* and giscanner/girparser.py:GIRParser._parse_*:

       [k    node kind                      f   ast field ("-" = the attribute has no field of its own)
        a    attribute / "<child>" ("-" = the field is never written)
        w    write rule                     r   read rule          d   value the reader leaves when it sets nothing
        dom  representative values TLC enumerates (first element of the row's section product)
        api  how the field enters the API view (Agree):  text | flag | exact | -  (+ derived properties)]

   Write(k, m) : abstract model of one node  -> abstract element (attribute -> value, None = absent)
   Read(k, x)  : abstract element            -> abstract model

   Property layer (the statement of C07 on one node):
       FixedPoint(k, m) == Write(k, Read(k, Write(k, m))) = Write(k, m)
       Agree(k, m)      == View(k, Read(k, Write(k, m))) = View(k, m)
       Readable(k, m)   == the reader does not raise on Write(k, m)
   The same View / Truthy / Str operators judge observations of the real pair in GirIOTrace.

   Python values are pairs <<tag, text>>: <<"n","">> None, <<"b","0"|"1">> bool, <<"i",decimal>> int,
   <<"s",text>> str.  XML attribute values are <<"s",text>> or None (absent; XMLWriter drops None-valued
   attributes, C20).  Text passes through the XML layer unchanged (C20's property; the real pair is
   exercised with text the comment parser can deliver).

   Defects: the set of names of reader/writer asymmetries of the code AS FOUND that are reachable from
   the scanner (each confirmed on the real pair by harness/props/c07.py).  Defects = {} is the design
   in which C07 holds; every single defect makes TLC produce a counterexample (GirIO_w_*.cfg). *)
EXTENDS Naturals, Sequences, FiniteSets, TLC

CONSTANTS Defects,      \* subset of DefectNames: asymmetries present in the pair
          Rich          \* TRUE: 3-5 representative values per text field and undivided "own" sections, FALSE: 2

DefectNames == {"boxed_function",      \* <function> children of <glib:boxed> are written, never read
                "field_length_index",  \* array length of a record/union field is re-attached by <field> position,
                                       \* ignoring anonymous <record>/<union> members before it
                "map_array_child",     \* <array> children of a GLib.HashTable <type> are not read
                "bare_container"}      \* the scanner can emit a plain <type name="GLib.List|GLib.SList|GLib.HashTable"/> without
                                       \* element children ((type <unknown name>) on a container-typed parameter); the reader
                                       \* turns it into a container, which is written WITH (gpointer) element children

VNone == <<"n", "">>
VS(s) == <<"s", s>>
VB(b) == <<"b", IF b THEN "1" ELSE "0">>
VI(s) == <<"i", s>>
VT == VB(TRUE)
VF == VB(FALSE)

Truthy(v) == CASE v[1] = "n" -> FALSE
               [] v[1] = "b" -> v[2] = "1"
               [] v[1] = "i" -> v[2] # "0"
               [] OTHER -> v[2] # ""
\* python str() / '%d' % ()
Str(v) == IF v[1] = "b" THEN (IF v[2] = "1" THEN "True" ELSE "False") ELSE v[2]
\* value of an XML attribute written from a python value (None vanishes)
Att(v) == IF v = VNone THEN VNone ELSE VS(Str(v))
PosInt(s) == s \in {"1", "2", "3", "4", "5", "6", "7", "8", "9", "10", "42"}

Txt == "two\n lines \"q\" <&> 'a' é"
DText == IF Rich THEN {VNone, VS(""), VS("0"), VS("1"), VS(Txt)} ELSE {VNone, VS("1")}
DText3 == IF Rich THEN {VNone, VS(""), VS(Txt)} ELSE {VNone, VS(Txt)}
DName == {VNone, VS("x")}
DFlag == {VF, VT}

C(k, f, a, w, r, d, dom, api) == [k |-> k, f |-> f, a |-> a, w |-> w, r |-> r, d |-> d, dom |-> dom, api |-> api, sec |-> "own"]
G(k, f, a, w, r, d, dom, api) == [k |-> k, f |-> f, a |-> a, w |-> w, r |-> r, d |-> d, dom |-> dom, api |-> api, sec |-> "gen"]
P(k, f, a, w, r, d, dom, api) == [k |-> k, f |-> f, a |-> a, w |-> w, r |-> r, d |-> d, dom |-> dom, api |-> api, sec |-> "pos"]
C2(k, f, a, w, r, d, dom, api) == [k |-> k, f |-> f, a |-> a, w |-> w, r |-> r, d |-> d, dom |-> dom, api |-> api, sec |-> "own2"]
K(k, f, a, w, r, d, dom, api) == [k |-> k, f |-> f, a |-> a, w |-> w, r |-> r, d |-> d, dom |-> dom, api |-> api, sec |-> "kids"]

(* ---------------------------------------------------------------------------------------------
   generic rows: _append_version, _append_node_generic, _write_generic  /  _parse_generic_attribs *)
VersionRows(k) == {G(k, "version", "version", "truthy", "gettruthy", VNone, DText, "text")}
\* ast.FunctionMacro() starts with introspectable = False and nothing ever sets it (reader: the attribute can only confirm it)
IntroDefault(k) == IF k = "functionmacro" THEN VF ELSE VT
NodeGenericRows(k) == {
    G(k, "introspectable", "introspectable", "w_intro", "intgt0", IntroDefault(k), IF k = "functionmacro" THEN {VF} ELSE DFlag, "-"),
    G(k, "skip", "skip", "never", "intgt0", VF, DFlag, "-"),
    G(k, "deprecated", "deprecated-version", "truthy", "gettruthy", VNone, DText, "text"),
    G(k, "-", "deprecated", "w_depflag", "-", VNone, {}, "-"),
    G(k, "stability", "stability", "truthy", "gettruthy", VNone, DText3, "text") }
DocRows(k) == {
    G(k, "attributes", "<attribute>", "truthy", "gettruthy", VS(""), {VS(""), VS("k=v"), VS("k=v;a.b=\"<&>")}, "exact"),
    P(k, "doc", "<doc>", "truthy", "gettruthy", VNone, DText3, "text"),
    P(k, "doc_position.filename", "<doc>@filename", "w_docpos", "r_docfile", VNone, {VNone, VS("f.c")}, "posfile"),
    P(k, "doc_position.line", "<doc>@line", "w_docpos", "r_docpos", VNone, {VNone, VI("7")}, "postext"),
    P(k, "doc_position.column", "<doc>@column", "w_doccol", "r_docpos", VNone, {VNone, VI("0"), VI("3")}, "postext"),
    G(k, "version_doc", "<doc-version>", "truthy", "gettruthy", VNone, DText3, "text"),
    G(k, "deprecated_doc", "<doc-deprecated>", "truthy", "gettruthy", VNone, DText3, "text"),
    G(k, "stability_doc", "<doc-stability>", "truthy", "gettruthy", VNone, DText3, "text") }
PosRows(k) == {
    P(k, "main_position.filename", "<source-position>@filename", "str", "get", VNone, {VNone, VS("f.h")}, "posfile"),
    P(k, "main_position.line", "<source-position>@line", "w_pos", "r_pos", VNone, {VNone, VI("5")}, "postext"),
    P(k, "main_position.column", "<source-position>@column", "w_poscol", "r_pos", VNone, {VNone, VI("0"), VI("2")}, "postext") }
FullGeneric(k) == VersionRows(k) \cup NodeGenericRows(k) \cup DocRows(k) \cup PosRows(k)

CallableRows(k) == {
    C2(k, "throws", "throws", "flag1", "eq1", VF, DFlag, "flag"),
    C2(k, "finish_func", "glib:finish-func", "str", "get", VNone, DName, "text"),
    C2(k, "sync_func", "glib:sync-func", "str", "get", VNone, DName, "text"),
    C2(k, "async_func", "glib:async-func", "str", "get", VNone, DName, "text") }
RegisteredRows(k, rr) == {
    C(k, "gtype_name", "glib:type-name", "w_reg", rr, VNone, {VNone, VS("FooX")}, "text"),
    C(k, "get_type", "glib:get-type", "w_reg", rr, VNone, {VNone, VS("foo_x_get_type")}, "text") }
ParamCommon(k) == {
    C2(k, "argname", "name", "str", "get", VNone, DName, "text"),
    C(k, "direction", "direction", "w_dir", "r_dir", VNone, {VNone, VS("in"), VS("out"), VS("inout")}, "-"),
    C(k, "caller_allocates", "caller-allocates", "w_ca", "eq1", VF, DFlag, "-"),
    C2(k, "transfer", "transfer-ownership", "truthy", "get", VNone, {VNone, VS("none"), VS("full")}, "text"),
    C(k, "nullable", "nullable", "w_nullable", "r_nullable", VF, DFlag, "-"),
    C(k, "not_nullable", "-", "-", "none", VF, DFlag, "-"),
    C(k, "optional", "optional", "flag1", "r_optional", VF, DFlag, "flag"),
    C(k, "-", "allow-none", "w_allownone", "-", VNone, {}, "-"),
    C2(k, "scope", "scope", "truthy", "get", VNone, {VNone, VS("call")}, "text"),
    C2(k, "skip", "skip", "flag1", "intgt0", VF, DFlag, "flag") }

ChanDef ==
    \* ---- alias
    { C("alias", "name", "name", "str", "req", VNone, {VS("x")}, "exact"),
      C("alias", "ctype", "c:type", "str", "get", VNone, DName, "text") } \cup FullGeneric("alias") \cup
    \* ---- function (toplevel function, method, constructor, static function of a container)
    { C2("function", "name", "name", "str", "req", VNone, {VS("x")}, "exact"),
      C2("function", "symbol", "c:identifier", "str", "get", VNone, {VS("foo_x")}, "text"),
      C("function", "role", "<tag>", "w_tag", "r_role", VS("top"), {VS("top"), VS("method"), VS("ctor"), VS("static")}, "exact"),
      C("function", "is_inline", "-", "-", "r_inline", VF, DFlag, "-"),
      C("function", "shadowed_by", "shadowed-by", "truthy", "get", VNone, DName, "text"),
      C("function", "shadows", "shadows", "w_shadows", "get", VNone, DName, "text"),
      C2("function", "moved_to", "moved-to", "str", "get", VNone, DName, "text"),
      C2("function", "set_property", "glib:set-property", "str", "get", VNone, DName, "text"),
      C2("function", "get_property", "glib:get-property", "str", "get", VNone, DName, "text") }
      \cup CallableRows("function") \cup FullGeneric("function") \cup
    { C("vfunc", "name", "name", "str", "req", VNone, {VS("x")}, "exact"),
      C("vfunc", "invoker", "invoker", "truthy", "get", VNone, DName, "text") }
      \cup CallableRows("vfunc") \cup FullGeneric("vfunc") \cup
    { C("callback", "name", "name", "str", "req", VNone, {VS("x")}, "exact"),
      C("callback", "ctype", "c:type", "w_cbctype", "get", VNone, {VNone, VS("x"), VS("FooX")}, "-") }
      \cup CallableRows("callback") \cup FullGeneric("callback") \cup
    { C("signal", "name", "name", "str", "req", VNone, {VS("x")}, "exact"),
      C("signal", "when", "when", "truthy", "get", VNone, {VNone, VS("last")}, "text"),
      C("signal", "no_recurse", "no-recurse", "flag1", "eq1", VF, DFlag, "flag"),
      C("signal", "detailed", "detailed", "flag1", "eq1", VF, DFlag, "flag"),
      C("signal", "action", "action", "flag1", "eq1", VF, DFlag, "flag"),
      C("signal", "no_hooks", "no-hooks", "flag1", "eq1", VF, DFlag, "flag"),
      C("signal", "emitter", "emitter", "truthy", "get", VNone, DName, "text") } \cup FullGeneric("signal") \cup
    { C("functionmacro", "name", "name", "str", "req", VNone, {VS("x")}, "exact"),
      C("functionmacro", "symbol", "c:identifier", "str", "get", VNone, {VS("FOO_X")}, "text") } \cup FullGeneric("functionmacro") \cup
    { C("macroparam", "argname", "name", "str", "get", VNone, DName, "text") } \cup DocRows("macroparam") \cup
    \* ---- parameter / instance-parameter / return-value
    ParamCommon("parameter") \cup DocRows("parameter") \cup
    { C2("parameter", "closure_name", "closure", "str", "r_index", VNone, {VNone, VS("p0"), VS("p1")}, "text"),
      C2("parameter", "destroy_name", "destroy", "str", "r_index", VNone, {VNone, VS("p0"), VS("p1")}, "text") } \cup
    ParamCommon("iparam") \cup DocRows("iparam") \cup
    { C("return", "transfer", "transfer-ownership", "truthy", "get", VNone, {VNone, VS("none"), VS("full")}, "text"),
      C("return", "nullable", "nullable", "w_nullable", "eq1", VF, DFlag, "-"),
      C("return", "not_nullable", "-", "-", "none", VF, DFlag, "-"),
      C("return", "skip", "skip", "flag1", "intgt0", VF, DFlag, "flag") } \cup DocRows("return") \cup
    \* ---- types
    { C("type", "ctype", "c:type", "w_ctype", "get", VNone, {VNone, VS("int")}, "-"),
      C("type", "complete_ctype", "-", "-", "none", VNone, {VNone, VS("const int")}, "-"),
      C("type", "target_fundamental", "name", "w_tname", "r_tfund", VNone, {VNone, VS("gint")}, "text"),
      C("type", "target_giname", "-", "-", "r_tgi", VNone, {VNone, VS("Foo.Bar"), VS("GObject.Object"), VS("GLib.List")}, "text"),
      K("type", "children", "<children>", "str", "r_children", VS("0"), {VS("0")}, "exact"),
      C("type", "target_foreign", "foreign", "w_foreign", "none", VNone, {VNone, VS("Bar")}, "text"),
      C("array", "ctype", "c:type", "w_ctype", "get", VNone, {VNone, VS("int*")}, "-"),
      C("array", "complete_ctype", "-", "-", "none", VNone, {VNone, VS("const int*")}, "-"),
      C("array", "array_type", "name", "w_arrname", "r_arrname", VS("<c>"), {VS("<c>"), VS("GLib.Array")}, "exact"),
      C("array", "zeroterminated", "zero-terminated", "w_zt", "r_zt", VT, DFlag, "flag"),
      C("array", "size", "fixed-size", "str", "r_int", VNone, {VNone, VI("4"), VI("0")}, "text"),
      C("array", "length_param_name", "length", "str", "r_len", VNone, {VNone, VS("n")}, "text"),
      C("array", "host", "-", "-", "keep", VS("callable"), {VS("callable"), VS("compound"), VS("compound_after_anon"), VS("class"), VS("elem")}, "-"),
      C("list", "ctype", "c:type", "w_ctype", "get", VNone, {VNone, VS("GList*")}, "-"),
      C("list", "complete_ctype", "-", "-", "none", VNone, {VNone}, "-"),
      C("list", "name", "name", "truthy", "req", VNone, {VS("GLib.List"), VS("GLib.SList")}, "exact"),
      C("map", "ctype", "c:type", "w_ctype", "get", VNone, {VNone, VS("GHashTable*")}, "-"),
      C("map", "complete_ctype", "-", "-", "none", VNone, {VNone}, "-"),
      K("map", "value_kind", "<value>", "str", "r_mapchild", VS("type"), {VS("type"), VS("array"), VS("list")}, "exact") } \cup
    \* ---- enumerations
    { C("enum", "name", "name", "str", "get", VNone, {VS("x")}, "exact"),
      C("enum", "ctype", "c:type", "str", "get", VNone, {VS("FooX")}, "text"),
      C("enum", "error_domain", "glib:error-domain", "truthy", "get", VNone, DName, "text") }
      \cup RegisteredRows("enum", "get") \cup FullGeneric("enum") \cup
    { C("bitfield", "name", "name", "str", "get", VNone, {VS("x")}, "exact"),
      C("bitfield", "ctype", "c:type", "str", "get", VNone, {VS("FooX")}, "text") }
      \cup RegisteredRows("bitfield", "get") \cup FullGeneric("bitfield") \cup
    { C("member", "name", "name", "str", "req", VNone, {VS("x")}, "exact"),
      C("member", "value", "value", "str", "req", VNone, {VI("0"), VI("-1"), VS("5")}, "text"),
      C("member", "symbol", "c:identifier", "str", "get", VNone, {VS("FOO_X")}, "text"),
      C("member", "nick", "glib:nick", "str", "get", VNone, DName, "text"),
      C("member", "dump_name", "glib:name", "str", "get", VNone, DName, "text") }
      \cup VersionRows("member") \cup NodeGenericRows("member") \cup DocRows("member") \cup
    { C("constant", "name", "name", "str", "req", VNone, {VS("x")}, "exact"),
      C("constant", "value", "value", "str", "req", VNone, {VS(""), VS("5"), VS(Txt)}, "exact"),
      C("constant", "ctype", "c:type", "str", "get", VNone, {VS("FOO_X")}, "text") } \cup FullGeneric("constant") \cup
    { C("docsection", "name", "name", "str", "req", VNone, {VS("x")}, "exact") } \cup DocRows("docsection") \cup
    \* ---- classes, interfaces
    { C("class", "name", "name", "str", "req", VNone, {VS("x")}, "exact"),
      C("class", "c_symbol_prefix", "c:symbol-prefix", "str", "get", VNone, DName, "text"),
      C("class", "ctype", "c:type", "str", "get", VNone, DName, "text"),
      C("class", "parent_type", "parent", "str", "gettruthy", VNone, {VNone, VS("GObject.Object")}, "text"),
      C("class", "is_abstract", "abstract", "flag1", "tne0", VF, DFlag, "flag"),
      C("class", "is_final", "final", "flag1", "tne0", VF, DFlag, "flag"),
      C("class", "gtype_name", "glib:type-name", "str", "req", VNone, {VS("FooX")}, "text"),
      C("class", "get_type", "glib:get-type", "str", "req", VNone, {VS("foo_x_get_type"), VS("intern")}, "text"),
      C("class", "glib_type_struct", "glib:type-struct", "str", "gettruthy", VNone, {VNone, VS("Foo.XClass")}, "text"),
      C2("class", "fundamental", "glib:fundamental", "flag1", "r_flagtrue", VF, DFlag, "flag"),
      C2("class", "ref_func", "glib:ref-func", "truthy", "get", VNone, DName, "text"),
      C2("class", "unref_func", "glib:unref-func", "truthy", "get", VNone, DName, "text"),
      C2("class", "set_value_func", "glib:set-value-func", "truthy", "get", VNone, DName, "text"),
      C2("class", "get_value_func", "glib:get-value-func", "truthy", "get", VNone, DName, "text"),
      K("class", "interfaces", "<implements>", "str", "get", VS(""), {VS(""), VS("Foo.I,Gio.J")}, "exact"),
      K("class", "constructors", "<constructor>", "str", "get", VS("0"), {VS("0"), VS("1")}, "exact"),
      K("class", "static_methods", "<function>", "str", "get", VS("0"), {VS("0"), VS("1")}, "exact"),
      K("class", "virtual_methods", "<virtual-method>", "str", "get", VS("0"), {VS("0"), VS("1")}, "exact"),
      K("class", "methods", "<method>", "str", "get", VS("0"), {VS("0"), VS("1")}, "exact"),
      K("class", "properties", "<property>", "str", "get", VS("0"), {VS("0"), VS("1")}, "exact"),
      K("class", "fields", "<field>", "str", "get", VS("0"), {VS("0"), VS("1")}, "exact"),
      K("class", "signals", "<glib:signal>", "str", "get", VS("0"), {VS("0"), VS("1")}, "exact") }
      \cup FullGeneric("class") \cup
    { C("interface", "name", "name", "str", "req", VNone, {VS("x")}, "exact"),
      C("interface", "c_symbol_prefix", "c:symbol-prefix", "str", "get", VNone, DName, "text"),
      C("interface", "ctype", "c:type", "str", "get", VNone, DName, "text"),
      C("interface", "gtype_name", "glib:type-name", "str", "req", VNone, {VS("FooX")}, "text"),
      C("interface", "get_type", "glib:get-type", "str", "req", VNone, {VS("foo_x_get_type")}, "text"),
      C("interface", "glib_type_struct", "glib:type-struct", "str", "gettruthy", VNone, {VNone, VS("Foo.XIface")}, "text"),
      K("interface", "prerequisites", "<prerequisite>", "str", "get", VS(""), {VS(""), VS("GObject.Object")}, "exact"),
      K("interface", "static_methods", "<function>", "str", "get", VS("0"), {VS("0"), VS("1")}, "exact"),
      K("interface", "virtual_methods", "<virtual-method>", "str", "get", VS("0"), {VS("0"), VS("1")}, "exact"),
      K("interface", "methods", "<method>", "str", "get", VS("0"), {VS("0"), VS("1")}, "exact"),
      K("interface", "properties", "<property>", "str", "get", VS("0"), {VS("0"), VS("1")}, "exact"),
      K("interface", "fields", "<field>", "str", "get", VS("0"), {VS("0"), VS("1")}, "exact"),
      K("interface", "signals", "<glib:signal>", "str", "get", VS("0"), {VS("0"), VS("1")}, "exact") }
      \cup FullGeneric("interface") \cup
    \* ---- boxed: no version / node-generic attributes are written (and the scanner never annotates a bare boxed)
    { C("boxed", "name", "glib:name", "str", "req", VNone, {VS("x")}, "exact"),
      C("boxed", "c_symbol_prefix", "c:symbol-prefix", "str", "get", VNone, {VS("x")}, "text"),
      C("boxed", "gtype_name", "glib:type-name", "w_reg", "req", VNone, {VS("FooX")}, "text"),
      C("boxed", "get_type", "glib:get-type", "w_reg", "req", VNone, {VS("foo_x_get_type")}, "text"),
      K("boxed", "constructors", "<constructor>", "str", "get", VS("0"), {VS("0"), VS("1")}, "exact"),
      K("boxed", "methods", "<method>", "str", "get", VS("0"), {VS("0"), VS("1")}, "exact"),
      K("boxed", "static_methods", "<function>", "str", "r_boxedfn", VS("0"), {VS("0"), VS("1")}, "exact") }
      \cup DocRows("boxed") \cup PosRows("boxed") \cup
    \* ---- record / union
    { C("record", "name", "name", "str", "get", VNone, DName, "exact"),
      C("record", "ctype", "c:type", "str", "get", VNone, DName, "text"),
      C("record", "disguised", "disguised", "flag1", "eq1", VF, DFlag, "flag"),
      C("record", "opaque", "opaque", "flag1", "eq1", VF, DFlag, "flag"),
      C("record", "pointer", "pointer", "flag1", "eq1", VF, DFlag, "flag"),
      C("record", "foreign", "foreign", "flag1", "r_flagtrue1", VF, DFlag, "flag"),
      C2("record", "is_gtype_struct_for", "glib:is-gtype-struct-for", "str", "get", VNone, {VNone, VS("Foo.X")}, "text"),
      C2("record", "copy_func", "copy-function", "truthy", "get", VNone, DName, "text"),
      C2("record", "free_func", "free-function", "truthy", "get", VNone, DName, "text"),
      C2("record", "c_symbol_prefix", "c:symbol-prefix", "truthy", "get", VNone, DName, "text"),
      K("record", "fields", "<field>", "str", "get", VS("0"), {VS("0"), VS("1")}, "exact"),
      K("record", "constructors", "<constructor>", "str", "get", VS("0"), {VS("0"), VS("1")}, "exact"),
      K("record", "methods", "<method>", "str", "get", VS("0"), {VS("0"), VS("1")}, "exact"),
      K("record", "static_methods", "<function>", "str", "get", VS("0"), {VS("0"), VS("1")}, "exact") }
      \cup RegisteredRows("record", "get") \cup FullGeneric("record") \cup
    { C("union", "name", "name", "str", "get", VNone, DName, "exact"),
      C("union", "ctype", "c:type", "str", "get", VNone, DName, "text"),
      \* read generically by _parse_compound, never written for unions (not in the GIR vocabulary of <union>)
      C("union", "disguised", "disguised", "never", "eq1", VF, DFlag, "-"),
      C("union", "opaque", "opaque", "never", "eq1", VF, DFlag, "-"),
      C("union", "pointer", "pointer", "never", "eq1", VF, DFlag, "-"),
      C("union", "copy_func", "copy-function", "truthy", "get", VNone, DName, "text"),
      C("union", "free_func", "free-function", "truthy", "get", VNone, DName, "text"),
      C("union", "c_symbol_prefix", "c:symbol-prefix", "truthy", "get", VNone, DName, "text"),
      K("union", "fields", "<field>", "str", "get", VS("0"), {VS("0"), VS("1")}, "exact"),
      K("union", "constructors", "<constructor>", "str", "get", VS("0"), {VS("0"), VS("1")}, "exact"),
      K("union", "methods", "<method>", "str", "get", VS("0"), {VS("0"), VS("1")}, "exact"),
      K("union", "static_methods", "<function>", "str", "get", VS("0"), {VS("0"), VS("1")}, "exact") }
      \cup RegisteredRows("union", "get") \cup FullGeneric("union") \cup
    \* ---- fields: plain, with an inline callback (only name + node-generic attributes are written)
    { C("field", "name", "name", "str", "get", VNone, DName, "text"),
      C("field", "readable", "readable", "flag0", "ne0", VT, DFlag, "flag"),
      C("field", "writable", "writable", "flag1", "eq1", VF, DFlag, "flag"),
      C("field", "bits", "bits", "truthy", "get", VNone, {VNone, VI("0"), VI("3")}, "textz"),
      C("field", "private", "private", "flag1", "eq1", VF, DFlag, "flag") }
      \cup VersionRows("field") \cup NodeGenericRows("field") \cup DocRows("field") \cup
    { C("cbfield", "name", "name", "str", "get", VNone, DName, "text"),
      C("cbfield", "readable", "readable", "never", "ne0", VT, {VT}, "flag"),
      C("cbfield", "writable", "writable", "never", "eq1", VF, {VF}, "flag"),
      C("cbfield", "private", "private", "never", "eq1", VF, {VF}, "flag") }
      \cup NodeGenericRows("cbfield") \cup DocRows("cbfield") \cup
    \* ---- property
    { C("property", "name", "name", "str", "req", VNone, {VS("x")}, "exact"),
      C("property", "readable", "readable", "flag0", "ne0", VT, DFlag, "flag"),
      C("property", "writable", "writable", "flag1", "eq1", VF, DFlag, "flag"),
      C("property", "construct", "construct", "flag1", "eq1", VF, DFlag, "flag"),
      C("property", "construct_only", "construct-only", "flag1", "eq1", VF, DFlag, "flag"),
      C("property", "transfer", "transfer-ownership", "truthy", "r_ornone", VS("none"), {VS("none"), VS("full")}, "text"),
      C("property", "setter", "setter", "truthy", "get", VNone, DName, "text"),
      C("property", "getter", "getter", "truthy", "get", VNone, DName, "text"),
      C("property", "default_value", "default-value", "str", "get", VNone, DText, "exact") }      \* "" = empty-string default, absent = none
      \cup VersionRows("property") \cup NodeGenericRows("property") \cup DocRows("property") \cup
    \* ---- namespace / repository header
    { C("namespace", "name", "name", "str", "req", VNone, {VS("Foo")}, "exact"),
      C("namespace", "version", "version", "str", "req", VNone, {VS("1.0")}, "exact"),
      C("namespace", "shared_libraries", "shared-library", "str", "r_split", VS(""), {VS(""), VS("liba.so,libb.so")}, "text"),
      C("namespace", "identifier_prefixes", "c:identifier-prefixes", "str", "get", VNone, {VS("Foo"), VS("Foo,Bar")}, "exact"),
      C("namespace", "symbol_prefixes", "c:symbol-prefixes", "str", "get", VNone, {VS("foo"), VS("foo,bar")}, "exact"),
      C("namespace", "includes", "<include>", "str", "get", VS(""), {VS(""), VS("GLib-2.0,GObject-2.0")}, "exact"),
      C("namespace", "exported_packages", "<package>", "str", "get", VS(""), {VS(""), VS("foo-1.0")}, "exact"),
      C("namespace", "c_includes", "<c:include>", "str", "get", VS(""), {VS(""), VS("a.h,foo.h")}, "exact"),
      C("namespace", "doc_format", "<doc:format>", "str", "req", VS("unknown"), {VS("unknown"), VS("gi-docgen")}, "exact") }

Chan == TLCEval(ChanDef)
Kinds == TLCEval({c.k : c \in Chan})
\* lookup tables (constant-level, evaluated once by TLC)
RowsBy == TLCEval([k \in Kinds |-> {c \in Chan : c.k = k}])
FieldsBy == TLCEval([k \in Kinds |-> {c.f : c \in RowsBy[k]} \ {"-"}])
AttrsBy == TLCEval([k \in Kinds |-> {c.a : c \in {cc \in RowsBy[k] : cc.w # "-"}} \ {"-"}])
FRowBy == TLCEval([k \in Kinds |-> TLCEval([f \in FieldsBy[k] |-> CHOOSE c \in RowsBy[k] : c.f = f])])
ARowBy == TLCEval([k \in Kinds |-> TLCEval([a \in AttrsBy[k] |-> CHOOSE c \in RowsBy[k] : c.a = a /\ c.w # "-"])])
ReqAttrsBy == TLCEval([k \in Kinds |-> {c.a : c \in {cc \in RowsBy[k] : cc.r = "req" /\ cc.a # "-"}}])
RowsOf(k) == RowsBy[k]
Fields(k) == FieldsBy[k]
Attrs(k) == AttrsBy[k]
FRow(k, f) == FRowBy[k][f]
ARow(k, a) == ARowBy[k][a]
Has(m, f) == f \in DOMAIN m
Fld(m, f) == IF Has(m, f) THEN m[f] ELSE VNone

\* the writer's type-name shortening and the reader's type_from_name (Namespace "Foo")
Fundamentals == {"gint", "utf8", "gpointer", "none", "guint8"}
ContainerNames == {"GLib.List", "GLib.SList", "GLib.HashTable"}
Shorten(s) == CASE s = "Foo.Bar" -> "Bar" [] s = "Foo.X" -> "X" [] s = "Foo.XClass" -> "XClass" [] s = "Foo.XIface" -> "XIface" [] OTHER -> s
Qualify(s) == CASE s = "Bar" -> "Foo.Bar" [] s = "X" -> "Foo.X" [] s = "XClass" -> "Foo.XClass" [] s = "XIface" -> "Foo.XIface" [] OTHER -> s
TypeRefFields == {"parent_type", "glib_type_struct", "is_gtype_struct_for"}

(* ---------------------------------------------------------------------------------------------
   the writer: value of attribute row c for model m *)
WAttr(c, m) ==
    LET v == Fld(m, c.f) IN
    CASE c.w = "str" -> IF c.f \in TypeRefFields /\ v # VNone THEN VS(Shorten(Str(v))) ELSE Att(v)
      [] c.w = "truthy" -> IF Truthy(v) THEN VS(Str(v)) ELSE VNone
      [] c.w = "flag1" -> IF Truthy(v) THEN VS("1") ELSE VNone
      [] c.w = "flag0" -> IF Truthy(v) THEN VNone ELSE VS("0")
      [] c.w = "never" -> VNone
      [] c.w = "w_intro" -> IF Truthy(Fld(m, "skip")) \/ ~Truthy(v) THEN VS("0") ELSE VNone
      [] c.w = "w_depflag" -> IF Truthy(Fld(m, "deprecated")) \/ Truthy(Fld(m, "deprecated_doc")) THEN VS("1") ELSE VNone
      [] c.w = "w_docpos" -> IF Truthy(Fld(m, "doc")) THEN Att(v) ELSE VNone
      [] c.w = "w_doccol" -> IF Truthy(Fld(m, "doc")) /\ Truthy(v) THEN VS(Str(v)) ELSE VNone
      [] c.w = "w_pos" -> IF Fld(m, "main_position.filename") # VNone THEN Att(v) ELSE VNone
      [] c.w = "w_poscol" -> IF Fld(m, "main_position.filename") # VNone /\ Truthy(v) THEN VS(Str(v)) ELSE VNone
      [] c.w = "w_tag" -> VS(CASE Str(v) = "top" -> IF Truthy(Fld(m, "is_inline")) THEN "function-inline" ELSE "function"
                               [] Str(v) = "method" -> IF Truthy(Fld(m, "is_inline")) THEN "method-inline" ELSE "method"
                               [] Str(v) = "ctor" -> "constructor"
                               [] OTHER -> "function@container")
      [] c.w = "w_shadows" -> IF ~Truthy(Fld(m, "shadowed_by")) /\ Truthy(v) THEN VS(Str(v)) ELSE VNone
      [] c.w = "w_cbctype" -> IF v # Fld(m, "name") THEN Att(v) ELSE VNone
      [] c.w = "w_reg" -> IF Truthy(Fld(m, "get_type")) THEN Att(v) ELSE VNone
      [] c.w = "w_dir" -> IF v # VNone /\ v # VS("in") THEN VS(Str(v)) ELSE VNone
      [] c.w = "w_ca" -> IF Fld(m, "direction") # VNone /\ Fld(m, "direction") # VS("in")
                         THEN (IF Truthy(v) THEN VS("1") ELSE VS("0")) ELSE VNone
      [] c.w = "w_nullable" -> IF Truthy(v) /\ ~Truthy(Fld(m, "not_nullable")) THEN VS("1") ELSE VNone
      [] c.w = "w_allownone" ->
             IF \/ Truthy(Fld(m, "nullable")) /\ ~Truthy(Fld(m, "not_nullable")) /\ Fld(m, "direction") # VS("out")
                \/ Truthy(Fld(m, "optional")) /\ Fld(m, "direction") = VS("out")
             THEN VS("1") ELSE VNone
      [] c.w = "w_ctype" -> IF Truthy(Fld(m, "complete_ctype")) THEN VS(Str(Fld(m, "complete_ctype")))
                            ELSE IF Truthy(v) THEN VS(Str(v)) ELSE VNone
      [] c.w = "w_tname" -> IF Truthy(Fld(m, "target_giname")) THEN VS(Shorten(Str(Fld(m, "target_giname"))))
                            ELSE IF Truthy(v) THEN VS(Str(v)) ELSE VNone
      [] c.w = "w_foreign" -> IF ~Truthy(Fld(m, "target_giname")) /\ ~Truthy(Fld(m, "target_fundamental")) /\ Truthy(v)
                              THEN VS("1") ELSE VNone
      [] c.w = "w_arrname" -> IF v # VS("<c>") THEN Att(v) ELSE VNone
      [] c.w = "w_zt" -> IF ~Truthy(v) THEN VS("0")
                         ELSE IF Fld(m, "size") # VNone \/ Fld(m, "length_param_name") # VNone THEN VS("1") ELSE VNone
      [] OTHER -> VNone

Write(k, m) == [a \in Attrs(k) |-> WAttr(ARow(k, a), m)]

(* ---------------------------------------------------------------------------------------------
   the reader: value of field row c for element x *)
XA(x, a) == IF a \in DOMAIN x THEN x[a] ELSE VNone
RFieldD(c, x, defs) ==
    LET v == XA(x, c.a) IN
    CASE c.r = "get" -> IF c.f \in TypeRefFields /\ v # VNone THEN VS(Qualify(Str(v))) ELSE v
      [] c.r = "req" -> v
      [] c.r = "gettruthy" -> IF Truthy(v) THEN (IF c.f \in TypeRefFields THEN VS(Qualify(Str(v))) ELSE v) ELSE c.d
      [] c.r = "eq1" -> VB(v = VS("1"))
      [] c.r = "ne0" -> VB(v # VS("0"))
      [] c.r = "tne0" -> IF ~Truthy(v) THEN v ELSE VB(v # VS("0"))        \* python: x and x != '0' 
      [] c.r = "r_flagtrue" -> IF Truthy(v) /\ v # VS("0") THEN VT ELSE c.d
      [] c.r = "r_flagtrue1" -> IF v = VS("1") THEN VT ELSE c.d
      [] c.r = "intgt0" -> IF Truthy(v) THEN VB(PosInt(Str(v)) /\ ~(c.k = "functionmacro" /\ c.f = "introspectable")) ELSE c.d
      [] c.r = "none" -> c.d
      [] c.r = "r_int" -> IF Truthy(v) THEN VI(Str(v)) ELSE c.d
      [] c.r = "r_docfile" -> IF Truthy(XA(x, "<doc>")) THEN (IF v = VNone THEN VS("<unknown>") ELSE v) ELSE VNone
      [] c.r = "r_docpos" -> IF Truthy(XA(x, "<doc>")) THEN v ELSE VNone
      [] c.r = "r_pos" -> IF v = VNone THEN VNone ELSE VI(Str(v))
      [] c.r = "r_role" -> VS(CASE Str(v) \in {"function", "function-inline"} -> "top"
                                [] Str(v) \in {"method", "method-inline"} -> "method"
                                [] Str(v) = "constructor" -> "ctor"
                                [] OTHER -> "static")
      [] c.r = "r_inline" -> VB(Str(XA(x, "<tag>")) \in {"function-inline", "method-inline"})
      [] c.r = "r_dir" -> IF Truthy(v) THEN v ELSE VS("in")
      [] c.r = "r_nullable" -> VB(v = VS("1") \/ (XA(x, "allow-none") = VS("1") /\ XA(x, "direction") # VS("out")))
      [] c.r = "r_optional" -> VB(v = VS("1") \/ (XA(x, "allow-none") = VS("1") /\ XA(x, "direction") = VS("out")))
      [] c.r = "r_index" -> IF Truthy(v) THEN v ELSE VNone        \* index -> name of the indexed parameter
      [] c.r = "r_ornone" -> IF v = VNone THEN VS("none") ELSE v
      [] c.r = "r_tfund" -> IF v # VNone /\ Str(v) \in Fundamentals THEN v ELSE VNone
      [] c.r = "r_tgi" -> LET n == XA(x, "name") IN IF n # VNone /\ Str(n) \notin Fundamentals THEN VS(Qualify(Str(n))) ELSE VNone
      [] c.r = "r_arrname" -> IF v = VNone THEN VS("<c>") ELSE v
      [] c.r = "r_zt" -> VB(~(Truthy(v) /\ v = VS("0")))
      [] c.r = "r_len" -> LET h == Str(XA(x, "@host")) IN
                          IF v = VNone THEN VNone
                          ELSE IF h = "callable" \/ h = "compound" THEN v
                          ELSE IF h = "compound_after_anon" /\ "field_length_index" \notin defs THEN v
                          ELSE VNone
      [] c.r = "keep" -> XA(x, "@host")
      [] c.r = "r_mapchild" -> IF v = VS("array") /\ "map_array_child" \in defs THEN VS("type") ELSE v
      [] c.r = "r_boxedfn" -> IF "boxed_function" \in defs THEN c.d ELSE v
      [] c.r = "r_split" -> IF v = VNone THEN c.d ELSE v
      [] c.r = "r_children" -> LET n == XA(x, "name") IN
                               IF n # VNone /\ Str(n) \in ContainerNames /\ v = VS("0") THEN VS("1") ELSE v
      [] OTHER -> c.d

\* the hosting context of an array is not an attribute: it is where the element sits
WithHost(k, x, m) == IF k = "array" THEN [a \in DOMAIN x \cup {"@host"} |-> IF a = "@host" THEN Fld(m, "host") ELSE x[a]] ELSE x
ReadD(k, x, defs) == [f \in Fields(k) |-> RFieldD(FRow(k, f), x, defs)]
Read(k, x) == ReadD(k, x, Defects)
\* attributes the reader indexes with [] : absent = KeyError
Raises(k, x) == \E a \in ReqAttrsBy[k] : XA(x, a) = VNone

(* ---------------------------------------------------------------------------------------------
   API view: the properties on which the model read back has to agree with the model written *)
DocPosFields == {"doc_position.filename", "doc_position.line", "doc_position.column"}
ViewRow(c, m) ==
    LET v == Fld(m, c.f) IN
    CASE c.f \in DocPosFields /\ ~Truthy(Fld(m, "doc")) -> ""          \* the position of a documentation that is not there
      [] c.api = "text" -> IF v = VNone THEN "" ELSE Str(v)            \* None and "" both mean "not given"; 5 and "5" are the same text
      [] c.api = "textz" -> IF Truthy(v) THEN Str(v) ELSE ""           \* ... and so does 0 (bit width)
      [] c.api = "postext" -> IF Truthy(v) THEN Str(v) ELSE ""
      [] c.api = "posfile" -> IF v = VNone THEN "" ELSE Str(v)
      [] c.api = "flag" -> IF Truthy(v) THEN "1" ELSE "0"
      [] c.api = "exact" -> IF v = VNone THEN "<None>" ELSE Str(v)
      [] OTHER -> ""
ApiFieldsBy == TLCEval([k \in Kinds |-> {c.f : c \in {cc \in RowsBy[k] : cc.f # "-" /\ cc.api # "-" /\ ~(k = "function" /\ cc.f = "shadows")}}])
Derived(k, m) ==
    (IF "introspectable" \in Fields(k)
       THEN ("introspectable*" :> IF Truthy(Fld(m, "skip")) \/ ~Truthy(Fld(m, "introspectable")) THEN "0" ELSE "1") ELSE <<>>) @@
    (IF "not_nullable" \in Fields(k)
       THEN ("nullable*" :> IF Truthy(Fld(m, "nullable")) /\ ~Truthy(Fld(m, "not_nullable")) THEN "1" ELSE "0") ELSE <<>>) @@
    (IF k \in {"parameter", "iparam"}
       THEN ("direction*" :> IF Truthy(Fld(m, "direction")) THEN Str(Fld(m, "direction")) ELSE "in") @@
            ("caller_allocates*" :> IF Truthy(Fld(m, "direction")) /\ Fld(m, "direction") # VS("in") /\ Truthy(Fld(m, "caller_allocates"))
                                    THEN "1" ELSE "0") ELSE <<>>) @@
    (IF "complete_ctype" \in Fields(k)
       THEN ("c:type*" :> IF Truthy(Fld(m, "complete_ctype")) THEN Str(Fld(m, "complete_ctype"))
                          ELSE IF Truthy(Fld(m, "ctype")) THEN Str(Fld(m, "ctype")) ELSE "") ELSE <<>>) @@
    (IF k = "callback"
       THEN ("c:type*" :> IF Truthy(Fld(m, "ctype")) THEN Str(Fld(m, "ctype")) ELSE Str(Fld(m, "name"))) ELSE <<>>) @@
    (IF k = "function"
       THEN ("inline*" :> IF Str(Fld(m, "role")) \in {"top", "method"} /\ Truthy(Fld(m, "is_inline")) THEN "1" ELSE "0") @@
            \* a function both shadowing and shadowed is written with shadowed-by only; the pipeline refuses to produce it
            ("shadows*" :> IF Truthy(Fld(m, "shadowed_by")) THEN "" ELSE IF Truthy(Fld(m, "shadows")) THEN Str(Fld(m, "shadows")) ELSE "") ELSE <<>>)
View(k, m) == [f \in ApiFieldsBy[k] |-> ViewRow(FRow(k, f), m)] @@ Derived(k, m)

(* ---------------------------------------------------------------------------------------------
   the property on one node *)
W1(k, m) == Write(k, m)
R1(k, m) == Read(k, WithHost(k, W1(k, m), m))
W2(k, m) == Write(k, R1(k, m))
Readable(k, m) == ~Raises(k, W1(k, m))
FixedPoint(k, m) == W2(k, m) = W1(k, m)
Agree(k, m) == View(k, R1(k, m)) = View(k, m)
DisagreeOn(k, m) == {p \in DOMAIN View(k, m) : View(k, R1(k, m))[p] # View(k, m)[p]}

(* models the scanner pipeline can produce (the quantifier of C07): everything else is outside the
   statement.  Each conjunct is a fact about Transformer / MainTransformer / GDumpParser, confirmed by the
   census of real scans in harness/props/c07.py (evidence: `unreached`). *)
Producible(k, m) ==
    /\ (Has(m, "doc") /\ Truthy(m["doc"])) => (m["doc_position.filename"] # VNone /\ m["doc_position.line"] # VNone)
    /\ (Has(m, "doc_position.filename") /\ m["doc_position.filename"] = VNone)
          => (m["doc_position.line"] = VNone /\ m["doc_position.column"] = VNone)
    /\ (Has(m, "main_position.filename") /\ m["main_position.filename"] = VNone)
          => (m["main_position.line"] = VNone /\ m["main_position.column"] = VNone)
    /\ (Has(m, "main_position.filename") /\ m["main_position.filename"] # VNone) => m["main_position.line"] # VNone
    /\ k = "type" => /\ m["target_foreign"] = VNone                              \* no scanner code sets target_foreign
                     /\ (Str(m["target_giname"]) \in ContainerNames => "bare_container" \in Defects)
                     /\ ~(m["target_fundamental"] # VNone /\ m["target_giname"] # VNone)
    /\ k = "function" => ~(Truthy(m["shadows"]) /\ Truthy(m["shadowed_by"]))        \* refused with a warning
    /\ (k \in {"enum", "bitfield", "record", "union"}) => ((m["gtype_name"] = VNone) <=> (m["get_type"] = VNone))   \* ast.Registered asserts it
    \* (array length=) is refused on class fields (AttributeError printed by _apply_annotations_field) and on element types
    /\ k = "array" => (m["length_param_name"] # VNone => Str(m["host"]) \in {"callable", "compound", "compound_after_anon"})
=============================================================================

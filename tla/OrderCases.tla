----------------------------- MODULE OrderCases -----------------------------
(* Exports the abstract inputs of the exhaustive model for replay through the REAL scanner          *)
(* (harness/props/c16.py): every declaration pattern of OrderMC!MC_Thorough, every declared         *)
(* element documented by one block plus two SECTION blocks, both dependency graphs.                  *)
EXTENDS OrderMC, Json, IOUtils, SequencesExt
Cases == UNION {{[decls |-> ds, blocks |-> BlockSeq(FullBlocks(ds)), deps |-> d] : d \in {"chain", "diamond"}} :
                   ds \in DeclSets(Pats, {"-", "p", "m"}, Pats, BOOLEAN, {"-", "m3", "m1"})}
ASSUME JsonSerialize(IOEnv.CASES_FILE, SetToSeq(Cases))
CInit == input = <<>> /\ turn = 3 /\ pc = "done" /\ m = <<>> /\ out = <<>> /\ diag = <<>>
CNext == UNCHANGED vars
=============================================================================

INIT Init
NEXT Next
CONSTANTS
  Defects = {"boxed_function"}
  Rich = FALSE
  AllModels = FALSE
  KindSel = {"boxed"}
INVARIANTS ReadableInv FixedPointInv AgreeInv
CHECK_DEADLOCK FALSE

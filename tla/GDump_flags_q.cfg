INIT Init
NEXT Next
CONSTANTS
  Dev = {"barepointer"}
  Family = "flags"
  Size = "q"
INVARIANT ImplSatisfiesPropertyModuloKnown
INVARIANT ImplSatisfiesExtra
INVARIANT WellFormed
CHECK_DEADLOCK FALSE

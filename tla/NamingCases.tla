----------------------------- MODULE NamingCases -----------------------------
(* Exports cases of the exhaustive families of NamingMC for replay against the real scanner (S->C): a
   random sample (TLC -seed) of stems x completions per family in the quick tier, a larger one in the
   thorough tier; and all strings over {U, l, d} up to length 7 for the underscore sub-model. *)
EXTENDS NamingMC, Json, IOUtils, Randomization

Cap(n, S) == IF Cardinality(S) <= n THEN S ELSE RandomSubset(n, S)
Thorough == IOEnv.TIER = "thorough"
Build(P) == { Mk(p[1].k, p[1].dump, p[1].pre \o p[2]) : p \in P }
SPrefix == Build(Cap(IF Thorough THEN 600 ELSE 150, PrefixStems("prefix")) \X Cap(IF Thorough THEN 30 ELSE 12, PrefixRest))
SOrder  == Build({ q \in Cap(IF Thorough THEN 300 ELSE 120, OrderStems("order")) \X Cap(IF Thorough THEN 50 ELSE 14, OrderRest) : OrderOK(q[1], q[2]) })
SPair   == Build(Cap(IF Thorough THEN 120 ELSE 60, PairStems) \X Cap(IF Thorough THEN 200 ELSE 40, PairRest))
SPair2  == Build({ q \in Cap(IF Thorough THEN 300 ELSE 60, Pair2Stems) \X Cap(IF Thorough THEN 20 ELSE 10, Pair2Rest) : Pair2OK(q[1], q[2]) })

ASSUME JsonSerialize(IOEnv.CASES_FILE, [prefix |-> SetToSeq(SPrefix), order |-> SetToSeq(SOrder), pair |-> SetToSeq(SPair),
                                         pair2 |-> SetToSeq(SPair2), uscore |-> SetToSeq(Strings)])
CInit == fam = "-" /\ case = 0 /\ pc = "export" /\ out = NoOut /\ bad = {}
=============================================================================

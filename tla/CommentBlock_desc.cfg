SPECIFICATION Spec
CONSTANTS
  Forms <- OneForm
  Indents <- Ind012
  MaxIdAnns = 0
  MaxParams = 0
  MaxParamAnns = 0
  MaxPartLines = 1
  MaxDescLines = 2
  MaxParas = 2
  MaxTags = 1
  TagNames <- TagsR
  MaxTagAnns = 0
  MaxCont = 1
  MaxNoise = 1
  AtReturns = FALSE
  FaultKinds <- NoFaults
  MaxFaults = 0
  KeepLines = FALSE
  Known <- KnownC10
  StartLine = 10
CHECK_DEADLOCK FALSE
INVARIANT TypeOK
INVARIANT RoundTrip
INVARIANT WriterFix

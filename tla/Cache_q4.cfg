SPECIFICATION Spec
CONSTANTS
  Procs <- MC_Procs3
  SVer <- MC_SVerMixed3
  MaxEdits = 0
  MaxIno = 3
  AllowCopy = FALSE
  MaxCrashes = 1
  Coarse = FALSE
  StatByName = FALSE
  StampFirst = FALSE
  KnownCauses = {}
CHECK_DEADLOCK FALSE
INVARIANT TypeOK
INVARIANT NoStaleUnexplained
INVARIANT NoTorn
INVARIANT NoCrossVersion
INVARIANT PurgeEffective

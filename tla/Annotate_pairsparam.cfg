SPECIFICATION MCSpec
CONSTANTS
  Dev = {}
  Which = "pairsparam"
  Cases <- NoCases
INVARIANT ImplSatisfiesProperty
CHECK_DEADLOCK FALSE

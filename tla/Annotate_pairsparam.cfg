SPECIFICATION Spec
CONSTANTS
  Which = "pairsparam"
  Cases <- MC_Cases
INVARIANT ImplSatisfiesProperty
CHECK_DEADLOCK FALSE

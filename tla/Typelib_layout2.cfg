INIT Init
NEXT Next
CONSTANTS
  Dev = {}
  Kinds = {"layout", "api"}
  Strict = FALSE
  Full = FALSE
  MaxCnt = 2
INVARIANT InvLayout
INVARIANT InvAccessor
INVARIANT InvApi
CHECK_DEADLOCK FALSE

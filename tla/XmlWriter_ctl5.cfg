SPECIFICATION MCSpec
CONSTANTS
  ABS <- MC_Abs
  HIST <- MC_Hist
  EscVariant = "asis"
  AllowMisuse = FALSE
  OpSet <- CtlOps
  MaxOps = 5
CHECK_DEADLOCK FALSE
INVARIANT Combined
PROPERTY ClosedInOrder

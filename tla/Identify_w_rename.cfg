SPECIFICATION ASpec
CONSTANTS
  RefuseShadowedSource = FALSE
  OwnBlockWins = TRUE
INVARIANT Mutual
INVARIANT Honoured
INVARIANT VfuncInv
CHECK_DEADLOCK FALSE

INIT Init
NEXT Next
CONSTANTS
  Dev = {}
  Kinds = {"field"}
  Strict = TRUE
  Full = TRUE
  MaxCnt = 1
INVARIANT BuildEncodes
CHECK_DEADLOCK FALSE

SPECIFICATION Spec
CONSTANTS
  NS <- MC_NS
  Dirs <- MC_Dirs3
  VChars <- MC_VChars
  DiskConfigs <- MC_DiskDeps
  EnvConfigs <- MC_EnvB
  MaxCalls = 3
  Ops <- MC_OpsLazy
  ReqVers <- MC_V12
  Lazies <- MC_Both
  Dev <- MC_DevLazyDep
  Known <- MC_KnownDesign
CHECK_DEADLOCK FALSE
INVARIANT NoW_lazy_dependency

---------------------------- MODULE TypelibCases ----------------------------
(***************************************************************************)
(* Exports the abstract cases of TypelibMC for replay against the real     *)
(* compiler (S->C): exactly the sets TLC counts in Typelib_quick/full.cfg  *)
(* (with Strict = TRUE: the inputs on which the transcription Build<Kind>  *)
(* deviates from the property layer are INCLUDED, the real code is judged  *)
(* on all of them), restricted to documents that are valid GIR, plus the   *)
(* header-level case sets (documents, objects, interfaces, structs, enums, *)
(* constants) that have no Build operator.                                 *)
(* Names inside the cases are placeholders; the harness instantiates them  *)
(* with unique names per case.                                             *)
(***************************************************************************)
EXTENDS TypelibMC, Json, IOUtils, SequencesExt

\* ---- validity of a signature case as a GIR document (instance-parameter only where a callable has an instance)
ValidSig(s) == /\ (s.ckind \in {"function", "callback", "constructor", "signal"} => s.inst = "")
               /\ (s.ckind = "signal" => s.throws = "")
               /\ (s.ckind = "constructor" => s.rtype = RecT)         \* the compiler's validator insists on an interface type
ValidFn(f) == ~(f.setprop # "" /\ f.getprop # "") /\ (f.ckind = "function" => (f.setprop = "" /\ f.getprop = ""))
\* a type case is renderable when array lengths point at an existing sibling (the harness adds filler parameters/fields)
\* types the format can express and producers write: a GByteArray holds guint8; the ArrayTypeBlob has ONE dimension field, so
\* length= together with fixed-size= has no encoding; a field cannot have type none
ByteArrayOK(t, i) == (t[i].k = "array" /\ t[i].rname = "ByteArray") =>
                          (t[i].nchild = 1 /\ t[i + 1].rname = "guint8" /\ t[i + 1].k = "basic")
OneDimension(t, i) == (t[i].k = "array") => ~(t[i].len >= 0 /\ t[i].fsize >= 0)
ValidType(c) == LET t == c.type IN
    /\ \A i \in 1..Len(t) : ByteArrayOK(t, i) /\ OneDimension(t, i)
    /\ (c.ctx.field => ~(t[1].k = "basic" /\ t[1].rname = "none"))
TypeExport == {c \in TypeCases : ValidType(c)}
SigExport == {s \in SigCases : ValidSig(s)}
FnExport == {f \in FnCases : ValidFn(f)}

Ref(ns, n) == [ns |-> ns, n |-> n]
NoRef == Ref("", "")
FuncSets == {<<"", "", "", "">>, <<"tst_ref", "tst_unref", "tst_set_value", "tst_get_value">>, <<"tst_ref", "", "", "tst_get_value">>}
IfaceLists == {<<>>, <<Ref("", "I0")>>, <<Ref("GObject", "TypePlugin"), Ref("", "I0"), Ref("", "I1")>>}
ObjCases == {[name |-> "O", deprecated |-> d, abstract |-> a, final |-> f, fundamental |-> fu, gtype_name |-> "TstO",
              gtype_init |-> "tst_o_get_type", parent |-> p, gtype_struct |-> gs, ref_func |-> rf[1], unref_func |-> rf[2],
              set_value_func |-> rf[3], get_value_func |-> rf[4], interfaces |-> is] :
                d \in {"", "1"}, a \in TriQ, f \in TriQ, fu \in {"", "1"},
                p \in {NoRef, Ref("", "Base"), Ref("GObject", "Object")}, gs \in {NoRef, Ref("", "OClass")},
                rf \in FuncSets, is \in IfaceLists}
IfaceCases == {[name |-> "I", deprecated |-> d, gtype_name |-> "TstI", gtype_init |-> "tst_i_get_type", gtype_struct |-> gs,
                prerequisites |-> pr] :
                d \in {"", "1"}, gs \in {NoRef, Ref("", "IIface")},
                pr \in {<<>>, <<Ref("GObject", "Object")>>, <<Ref("", "I0"), Ref("GObject", "Object"), Ref("", "I1")>>}}
StructCases == {[tag |-> t, name |-> "S", deprecated |-> d, gtype_name |-> gt[1], gtype_init |-> gt[2], gtype_struct_for |-> sf,
                 foreign |-> fo, copy_func |-> cf[1], free_func |-> cf[2]] :
                t \in {"record", "boxed", "union"}, d \in {"", "1"}, gt \in {<<"", "">>, <<"TstS", "tst_s_get_type">>},
                sf \in {"", "Base"}, fo \in TriQ, cf \in {<<"", "">>, <<"tst_s_copy", "tst_s_free">>, <<"", "tst_s_free">>}}
ValidStruct(s) == /\ (s.tag = "boxed" => (s.gtype_name # "" /\ s.gtype_struct_for = "" /\ s.foreign = "" /\ s.copy_func = "" /\ s.free_func = ""))
                  /\ (s.tag = "union" => (s.gtype_struct_for = "" /\ s.foreign = ""))
EnumHeadCases == {[tag |-> t, name |-> "E", deprecated |-> d, gtype_name |-> gt[1], gtype_init |-> gt[2], error_domain |-> ed] :
                t \in {"enumeration", "bitfield"}, d \in {"", "1"}, gt \in {<<"", "">>, <<"TstE", "tst_e_get_type">>},
                ed \in {"", "tst-e-error-quark"}}
CallbackHeadCases == {[name |-> "Cb", deprecated |-> d] : d \in {"", "1"}}

\* constants of every basic type: [t (basic type name), text (the literal written in the file)]
IntBounds == [ gint8 |-> {"-128", "-1", "0", "127"}, guint8 |-> {"0", "255"}, gint16 |-> {"-32768", "32767"}, guint16 |-> {"0", "65535"},
               gint32 |-> {"-2147483648", "-1", "0", "2147483647"}, guint32 |-> {"0", "2147483648", "4294967295"},
               gint64 |-> {"-9223372036854775808", "-4294967297", "4294967296", "9223372036854775807"},
               guint64 |-> {"0", "9223372036854775808", "18446744073709551615"},
               gchar |-> {"-128", "65"}, guchar |-> {"255"}, gshort |-> {"-32768"}, gushort |-> {"65535"}, gint |-> {"-2147483648", "42"},
               guint |-> {"4294967295"}, glong |-> {"-9223372036854775808"}, gulong |-> {"18446744073709551615"},
               gssize |-> {"-1"}, gsize |-> {"18446744073709551615"}, gintptr |-> {"-5"}, guintptr |-> {"5"},
               gunichar |-> {"0", "8364", "1114111"} ]
ConstCases == UNION {{[t |-> n, text |-> x] : x \in IntBounds[n]} : n \in DOMAIN IntBounds}
              \cup {[t |-> "gboolean", text |-> x] : x \in {"true", "false", "TRUE", "0", "1"}}
              \cup {[t |-> "gdouble", text |-> x] : x \in {"0.0", "3.141592653589793", "-2.5e-300", "1e308", "1.7976931348623157e+308"}}
              \cup {[t |-> "gfloat", text |-> x] : x \in {"0.5", "-2.25", "1e10", "3.4028234663852886e+38"}}
              \cup {[t |-> "utf8", text |-> x] : x \in {"", "a", "hello world", "quote \" amp & lt < nl \n tab", "\\u00e9\\u20ac"}}
              \cup {[t |-> "filename", text |-> x] : x \in {"/usr/share/x", "."}}

DocCases == {[shlib |-> sl, cprefix |-> cp, version |-> v, includes |-> inc] :
                sl \in {"", "libtst.so.1", "liba.so.1,libb.so.2"}, cp \in {"", "Tst"}, v \in {"1.0", "0.2.1"},
                inc \in {<<>>, <<<<"GLib", "2.0">>>>, <<<<"GLib", "2.0">>, <<"GObject", "2.0">>>>, <<<<"GObject", "2.0">>>>}}

ShapeExport == [k \in ContainerKinds |-> SetToSeq(Shapes(k))]

ASSUME JsonSerialize(IOEnv.CASES_FILE,
         [arg |-> SetToSeq(ArgCases), type |-> SetToSeq(TypeExport), sig |-> SetToSeq(SigExport), function |-> SetToSeq(FnExport),
          property |-> SetToSeq(PropCasesAll), signal |-> SetToSeq(SignalCases), vfunc |-> SetToSeq(VFuncCases),
          field |-> SetToSeq(FieldCases), value |-> SetToSeq(ValueCases),
          object |-> SetToSeq(ObjCases), interface |-> SetToSeq(IfaceCases), struct |-> SetToSeq({s \in StructCases : ValidStruct(s)}),
          enum |-> SetToSeq(EnumHeadCases), callback |-> SetToSeq(CallbackHeadCases), constant |-> SetToSeq(ConstCases),
          doc |-> SetToSeq(DocCases), shapes |-> ShapeExport])

CInit == kind = "export" /\ g = 0
=============================================================================

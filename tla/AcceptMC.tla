------------------------------ MODULE AcceptMC ------------------------------
(* C15 -- bounded families of scanner outputs: every document the producer model can emit for them is run through
   the consumer model event by event; when the document is consumed (or the parser stopped) the observations the
   model yields are judged by the property layer AcceptProp -- the very clauses AcceptTrace evaluates on the real pair.

       Inv_Doc   Accepted / Quiet / Validates / Identity           for the document
       Inv_Elem  Exposed / Absent / ShadowedServed / <flag clauses> for every element the document states

   Accept_quick / Accept_full   Code = Known = the deviations the code has today (recorded findings): every family passes
   Accept_ideal                 Code = Known = {}: the pair in which C15 holds without exception
   Accept_w_<d>                 a repaired deviation d switched back on: TLC has to produce a counterexample
   Accept_k_<d>                 a recorded finding d taken out of Known: TLC has to produce a counterexample (it is real in the model)
   The nodes respect what the scanner's passes guarantee about what reaches the writer (Closed below: C05's closure,
   transfer stated on introspectable callables, ...) EXCEPT where a producer-side deviation of Code lifts the guarantee. *)
EXTENDS Accept

CONSTANTS Known,                   \* deviations of Code that are recorded findings: what follows from them alone is tolerated
          Families,                \* subset of FamilyNames
          Full                     \* TRUE: the whole cross products (thorough tier); FALSE: every dimension against a base value
FamilyNames == {"value", "callable", "members", "compound", "types", "flags"}

(* ============================================================== the GIR states: element records read off the document *)
\* parent index of every start event (0 = none; -1 for end events), by one fold over the events
Parents(doc) == FoldLeft(LAMBDA acc, k : IF doc[k].e = "s"
                                          THEN [stack |-> Append(acc.stack, k), par |-> Append(acc.par, IF acc.stack = <<>> THEN 0 ELSE acc.stack[Len(acc.stack)])]
                                          ELSE [stack |-> SubSeq(acc.stack, 1, Len(acc.stack) - 1), par |-> Append(acc.par, -1)],
                         [stack |-> <<>>, par |-> <<>>], [k \in 1..Len(doc) |-> k]).par
KidsTagged(doc, P, i, tags) == SelectSeq([k \in 1..Len(doc) |-> k], LAMBDA j : P[j] = i /\ doc[j].tag \in tags)
At(at, n) == GetOr(at, n, "")

GValue(at) == [name |-> At(at, "name"), direction |-> At(at, "direction"), ca |-> At(at, "caller-allocates"), transfer |-> At(at, "transfer-ownership"),
               nullable |-> At(at, "nullable"), allowNone |-> At(at, "allow-none"), optional |-> At(at, "optional"), scope |-> At(at, "scope"),
               closure |-> IF Has(at, "closure") THEN StrInt(Get(at, "closure")) ELSE -1,
               destroy |-> IF Has(at, "destroy") THEN StrInt(Get(at, "destroy")) ELSE -1, skip |-> At(at, "skip")]
GCallable(doc, P, i) ==
    LET at == doc[i].at
        rv == KidsTagged(doc, P, i, {"return-value"})
        ps == KidsTagged(doc, P, i, {"parameters"})
        pl == IF ps = <<>> THEN <<>> ELSE KidsTagged(doc, P, ps[1], {"parameter"})
        ins == IF ps = <<>> THEN <<>> ELSE KidsTagged(doc, P, ps[1], {"instance-parameter"}) IN
    [throws |-> At(at, "throws"), setProp |-> At(at, "glib:set-property"), getProp |-> At(at, "glib:get-property"), invoker |-> At(at, "invoker"),
     hasRet |-> rv # <<>>, ret |-> IF rv # <<>> THEN GValue(doc[rv[1]].at) ELSE GValue(<<>>),
     hasInst |-> ins # <<>>, inst |-> IF ins # <<>> THEN At(doc[ins[1]].at, "transfer-ownership") ELSE "",
     params |-> [k \in 1..Len(pl) |-> GValue(doc[pl[k]].at)],
     when |-> At(at, "when"), noRecurse |-> At(at, "no-recurse"), detailed |-> At(at, "detailed"), action |-> At(at, "action"), noHooks |-> At(at, "no-hooks")]
GFlags(doc, P, i) ==
    LET tag == doc[i].tag at == doc[i].at IN
    CASE tag \in CallableTags -> GCallable(doc, P, i)
      [] tag = "property" -> [readable |-> At(at, "readable"), writable |-> At(at, "writable"), construct |-> At(at, "construct"),
                              constructOnly |-> At(at, "construct-only"), transfer |-> At(at, "transfer-ownership"),
                              setter |-> At(at, "setter"), getter |-> At(at, "getter")]
      [] tag = "field" -> [readable |-> At(at, "readable"), writable |-> At(at, "writable"), bits |-> At(at, "bits")]
      [] tag = "member" -> [value |-> At(at, "value"), low32 |-> At(at, "value")]
      [] tag = "constant" -> [value |-> At(at, "value")]
      [] tag \in {"class", "interface"} ->
            [parent |-> At(at, "parent"), abstract |-> At(at, "abstract"), final |-> At(at, "final"), fundamental |-> At(at, "glib:fundamental"),
             typeName |-> At(at, "glib:type-name"), getType |-> At(at, "glib:get-type"), typeStruct |-> At(at, "glib:type-struct"),
             implements |-> [k \in 1..Len(KidsTagged(doc, P, i, {"implements"})) |-> At(doc[KidsTagged(doc, P, i, {"implements"})[k]].at, "name")],
             prerequisites |-> [k \in 1..Len(KidsTagged(doc, P, i, {"prerequisite"})) |-> At(doc[KidsTagged(doc, P, i, {"prerequisite"})[k]].at, "name")]]
      [] tag \in {"record", "union", "glib:boxed"} ->
            [typeName |-> At(at, "glib:type-name"), getType |-> At(at, "glib:get-type"), foreign |-> At(at, "foreign"),
             gtypeStructFor |-> At(at, "glib:is-gtype-struct-for"), copyFunc |-> At(at, "copy-function"), freeFunc |-> At(at, "free-function")]
      [] tag \in {"enumeration", "bitfield"} ->
            LET ms == SelectSeq(KidsTagged(doc, P, i, {"member"}), LAMBDA j : At(doc[j].at, "introspectable") # "0") IN
            [typeName |-> At(at, "glib:type-name"), getType |-> At(at, "glib:get-type"), errorDomain |-> At(at, "glib:error-domain"),
             members |-> [k \in 1..Len(ms) |-> <<At(doc[ms[k]].at, "name"), At(doc[ms[k]].at, "value")>>]]
      [] OTHER -> [none |-> TRUE]
GElem(doc, P, i, level, owner, ownerTag, anc0) ==
    LET tag == doc[i].tag at == doc[i].at IN
    [tag |-> tag, name |-> IF tag = "glib:boxed" THEN At(at, "glib:name") ELSE At(at, "name"), cid |-> At(at, "c:identifier"), level |-> level,
     owner |-> owner, ownerTag |-> ownerTag, marked0 |-> At(at, "introspectable") = "0", anc0 |-> anc0, shadows |-> At(at, "shadows"),
     shadowedBy |-> At(at, "shadowed-by"), movedTo |-> At(at, "moved-to"), deprecated |-> At(at, "deprecated"), ns |-> "Foo", fl |-> GFlags(doc, P, i)]
TopTags == {"function", "callback", "enumeration", "bitfield", "class", "interface", "record", "union", "glib:boxed", "constant"}
MemberTags == {"method", "constructor", "function", "virtual-method", "property", "glib:signal", "field", "member", "constant"}
ContainerTags == {"class", "interface", "record", "union", "glib:boxed", "enumeration", "bitfield"}
NsIndex(doc) == CHOOSE i \in 1..Len(doc) : doc[i].e = "s" /\ doc[i].tag = "namespace"
ElemsOf(doc) ==
    LET P == Parents(doc)
        tops == KidsTagged(doc, P, NsIndex(doc), TopTags) IN
    {GElem(doc, P, tops[k], "top", "", "", FALSE) : k \in 1..Len(tops)}
    \cup UNION { LET i == tops[k] g == GElem(doc, P, i, "top", "", "", FALSE) ms == KidsTagged(doc, P, i, MemberTags) IN
                 IF doc[i].tag \in ContainerTags THEN {GElem(doc, P, ms[m], "member", g.name, g.tag, g.marked0) : m \in 1..Len(ms)} ELSE {}
                 : k \in 1..Len(tops) }

(* ============================================================================================== abstract nodes *)
G0 == [intro |-> TRUE, deprecated |-> FALSE, attrs |-> FALSE, doc |-> FALSE]
V0 == [name |-> "x", dir |-> "in", ca |-> FALSE, transfer |-> "none", nullable |-> FALSE, optional |-> FALSE, scope |-> "", closure |-> -1,
       destroy |-> -1, skip |-> FALSE, type |-> TNamed("gint")]
R0 == [V0 EXCEPT !.name = ""]
Inst(owner) == [V0 EXCEPT !.name = "self", !.type = TNamed(owner)]
Fn(tag, name, owner) == G0 @@ [tag |-> tag, name |-> name, cid |-> "foo_" \o name, shadowedBy |-> "", shadows |-> "", movedTo |-> "", setProp |-> "",
                               getProp |-> "", throws |-> FALSE, inline |-> FALSE, internalSkipped |-> FALSE, ret |-> R0, hasInst |-> tag = "method",
                               inst |-> Inst(owner), params |-> <<>>]
Cb(name) == [Fn("callback", name, "") EXCEPT !.cid = ""]
VF(name, owner) == [Fn("method", name, owner) EXCEPT !.tag = "virtual-method", !.cid = ""] @@ [invoker |-> ""]
Sig(name) == G0 @@ [tag |-> "glib:signal", name |-> name, when |-> "", noRecurse |-> FALSE, detailed |-> FALSE, action |-> FALSE, noHooks |-> FALSE,
                    ret |-> R0, hasInst |-> FALSE, inst |-> V0, params |-> <<>>]
Prop(name) == G0 @@ [name |-> name, readable |-> TRUE, writable |-> FALSE, construct |-> FALSE, constructOnly |-> FALSE, transfer |-> "none",
                     setter |-> "", getter |-> "", type |-> TNamed("gint")]
Fld(name) == G0 @@ [k |-> "plain", name |-> name, readable |-> TRUE, writable |-> TRUE, bits |-> 0, private |-> FALSE, type |-> TNamed("gint")]
CbFld(name, cb) == G0 @@ [k |-> "callback", name |-> name, cb |-> cb]
Rec(tag, name) == G0 @@ [tag |-> tag, name |-> name, gtypeStructFor |-> "", typeName |-> "", getType |-> "", fields |-> <<>>, methods |-> <<>>]
AnonFld(k, anon) == G0 @@ [k |-> k, name |-> "", anon |-> anon]
Cls(tag, name) == G0 @@ [tag |-> tag, name |-> name, parent |-> IF tag = "class" THEN "GObject.Object" ELSE "", abstract |-> FALSE, final |-> FALSE,
                         fundamental |-> FALSE, typeName |-> "Foo" \o name, getType |-> "foo_get_type", typeStruct |-> "", ifaces |-> <<>>,
                         methods |-> <<>>, vfuncs |-> <<>>, props |-> <<>>, fields |-> <<>>, signals |-> <<>>]
Enm(tag, name) == G0 @@ [tag |-> tag, name |-> name, typeName |-> "", getType |-> "", errorDomain |-> "", members |-> <<>>, methods |-> <<>>]
Mem(name, value) == G0 @@ [name |-> name, value |-> value, cid |-> "FOO_" \o name]
Const(name, value, type) == G0 @@ [tag |-> "constant", name |-> name, value |-> value, type |-> type]
Ali(name, target) == G0 @@ [tag |-> "alias", name |-> name, target |-> target]
Bxd(name) == G0 @@ [tag |-> "glib:boxed", name |-> name, typeName |-> "Foo" \o name, getType |-> "foo_b_get_type", methods |-> <<>>]

\* what every document contains besides the case: an introspectable record, a hidden one, a callback type
Ctx == <<Rec("record", "Rec"), [Rec("record", "Hidden") EXCEPT !.intro = FALSE], Cb("Cb")>>
B == BOOLEAN

(* ---- family "value": one function, one parameter and one return value over the attribute cross product *)
Dirs == {<<"in", FALSE>>, <<"out", FALSE>>, <<"out", TRUE>>, <<"inout", FALSE>>} \cup (IF Dev("inout_caller_allocates") THEN {<<"inout", TRUE>>} ELSE {})
\* IntrospectablePass: a value of an introspectable callable has a transfer and a resolved type -- unless it is skipped (deviation)
ValueCore == {[V0 EXCEPT !.dir = d[1], !.ca = d[2], !.transfer = t, !.nullable = n, !.optional = o, !.skip = sk, !.type = ty] :
                 d \in Dirs, t \in {"none", "full", "container", ""}, n \in B, o \in B, sk \in B, ty \in {TNamed("gint"), TUnres}}
ValueSpace == IF Full THEN {[v EXCEPT !.scope = s, !.closure = cl, !.destroy = ds] : v \in ValueCore, s \in {"", "call", "notified"}, cl \in {-1, 1}, ds \in {-1, 1}}
              ELSE ValueCore \cup {[V0 EXCEPT !.dir = d[1], !.ca = d[2], !.scope = s, !.closure = cl, !.destroy = ds] :
                                      d \in Dirs, s \in {"", "call", "async", "notified", "forever"}, cl \in {-1, 1}, ds \in {-1, 1}}
\* (an unresolved type demotes the callable whether the value is skipped or not: _analyze_node looks at every parameter type)
ClosedValue(v) == v.type.k # "unresolved" /\ (v.transfer # "" \/ (Dev("skipped_value") /\ v.skip))
RetSpace == {[R0 EXCEPT !.transfer = t, !.nullable = n, !.skip = sk, !.type = ty] : t \in {"none", "full", ""}, n \in B, sk \in B, ty \in {TNamed("utf8"), TUnres}}
ValueCases(z) ==
    {<<[Fn("function", "f", "") EXCEPT !.params = <<v, [V0 EXCEPT !.name = "y"]>>]>> : v \in {v \in ValueSpace : ClosedValue(v)}}
    \cup {<<[k EXCEPT !.ret = r]>> : r \in {r \in RetSpace : ClosedValue(r)}, k \in {Fn("function", "f", ""), Cb("C")}}
    \cup {<<[Cls("class", "K") EXCEPT !.vfuncs = <<[VF("v", "K") EXCEPT !.ret = r]>>, !.signals = <<[Sig("s") EXCEPT !.ret = r]>>]>> :
              r \in {r \in RetSpace : ClosedValue(r) /\ r.type.k # "unresolved"}}

(* ---- family "callable": kinds x generic attributes x renames *)
CallableCases(z) ==
    \* top-level functions: introspectable / deprecated / throws / inline / moved-to
    {<<[Fn("function", "f", "") EXCEPT !.intro = i, !.deprecated = d, !.throws = t, !.inline = inl, !.movedTo = mv, !.attrs = a,
                                        !.internalSkipped = (mv # "" /\ ~i)]>> : i \in B, d \in B, t \in B, inl \in B, mv \in {"", "Rec.f"}, a \in B}
    \* rename-to pairs: f (shadowed-by f_full), f_full (shadows f); the pass keeps them mutual (C05) -- and the shadower introspectable,
    \* unless the deviation
    \cup {<<[Fn("function", "f", "") EXCEPT !.shadowedBy = "f_full", !.intro = i1], [Fn("function", "f_full", "") EXCEPT !.shadows = "f", !.intro = i2]>> :
              i1 \in B, i2 \in {i \in B : i \/ Dev("shadower_hidden")}}
    \cup {<<[Cb("C") EXCEPT !.intro = i, !.deprecated = d, !.throws = t, !.attrs = a]>> : i \in B, d \in B, t \in B, a \in B}
    \* methods, constructors, static functions of a class / record / union / boxed / interface / enumeration
    \cup {<<[Cls("class", "K") EXCEPT !.methods = <<[Fn(tag, "m", "K") EXCEPT !.intro = i, !.deprecated = d, !.throws = t, !.inline = inl]>>, !.intro = ki]>> :
              tag \in {"method", "constructor", "function"}, i \in B, d \in B, t \in B, inl \in {FALSE}, ki \in B}
    \cup {<<[Cls("class", "K") EXCEPT !.methods = <<[Fn("method", "m", "K") EXCEPT !.inline = TRUE]>>]>>}
    \cup {<<[Rec(tag, "R") EXCEPT !.methods = <<[Fn(mt, "m", "R") EXCEPT !.intro = i]>>, !.intro = ri]>> :
              tag \in {"record", "union"}, mt \in {"method", "constructor", "function"}, i \in B, ri \in B}
    \cup {<<[Bxd("Bx") EXCEPT !.methods = <<[Fn(mt, "m", "Bx") EXCEPT !.intro = i]>>]>> : mt \in {"method", "constructor", "function"}, i \in B}
    \cup {<<[Cls("interface", "I") EXCEPT !.methods = <<[Fn(mt, "m", "I") EXCEPT !.intro = i]>>]>> : mt \in {"method", "function"}, i \in B}
    \cup {<<[Enm(tag, "E") EXCEPT !.methods = <<[Fn("function", "m", "E") EXCEPT !.intro = i]>>, !.members = <<Mem("a", "0")>>]>> :
              tag \in {"enumeration", "bitfield"}, i \in B}
    \* instance parameter transfer
    \cup {<<[Cls("class", "K") EXCEPT !.methods = <<[Fn("method", "m", "K") EXCEPT !.inst.transfer = t]>>]>> : t \in {"none", "full"}}

(* ---- family "members": a class whose members name each other; any of them may be hidden *)
\* the passes drop or hide a reference to a member that is not introspectable -- unless the deviation
Target(name, targetIntro) == IF targetIntro \/ Dev("hidden_target") THEN name ELSE ""
MemberCases(z) ==
    {<<[Cls("class", "K") EXCEPT
          !.methods = <<[Fn("method", "set_p", "K") EXCEPT !.intro = mi, !.setProp = Target("p", pi)],
                        [Fn("method", "get_p", "K") EXCEPT !.getProp = Target("p", pi)],
                        [Fn("method", "do_it", "K") EXCEPT !.intro = di]>>,
          !.vfuncs = <<[VF("do_it", "K") EXCEPT !.invoker = Target("do_it", di), !.intro = vi]>>,
          !.props = <<[Prop("p") EXCEPT !.intro = pi, !.setter = Target("set_p", mi), !.getter = "get_p", !.writable = TRUE]>>,
          !.signals = <<[Sig("changed") EXCEPT !.intro = si]>>,
          !.typeStruct = Target("KClass", ci)],
       [Rec("record", "KClass") EXCEPT !.gtypeStructFor = "K", !.intro = ci,
                                       !.fields = <<[CbFld("do_it", [Cb("do_it") EXCEPT !.intro = cbi]) EXCEPT !.intro = (cbi \/ Dev("callback_field")) /\ fi]>>]>> :
       mi \in B, pi \in B, di \in B, vi \in B, si \in (IF Full THEN B ELSE {TRUE}), ci \in B, cbi \in B, fi \in (IF Full THEN B ELSE {TRUE})}
    \* a class all of whose methods are hidden while a property still names one (get_index_of_member_type returns -1 only then)
    \cup {<<[Cls("class", "K") EXCEPT !.methods = <<[Fn("method", "set_p", "K") EXCEPT !.intro = FALSE]>>,
                                      !.props = <<[Prop("p") EXCEPT !.setter = Target("set_p", FALSE)]>>]>>}

(* ---- family "compound": fields, anonymous members, enumeration members *)
CompoundCases(z) ==
    {<<[Rec(tag, "R") EXCEPT !.fields = <<[Fld("a") EXCEPT !.intro = i, !.readable = r, !.writable = w, !.private = ~r, !.bits = b,
                                                     !.type = IF i THEN TNamed("gint") ELSE TUnres],
                                          Fld("z")>>, !.intro = ri]>> :
        tag \in {"record", "union"}, i \in B, r \in B, w \in B, b \in {0, 3}, ri \in B}
    \* anonymous members: every nesting of record / union in record / union (and in a class)
    \cup {<<[Rec(outer, "R") EXCEPT !.fields = <<Fld("a"), AnonFld(inner, [Rec(inner, "") EXCEPT !.fields = <<Fld("p"), Fld("q")>>]), Fld("z")>>]>> :
              outer \in {"record", "union"}, inner \in {"record", "union"}}
    \cup {<<[Cls("class", "K") EXCEPT !.fields = <<Fld("parent"), AnonFld(inner, [Rec(inner, "") EXCEPT !.fields = <<Fld("p")>>])>>]>> : inner \in {"record", "union"}}
    \* callback-typed fields
    \cup {<<[Rec("record", "R") EXCEPT !.fields = <<[CbFld("cb", [Cb("cb") EXCEPT !.intro = cbi]) EXCEPT !.intro = (cbi \/ Dev("callback_field")) /\ fi]>>]>> :
              cbi \in B, fi \in B}
    \cup {<<[Rec("union", "U") EXCEPT !.fields = <<CbFld("cb", Cb("cb")), Fld("z")>>]>>}
    \* enumerations: members (one of them possibly skipped), registration, error domain
    \cup {<<[Enm(tag, "E") EXCEPT !.members = <<[Mem("a", "0") EXCEPT !.deprecated = d], [Mem("b", v) EXCEPT !.intro = i], Mem("c", "2")>>,
                                  !.getType = gt, !.typeName = IF gt = "" THEN "" ELSE "FooE", !.errorDomain = ed, !.intro = ei, !.deprecated = d]>> :
              tag \in {"enumeration", "bitfield"}, v \in {"1", "-1"}, i \in B, d \in B, gt \in {"", "foo_e_get_type"}, ed \in {"", "foo-e-quark"}, ei \in B}

(* ---- family "types": names the compiler has to resolve, aliases, constants *)
\* a use site of an introspectable element only names what is introspectable or lives elsewhere (C05: closure);
\* anything goes in an element that is itself hidden
TypeSpace(intro) == {TNamed("gint"), TNamed("utf8"), TNamed("Rec"), TNamed("Al"), TNamed("Al2"), TNamed("GObject.Object"), TNamed("Cb"),
                     TArray(TNamed("guint8"), 1), TList(TNamed("Rec")), TMap(TNamed("utf8"), TNamed("Al"))}
                    \cup (IF intro THEN {} ELSE {TNamed("Hidden"), TNamed("AlHidden"), TUnres, TVarargs, TList(TNamed("Hidden"))})
\* aliases: of a basic type, of a local record, of another alias, of a hidden record (hidden itself), of an unresolved type (hidden itself)
Aliases == <<Ali("Al", TNamed("gint")), Ali("Al2", TNamed("Al")), Ali("AlRec", TNamed("Rec")), [Ali("AlHidden", TNamed("Hidden")) EXCEPT !.intro = FALSE],
             [Ali("AlUnres", TUnres) EXCEPT !.intro = FALSE], [Ali("AlAttr", TNamed("gint")) EXCEPT !.attrs = TRUE, !.doc = TRUE]>>
IntroType == {p \in B \X TypeSpace(FALSE) : p[2] \in TypeSpace(p[1])}
TypeCases(z) ==
    {Aliases \o <<[Fn("function", "f", "") EXCEPT !.intro = p[1], !.params = <<[V0 EXCEPT !.type = p[2]], [V0 EXCEPT !.name = "n"]>>,
                                                   !.ret.type = IF p[2].k = "varargs" THEN TNamed("gint") ELSE p[2], !.ret.transfer = "none"]>> :
        p \in IntroType}
    \cup {Aliases \o <<[Rec("record", "R") EXCEPT !.fields = <<[Fld("a") EXCEPT !.type = p[2], !.intro = p[1]]>>]>> :
              p \in {p \in IntroType : p[2].k # "varargs"}}
    \cup {Aliases \o <<[Cls("class", "K") EXCEPT !.props = <<[Prop("p") EXCEPT !.type = p[2], !.intro = p[1]]>>]>> :
              p \in {p \in IntroType : p[2].k # "varargs"}}
    \* constants: the type of a constant is analysed by no pass (deviation): it may be anything
    \cup {Aliases \o <<[Const("C", "5", p[2]) EXCEPT !.intro = p[1], !.deprecated = d]>> :
              d \in B, p \in {p \in B \X {TNamed("gint"), TNamed("utf8"), TNamed("Al"), TUnres} :
                                  p[2].k = "unresolved" => (~p[1] \/ Dev("constant_type"))}}

(* ---- family "flags": properties, signals, classes, interfaces *)
FlagCases(z) ==
    {<<[Cls(tag, "K") EXCEPT !.props = <<[Prop("p") EXCEPT !.readable = r, !.writable = w, !.construct = c, !.constructOnly = co, !.transfer = t,
                                                          !.deprecated = d, !.intro = i]>>]>> :
        tag \in (IF Full THEN {"class", "interface"} ELSE {"class"}), r \in B, w \in B, c \in B, co \in B,
        t \in (IF Full THEN {"none", "full", "container", ""} ELSE {"full", ""}), d \in B, i \in B}
    \cup {<<[Cls(tag, "K") EXCEPT !.signals = <<[Sig("s") EXCEPT !.when = w, !.noRecurse = nr, !.detailed = dt, !.action = a, !.noHooks = nh,
                                                                !.deprecated = d, !.intro = i, !.params = IF a THEN <<V0>> ELSE <<>>]>>]>> :
              tag \in (IF Full THEN {"class", "interface"} ELSE {"interface"}),
              w \in {"", "first", "last", "cleanup"} \cup (IF Dev("when_must_collect") THEN {"must-collect"} ELSE {}), nr \in B, dt \in B, a \in B,
              nh \in B, d \in (IF Full THEN B ELSE {TRUE}), i \in (IF Full THEN B ELSE {TRUE})}
    \cup {<<[Cls("class", "Base") EXCEPT !.intro = TRUE], [Cls("interface", "Ifc") EXCEPT !.intro = TRUE],
            [Cls("class", "K") EXCEPT !.parent = p, !.abstract = ab, !.final = fi, !.fundamental = fu, !.ifaces = ifs, !.deprecated = d, !.intro = i,
                                      !.typeStruct = ts],
            [Rec("record", "KClass") EXCEPT !.gtypeStructFor = "K"]>> :
              p \in {"", "GObject.Object", "Base"}, ab \in B, fi \in B, fu \in (IF Full THEN B ELSE {FALSE}), ifs \in {<<>>, <<"Ifc">>, <<"Gio.Iface", "Ifc">>},
              d \in (IF Full THEN B ELSE {TRUE}), i \in B, ts \in {"", "KClass"}}
    \cup {<<[Cls("interface", "Ifc") EXCEPT !.intro = TRUE],
            [Cls("interface", "I") EXCEPT !.ifaces = ifs, !.deprecated = d, !.intro = i, !.vfuncs = <<[VF("v", "I") EXCEPT !.throws = t]>>]>> :
              ifs \in {<<>>, <<"Ifc">>, <<"GObject.Object", "Ifc">>}, d \in B, i \in B, t \in B}
    \cup {<<[Rec(tag, "R") EXCEPT !.getType = gt, !.typeName = IF gt = "" THEN "" ELSE "FooR", !.deprecated = d, !.intro = i]>> :
              tag \in {"record", "union"}, gt \in {"", "foo_r_get_type"}, d \in B, i \in B}
    \cup {<<[Bxd("Bx") EXCEPT !.attrs = a]>> : a \in B}
    \cup {<<G0 @@ [tag |-> "function-macro", name |-> "M"], G0 @@ [tag |-> "docsection", name |-> "sec"], Fn("function", "f", "")>>}

\* (behind an operator with a dummy argument: TLC evaluates zero-arity constant-level definitions at start-up, once per worker)
CasesOf(f) == CASE f = "value" -> ValueCases(0) [] f = "callable" -> CallableCases(0) [] f = "members" -> MemberCases(0)
                [] f = "compound" -> CompoundCases(0) [] f = "types" -> TypeCases(0) [] f = "flags" -> FlagCases(0) [] OTHER -> {}

(* ================================================================================================ state machine *)
VARIABLES fam, doc, i, ctx, pc
vars == <<fam, doc, i, ctx, pc>>

\* the writer sorts aliases first (they are already first in the cases that have them)
DocOf(case) == WRepository(IF case # <<>> /\ case[1].tag = "alias" THEN case \o Ctx ELSE Ctx \o case)
Init == \E f \in Families : \E case \in CasesOf(f) :
            /\ fam = f
            /\ doc = DocOf(case)
            /\ LET fp == FirstPass(doc) IN ctx = InitCtx(fp.map, fp.err)
            /\ i = 1
            /\ pc = "parse"
Parse == /\ pc = "parse" /\ i <= Len(doc) /\ ctx.err = ""
         /\ ctx' = Step(ctx, doc[i])
         /\ i' = i + 1
         /\ UNCHANGED <<fam, doc, pc>>
Finish == /\ pc = "parse" /\ (i > Len(doc) \/ ctx.err # "")
          /\ pc' = "done"
          /\ UNCHANGED <<fam, doc, i, ctx>>
Next == Parse \/ Finish
Spec == Init /\ [][Next]_vars

(* the observations the model yields *)
DocG == [family |-> fam, ns |-> "Foo", version |-> "1.0"]
DocB == LET berr == IF ctx.err = "" THEN BuildErrors(ctx) ELSE {}
            bad == (IF ctx.err = "" THEN <<>> ELSE <<ctx.err>>) \o ctx.warns \o SetToSeq(berr)
            ok == ctx.err = "" /\ berr = {} IN
        [rc |-> IF ok THEN 0 ELSE 1, flagged |-> bad, produced |-> ok, decoded |-> ok, revalidated |-> IF ok THEN "ok" ELSE "not-run",
         ns |-> "Foo", version |-> "1.0"]
(* a failing clause is tolerated when it follows from recorded findings alone *)
Kn(d) == d \in Known
DocExcused ==
    /\ ctx.warns = <<>>
    /\ ctx.err \in {""} \cup (IF Kn("nested_same_kind") THEN {AbortSameState} ELSE {})
    /\ (ctx.err = "" => BuildErrorsNull(ctx) = {})
    /\ (ctx.err = "" => (BuildErrorsUnresolved(ctx) = {} \/ Kn("hidden_target")))
ElemExcused(c, g, b) ==
    \/ Kn("field_kept") /\ c = "Absent" /\ g.tag = "field"
    \/ Kn("member_kept") /\ c = "Absent" /\ g.tag = "member"
    \/ Kn("inout_allow_none") /\ c = "ParamOptional" /\ OnlyInoutAllowNone(g, b)
    \/ Kn("inout_caller_allocates") /\ c = "ParamCallerAllocates" /\ OnlyInoutCallerAllocates(g, b)
    \/ Kn("field_readable") /\ c = "FieldFlags" /\ g.fl.readable # "" /\ The(g, b).fl.writable = Writable(g.fl.writable)
    \/ Kn("silent_index") /\ c \in {"VFuncInvoker", "PropAccessors", "Accessor"} /\ TargetAbsent(g, b, c)
    \/ Kn("shadower_hidden") /\ c = "ShadowedServed"
    \/ Kn("when_must_collect") /\ c = "SignalWhen" /\ g.fl.when = "must-collect"
Inv_Doc == pc = "done" => ((\A c \in DocNames : DocClauses(DocG, DocB)[c]) \/ DocExcused)
Inv_Elem == (pc = "done" /\ DocB.rc = 0) =>
                \A g \in ElemsOf(doc) : LET b == Cands(ctx, g) cl == ElemClauses(g, b) IN \A c \in ElemNames : cl[c] \/ ElemExcused(c, g, b)
\* the parser model never ends anywhere but in STATE_END with an empty stack when it accepted the document
Inv_Balanced == (pc = "done" /\ ctx.err = "") => (ctx.st = "END" /\ ctx.stack = <<>> /\ ctx.typed = 0)
=============================================================================

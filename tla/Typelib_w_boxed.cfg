INIT Init
NEXT Next
CONSTANTS
  Dev = {"boxed_refused"}
  Kinds = {"api"}
  Strict = FALSE
  Full = FALSE
  MaxCnt = 1
INVARIANT InvApi
CHECK_DEADLOCK FALSE

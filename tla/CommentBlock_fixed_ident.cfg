SPECIFICATION Spec
CONSTANTS
  Forms <- AllForms
  Indents <- Ind012
  MaxIdAnns = 2
  MaxParams = 1
  MaxParamAnns = 0
  MaxPartLines = 1
  MaxDescLines = 1
  MaxParas = 1
  MaxTags = 1
  TagNames <- TagsR
  MaxTagAnns = 0
  MaxCont = 2
  MaxNoise = 0
  AtReturns = FALSE
  FaultKinds <- NoFaults
  MaxFaults = 0
  KeepLines = FALSE
  Known <- KnownNone
  StartLine = 10
CHECK_DEADLOCK FALSE
INVARIANT TypeOK
INVARIANT RoundTrip
INVARIANT WriterFix

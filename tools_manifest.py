#!/usr/bin/env python3
"""Regenerates MANIFEST.json from the table below (single source of truth for the interface)."""
import json, os
HERE = os.path.dirname(os.path.abspath(__file__))
props = [json.loads(l) for l in open(os.path.join(HERE, 'properties.jsonl'))]
CLAIMED = {
 'C17': dict(level='model_checking', design='DESIGN.md §4 C17, §10',
   text='TLC checks on tla/Repository.tla that the implementation-shaped layer of girepository.c (get_registered_status, find_namespace_version/latest with parse_version transcribed on characters, require_internal, register_internal, load_dependencies_recurse, g_irepository_load_typelib) satisfies the 23 named clauses of C17 (election, precedence of prepended directories, hit/conflict/not-found/refused, dependency closure, failed calls, reports) on universes of 3 namespaces x 4-9 version strings x 2-3 directories with mismatching copies, diamond/conflicting dependency graphs and unparseable names, histories of <=3 calls, with Known = {}; what-if switches (Dev) re-enable each of the four repaired deviations and TLC must then produce a counterexample. The same clauses judge traces of the REAL libgirepository (one fresh process per history, typelibs compiled by /repo g-ir-compiler): the what-if counterexamples, all 2-call histories over the exported call alphabet (quick: seeded sample), tlc -simulate behaviours of depth 12 and seeded random worlds of <=6 directories and <=30 calls, validated event by event by RepositoryTrace.tla (set of possible model states carried along; invariants OneVersionPerNs, DepsClosed in every state).',
   note='trusted: GLib declaration shim (cshim/), harness projection of paths and dependency strings, acyclic dependency relation over (namespace, version) (the C code recurses without bound on a cycle), files do not change during a history; behaviour beyond the statement (enumerate_versions listing the loaded version) is reported as a note, never as a verdict',
   technique='TLA+ model checking (TLC) + trace validation of the real library (one process per call history) against the property layer'),
 'C02': dict(level='model_checking', design='DESIGN.md §4 C02, §10',
   text='TLC checks on tla/Defaults.tla (DefaultsMC) that the transcribed type table / canonicalisation / c:type reconstruction / transfer, nullability and callback-role defaults imply the stated defaults for every spelling (base word x pointer depth 0-3 x const/volatile per level) in parameter, return, field and constant position and for every arrangement of <=5 parameters drawn from {callback, user_data, other gpointer, destroy notify, async-ready callback, int, GError**} x {function, method, callback typedef}; TLC exports those cases, the harness renders them (quick: seeded stratified sample, thorough: all, plus seeded random longer parameter lists) into un-annotated declarations, the real Transformer/MainTransformer/IntrospectablePass/GIRWriter scan them and TLC (DefaultsTrace.tla) judges the projected GIR clause by clause (TypeName, CTypeKept, StrvArray, Container, InNone, OutFull, RetBasicNone, RetConstNone, RetStringFull, PtrNullable, Throws, Closure, Destroy, NotifiedScope, AsyncScope, UserDataNullable).',
   note='trusted: symgen conventions of harness/scan.py (the yacc C parser cannot be built here), synthetic GLib/GObject/Gio dependency GIRs, c:type compared as (base words, depth, qualifier set per level); out/inout defaults are reached through one bare direction annotation',
   technique='TLA+ model checking (TLC) of the transcribed default rules + TLC-judged replay of the enumerated declarations through the real scanner'),
 'C18': dict(level='model_checking', design='DESIGN.md §4 C18',
   text='TLC explores every interleaving of the file-system primitives of 2-3 scanner processes (load/parse/store/purge), crash points, source edits, rename vs cross-device copy and fine vs coarse clocks on tla/Cache.tla and checks NoStale (modulo the recorded root causes), NoTorn, NoCrossVersion, PurgeEffective; the same actions are bound to the real CacheStore/Transformer._parse_include by executing TLC counterexamples, TLC-simulated behaviours and random schedules under a deterministic scheduler and validating every recorded trace with TLC (CacheTrace.tla: implementation layer + property layer in every state; CacheProp.tla: API level).',
   note='trusted: step-wise re-implementation of shutil.move in the harness, fake GIRParser (cache payload is opaque), one entry, atomic stamp-file replacement; bounds: <=3 processes, <=2 edits exhaustively, more by simulation',
   technique='TLA+ model checking (TLC) + trace validation of the real code under a controlled scheduler'),
 'C13': dict(level='model_checking', design='DESIGN.md §4 C13',
   text='TLC checks on tla/EnumConst.tla that the transcribed prefix fold of _enum_common_prefix / the unsigned wrap of _create_const imply the stated naming and value rules for every enumeration of <=3 members x <=3 words and 18 integer types x 37 boundary values (limb arithmetic); TLC exports those cases, the harness renders them (plus seeded random enumerations up to 6 members and 64-bit constants, string/boolean constants, aliases) into raw symbols, the real Transformer/MainTransformer/GIRWriter scan them and TLC (EnumConstTrace.tla) judges the projected GIR clause by clause.',
   note='trusted: symgen conventions of harness/scan.py (the yacc C parser cannot be built here), 7-word vocabulary for member names, decimal<->limb conversion in the harness',
   technique='TLA+ model checking (TLC) of the transcribed rules + TLC-judged replay of the enumerated cases through the real scanner'),
 'C03': dict(level='model_checking', design='DESIGN.md §4 C03',
   text='TLC checks on tla/Identify.tla the rename-to pass as a state machine over all 6 walk orders x 125 annotation assignments of three functions (Mutual, Honoured) and the documentation source of virtual methods (own block vs invoker); TLC exports all 750 rename cases, the harness renders them and generated namespaces containing every element kind (class/property/signal/vfunc/method/record/field/union/enum/member/constant/alias/callback/function, prefix-related names, blocks with unique payloads, blocks naming nonexistent identifiers), the real scanner pipeline runs on them, and TLC (IdentifyTrace.tla) judges for every element that its doc/Since/Deprecated/Stability/attributes/skip/target attributes are exactly those of the block carrying its identifier.',
   note='trusted: symgen + gdump XML stand-ins (harness/scan.py); one namespace shape; constructor/method role annotations are left to C04',
   technique='TLA+ model checking (TLC) of the annotation passes + TLC-judged replay of exported cases through the real scanner'),
 'C14': dict(level='model_checking', design='DESIGN.md §4 C14',
   text='TLC quantifies over every perfect hash (injective onto 0..n-1 on the names, ARBITRARY elsewhere), every pack order and every probe of tla/DirIndex.tla (n<=4 quick, <=5 thorough, 2 absent probes) and checks indexed lookup = linear fallback = truth, that the key scans and repository passes agree, that the no-strcmp and no-clamp what-ifs fail, and the index-section size arithmetic with C variable widths over n in 1..65535; the same clauses judge (DirIndexTrace.tla) the real g_typelib_get_dir_entry_by_name (with the index and with the section table unreachable), _by_gtype_name, _by_error_domain and g_irepository_find_by_* on typelibs compiled by /repo g-ir-compiler from generated name sets of 1..65535 entries (short/long/near-colliding/prefix-related names, 2n absent probes) and on the system typelibs.',
   note='trusted: GLib declaration shim (cshim/), directory order = GIR document order (verified per case for n<=5000), dummy GTypes registered under probed names, integer model of bdz ceil(1.23 m/3); large n sampled in quick (600 members + 1200 absent per key kind)',
   technique='TLA+ model checking (TLC) with quantification over the hash function + TLC-judged observations of the real lookup functions'),
}
checks = []
for pid, c in sorted(CLAIMED.items()):
    checks.append(dict(property_id=pid, quick_cmd='./check %s --tier quick' % pid, thorough_cmd='./check %s --tier thorough' % pid,
        evidence_file='/verif/evidence/%s.json' % pid, replay_cmd_template='./check %s --replay {path}' % pid,
        engine='tlc', level_claimed=dict(category=c['level'], text=c['text'], design_ref=c['design']),
        level_note=c['note'], technique=c['technique']))
na = [dict(property_id=p['id'], reason='check not built yet in this round (planned, see DESIGN.md §4); not claimed until its TLA+ module and binding exist')
      for p in props if p['id'] not in CLAIMED]
m = dict(version=1,
  setup_cmd='mkdir -p evidence out && /venv/bin/python -m compileall -q harness >/dev/null; cd tla && for f in *.tla; do tla-sany "$f" >/dev/null || echo "WARN: $f does not parse"; done; true',
  hooks=dict(guard='GI_VERIF_HOOKS', enable='no source hooks: checks interpose on module namespaces from the harness (harness/sched.py); nothing to enable in /repo',
             baseline_off_cmd='cd /repo && /venv/bin/python -m pytest -ra -q -p no:cacheprovider --timeout=900 --continue-on-collection-errors',
             source_commits=[], add_only=True),
  engines=[dict(name='tlc', path='/usr/local/bin/tlc', serves_properties=sorted(CLAIMED), kind_free_text='TLA+ explicit-state model checker (TLC 1.8) for model checking and trace validation')],
  checks=checks, not_applicable=na,
  notes='Verdicts are formed by TLC only. known_findings.json lists genuine defects recorded (status known) or repaired (status fixed, fix: commits in /repo).')
json.dump(m, open(os.path.join(HERE, 'MANIFEST.json'), 'w'), indent=1)
print('claimed', sorted(CLAIMED), 'n/a', len(na))

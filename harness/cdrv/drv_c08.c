/* drv_c08 — reads the layout data of a typelib through the public repository API (property C08).
 *
 * usage: drv_c08 <file.typelib> [<info name>]
 * Loads the typelib into the default repository and walks every info of its namespace (only the
 * named one when a name is given; every line is flushed so that a crash loses nothing):
 *
 *   S <name> <g_struct_info_get_size> <g_struct_info_get_alignment> <n_fields> {<field name> <g_field_info_get_offset>}
 *   U <name> <g_union_info_get_size>  <g_union_info_get_alignment>  <n_fields> {<field name> <g_field_info_get_offset>}
 *   E <name> <g_enum_info_get_storage_type>          (enumerations and flags)
 *   X <n infos>                                       (last line: the walk completed)
 *
 * TAB separated, one line per info, nothing is interpreted here.
 */
#include <stdio.h>
#include <stdlib.h>
#include <string.h>
#include <glib.h>
#include "girepository.h"

int
main (int argc, char **argv)
{
  gchar *contents = NULL;
  gsize len = 0;
  GError *err = NULL;
  GITypelib *tl;
  const char *ns;
  const char *only = NULL;
  gint n, i, j;

  if (argc == 3)
    only = argv[2];
  if (argc != 2 && argc != 3)
    {
      fprintf (stderr, "usage: drv_c08 <typelib>\n");
      return 2;
    }
  if (!g_file_get_contents (argv[1], &contents, &len, &err))
    {
      fprintf (stderr, "drv_c08: cannot read %s: %s\n", argv[1], err->message);
      return 3;
    }
  tl = g_typelib_new_from_memory ((guint8 *) contents, len, &err);
  if (tl == NULL)
    {
      fprintf (stderr, "drv_c08: g_typelib_new_from_memory: %s\n", err ? err->message : "?");
      return 3;
    }
  ns = g_irepository_load_typelib (NULL, tl, 0, &err);
  if (ns == NULL)
    {
      fprintf (stderr, "drv_c08: g_irepository_load_typelib: %s\n", err ? err->message : "?");
      return 3;
    }
  n = g_irepository_get_n_infos (NULL, ns);
  for (i = 0; i < n; i++)
    {
      GIBaseInfo *info = g_irepository_get_info (NULL, ns, i);
      GIInfoType t = g_base_info_get_type (info);
      if (only != NULL && strcmp (g_base_info_get_name (info), only) != 0)
        {
          g_base_info_unref (info);
          continue;
        }
      if (t == GI_INFO_TYPE_STRUCT)
        {
          gint nf = g_struct_info_get_n_fields ((GIStructInfo *) info);
          printf ("S\t%s\t%lu\t%lu\t%d", g_base_info_get_name (info),
                  (unsigned long) g_struct_info_get_size ((GIStructInfo *) info),
                  (unsigned long) g_struct_info_get_alignment ((GIStructInfo *) info), nf);
          for (j = 0; j < nf; j++)
            {
              GIFieldInfo *f = g_struct_info_get_field ((GIStructInfo *) info, j);
              printf ("\t%s\t%d", g_base_info_get_name ((GIBaseInfo *) f), g_field_info_get_offset (f));
              g_base_info_unref ((GIBaseInfo *) f);
            }
          putchar ('\n');
          fflush (stdout);
        }
      else if (t == GI_INFO_TYPE_UNION)
        {
          gint nf = g_union_info_get_n_fields ((GIUnionInfo *) info);
          printf ("U\t%s\t%lu\t%lu\t%d", g_base_info_get_name (info),
                  (unsigned long) g_union_info_get_size ((GIUnionInfo *) info),
                  (unsigned long) g_union_info_get_alignment ((GIUnionInfo *) info), nf);
          for (j = 0; j < nf; j++)
            {
              GIFieldInfo *f = g_union_info_get_field ((GIUnionInfo *) info, j);
              printf ("\t%s\t%d", g_base_info_get_name ((GIBaseInfo *) f), g_field_info_get_offset (f));
              g_base_info_unref ((GIBaseInfo *) f);
            }
          putchar ('\n');
          fflush (stdout);
        }
      else if (t == GI_INFO_TYPE_ENUM || t == GI_INFO_TYPE_FLAGS)
        {
          printf ("E\t%s\t%d\n", g_base_info_get_name (info), (int) g_enum_info_get_storage_type ((GIEnumInfo *) info));
        }
      g_base_info_unref (info);
    }
  printf ("X\t%d\n", n);
  fflush (stdout);
  return 0;
}

/* C14 driver: the typelib hash builder of REPO driven directly (girepository/gthash.c).
 *
 *   drv_hash <namesfile> [<probefile>]
 *
 * namesfile: one string per line; line i (from 0) is added with value i, as
 *            girmodule.c:add_directory_index_section does.
 * output:  S \t n \t buildable \t packed_size \t dirmap_offset \t member_mismatches
 *            packed_size   = _gi_typelib_hash_builder_get_buffer_size() (guint32, NOT narrowed)
 *            dirmap_offset = first guint32 of the packed buffer
 *            member_mismatches = members whose _gi_typelib_hash_search() is not their value
 *          Q \t id \t value     per line "id \t string" of probefile: raw _gi_typelib_hash_search()
 * The buffer handed to _pack is sized with 32-bit arithmetic (what a correct caller does), so
 * this shows the builder itself for entry counts where the compiler's caller fails.
 */
#include <glib.h>
#include <stdio.h>
#include <stdlib.h>
#include <string.h>

#include "gitypelib-internal.h"

int
main (int argc, char **argv)
{
  GITypelibHashBuilder *b;
  FILE *f;
  char *line = NULL;
  size_t cap = 0;
  ssize_t got;
  char **names = NULL;
  guint n = 0, alloc = 0, i, bad = 0;
  guint32 size, asize;
  guint8 *mem;

  if (argc < 2)
    return 2;
  f = fopen (argv[1], "r");
  if (!f)
    return 3;
  while ((got = getline (&line, &cap, f)) >= 0)
    {
      if (got > 0 && line[got - 1] == '\n')
        line[--got] = 0;
      if (n == alloc)
        {
          alloc = alloc ? alloc * 2 : 1024;
          names = realloc (names, alloc * sizeof (char *));
        }
      names[n++] = strdup (line);
    }
  fclose (f);

  b = _gi_typelib_hash_builder_new ();
  for (i = 0; i < n; i++)
    _gi_typelib_hash_builder_add_string (b, names[i], (guint16) i);
  if (!_gi_typelib_hash_builder_prepare (b))
    {
      printf ("S\t%u\t0\t0\t0\t0\n", n);
      return 0;
    }
  size = _gi_typelib_hash_builder_get_buffer_size (b);
  asize = (size + 3u) & ~3u;
  mem = g_malloc0 (asize + 16);
  _gi_typelib_hash_builder_pack (b, mem, asize);
  for (i = 0; i < n; i++)
    if (_gi_typelib_hash_search (mem, names[i], n) != (guint16) i)
      bad++;
  printf ("S\t%u\t1\t%u\t%u\t%u\n", n, size, *(guint32 *) mem, bad);
  if (argc > 2)
    {
      f = fopen (argv[2], "r");
      if (!f)
        return 3;
      while ((got = getline (&line, &cap, f)) >= 0)
        {
          char *t;
          if (got > 0 && line[got - 1] == '\n')
            line[--got] = 0;
          t = strchr (line, '\t');
          if (!t)
            continue;
          *t = 0;
          printf ("Q\t%s\t%u\n", line, (guint) _gi_typelib_hash_search (mem, t + 1, n));
        }
      fclose (f);
    }
  _gi_typelib_hash_builder_destroy (b);
  return 0;
}

/* C14 driver: directory lookups of a compiled typelib, observed at the public/internal API of
 * libgirepository built from REPO.
 *
 *   drv_lookup walk  <typelib>              directory listing by an independent linear walk
 *   drv_lookup probe <typelib> <probefile>  one output line per probe
 *
 * probe file: lines  KIND \t ID \t STRING      KIND = N (entry name) | G (GType name) | E (error domain)
 * output:     lines  P \t ID \t fIdx \t fLin \t fRepo \t repoAsked
 *   fIdx   directory index (1-based, 0 = NULL) returned for the typelib AS COMPILED
 *            N: g_typelib_get_dir_entry_by_name   G: ..._by_gtype_name   E: ..._by_error_domain
 *   fLin   same call on a private copy of the bytes whose Header.sections is 0, so that
 *            get_section_by_id() returns NULL and by_name takes the linear fallback
 *   fRepo  g_irepository_find_by_name / find_by_gtype / find_by_error_domain on the default
 *            repository holding the typelib as compiled (info -> directory index through the blob
 *            offset); repoAsked = 0 when the string cannot be a GType name (no GType registered)
 *   -7 = the call faulted (read outside the typelib), -1 = pointer returned does not address a directory slot, -2 = info offset is no local entry,
 *   -3 (and repoAsked = 0) = the repository answered from another loaded namespace (dependencies of
 *   system typelibs are loaded from GI_TYPELIB_PATH)
 * GTypes are taken from g_type_from_name() or registered as dummy boxed types of that name.
 *
 * Every copy of the typelib is placed so that it ENDS at an inaccessible guard page: a read past the
 * end of the typelib (e.g. table[offset] with an unclamped offset) faults; the fault is caught per
 * lookup and reported as -7 for that result instead of going unnoticed.
 *
 * No GLib headers exist in the sandbox: declarations missing from the shim are written here.
 */
#include <glib.h>
#include <glib-object.h>
#include <stdio.h>
#include <stdlib.h>
#include <string.h>
#include <signal.h>
#include <setjmp.h>
#include <unistd.h>
#include <sys/mman.h>

#include "girepository.h"
#include "girepository-private.h"
#include "gitypelib-internal.h"

static long
entry_index (GITypelib *tl, DirEntry *e)
{
  Header *h = (Header *) tl->data;
  long d;
  if (e == NULL)
    return 0;
  d = (long) ((guint8 *) e - tl->data) - (long) h->directory;
  if (d < 0 || d % h->entry_blob_size != 0)
    return -1;
  d = d / h->entry_blob_size + 1;
  if (d > h->n_entries)
    return -1;
  return d;
}

static const char *
str_at (GITypelib *tl, guint32 off)
{
  if (off == 0 || off >= tl->len)
    return NULL;
  return (const char *) &tl->data[off];
}

static gboolean
is_registered_blob (guint16 t)
{
  return t == BLOB_TYPE_STRUCT || t == BLOB_TYPE_UNION || t == BLOB_TYPE_ENUM ||
         t == BLOB_TYPE_FLAGS || t == BLOB_TYPE_OBJECT || t == BLOB_TYPE_INTERFACE ||
         t == BLOB_TYPE_BOXED;
}

static GITypelib *
load_copy (const char *path, gboolean blank_sections)
{
  gchar *contents = NULL;
  gsize len = 0;
  GError *err = NULL;
  GITypelib *tl;

  if (!g_file_get_contents (path, &contents, &len, &err))
    {
      fprintf (stderr, "drv_lookup: cannot read %s: %s\n", path, err->message);
      exit (3);
    }
  {
    /* copy to the end of a private mapping followed by a PROT_NONE page */
    size_t page = (size_t) sysconf (_SC_PAGESIZE);
    size_t span = ((len + page - 1) / page) * page;
    guint8 *base = mmap (NULL, span + page, PROT_READ | PROT_WRITE, MAP_PRIVATE | MAP_ANONYMOUS, -1, 0);
    guint8 *at;
    if (base == MAP_FAILED || (len & 3) != 0)
      {
        fprintf (stderr, "drv_lookup: cannot map %lu bytes (length must be a multiple of 4)\n", (unsigned long) len);
        exit (3);
      }
    mprotect (base + span, page, PROT_NONE);
    at = base + span - len;
    memcpy (at, contents, len);
    g_free (contents);
    contents = (gchar *) at;
  }
  if (blank_sections)
    ((Header *) contents)->sections = 0;
  tl = g_typelib_new_from_memory ((guint8 *) contents, len, &err);
  if (tl == NULL)
    {
      fprintf (stderr, "drv_lookup: g_typelib_new_from_memory: %s\n", err ? err->message : "?");
      exit (3);
    }
  return tl;
}

static void
print_header (GITypelib *tl)
{
  Header *h = (Header *) tl->data;
  guint32 sec_off = 0, dirmap = 0;
  int has = 0;
  if (h->sections != 0)
    {
      Section *s;
      for (s = (Section *) &tl->data[h->sections]; s->id != GI_SECTION_END; s++)
        if (s->id == GI_SECTION_DIRECTORY_INDEX)
          {
            has = 1;
            sec_off = s->offset;
            dirmap = *(guint32 *) &tl->data[s->offset];
          }
    }
  printf ("H\t%u\t%u\t%d\t%u\t%u\t%lu\t%s\t%s\n", h->n_local_entries, h->n_entries, has, sec_off, dirmap,
          (unsigned long) tl->len, str_at (tl, h->namespace), str_at (tl, h->c_prefix) ? str_at (tl, h->c_prefix) : "");
}

static int
walk (const char *path)
{
  GITypelib *tl = load_copy (path, FALSE);
  Header *h = (Header *) tl->data;
  guint i;
  print_header (tl);
  for (i = 1; i <= h->n_local_entries; i++)
    {
      DirEntry *e = (DirEntry *) &tl->data[h->directory + (i - 1) * h->entry_blob_size];
      const char *gt = NULL, *dom = NULL;
      if (is_registered_blob (e->blob_type))
        gt = str_at (tl, ((RegisteredTypeBlob *) &tl->data[e->offset])->gtype_name);
      if (e->blob_type == BLOB_TYPE_ENUM)
        dom = str_at (tl, ((EnumBlob *) &tl->data[e->offset])->error_domain);
      printf ("D\t%u\t%u\t%s\t%s\t%s\n", i, e->blob_type, str_at (tl, e->name), gt ? gt : "", dom ? dom : "");
    }
  return 0;
}

static gboolean
valid_gtype_name (const char *s)
{
  size_t i, n = strlen (s);
  if (n < 3)
    return FALSE;
  if (!(g_ascii_isalpha (s[0]) || s[0] == '_'))
    return FALSE;
  for (i = 1; i < n; i++)
    if (!(g_ascii_isalnum (s[i]) || s[i] == '-' || s[i] == '_' || s[i] == '+'))
      return FALSE;
  return TRUE;
}

static gpointer dummy_copy (gpointer p) { return p; }
static void dummy_free (gpointer p) { }

static long
info_index (GHashTable *by_offset, GIBaseInfo *info, GITypelib *reg, int *asked)
{
  gpointer v;
  if (info == NULL)
    return 0;
  if (((GIRealInfo *) info)->typelib != reg)
    {
      /* answered from another loaded namespace (a dependency of a system typelib): not comparable */
      *asked = 0;
      return -3;
    }
  if (!g_hash_table_lookup_extended (by_offset, GUINT_TO_POINTER (((GIRealInfo *) info)->offset), NULL, &v))
    return -2;
  return (long) GPOINTER_TO_UINT (v);
}

static sigjmp_buf fault_jmp;
static volatile int fault_armed;

static void
on_fault (int sig)
{
  if (fault_armed)
    siglongjmp (fault_jmp, 1);
  _exit (128 + sig);
}

/* evaluate EXPR into VAR; a memory fault inside the library makes VAR = -7 */
#define GUARDED(var, expr) \
  do { fault_armed = 1; if (sigsetjmp (fault_jmp, 1) == 0) { var = (expr); } else { var = -7; } fault_armed = 0; } while (0)

static long
repo_by_name (GHashTable *by_offset, GITypelib *reg, const char *ns, const char *s, int *asked)
{
  GIBaseInfo *info = g_irepository_find_by_name (NULL, ns, s);
  long r = info_index (by_offset, info, reg, asked);
  if (info)
    g_base_info_unref (info);
  return r;
}

static long
repo_by_gtype (GHashTable *by_offset, GITypelib *reg, GType gt, int *asked)
{
  GIBaseInfo *info = g_irepository_find_by_gtype (NULL, gt);
  long r = info_index (by_offset, info, reg, asked);
  if (info)
    g_base_info_unref (info);
  return r;
}

static long
repo_by_domain (GHashTable *by_offset, GITypelib *reg, GQuark q, int *asked)
{
  GIBaseInfo *info = (GIBaseInfo *) g_irepository_find_by_error_domain (NULL, q);
  long r = info_index (by_offset, info, reg, asked);
  if (info)
    g_base_info_unref (info);
  return r;
}

static int
probe (const char *path, const char *probefile)
{
  GITypelib *tl = load_copy (path, FALSE);      /* as compiled */
  GITypelib *lin = load_copy (path, TRUE);      /* section table unreachable: linear fallback */
  GITypelib *reg = load_copy (path, FALSE);     /* owned by the repository */
  Header *h = (Header *) tl->data;
  GHashTable *by_offset = g_hash_table_new (NULL, NULL);
  GError *err = NULL;
  const char *ns;
  FILE *f;
  char *line = NULL;
  size_t cap = 0;
  ssize_t got;
  guint i;

  {
    struct sigaction sa;
    memset (&sa, 0, sizeof sa);
    sa.sa_handler = on_fault;
    sa.sa_flags = SA_NODEFER;
    sigaction (SIGSEGV, &sa, NULL);
    sigaction (SIGBUS, &sa, NULL);
  }
  print_header (tl);
  for (i = 1; i <= h->n_local_entries; i++)
    {
      DirEntry *e = (DirEntry *) &reg->data[h->directory + (i - 1) * h->entry_blob_size];
      g_hash_table_insert (by_offset, GUINT_TO_POINTER (e->offset), GUINT_TO_POINTER (i));
    }
  {
    /* history modes (DRV_LOOKUP_HISTORY): "pre" = every probe is asked at repository level ONCE
     * BEFORE the typelib is registered (fills the negative caches; answers not reported),
     * "lazy" = the typelib is registered with G_IREPOSITORY_LOAD_FLAG_LAZY; both can be given */
    const char *hist = getenv ("DRV_LOOKUP_HISTORY");
    if (hist && strstr (hist, "pre"))
      {
        FILE *pf = fopen (probefile, "r");
        char *pl = NULL;
        size_t pcap = 0;
        ssize_t pgot;
        const char *nsname = g_typelib_get_namespace (reg);
        while (pf && (pgot = getline (&pl, &pcap, pf)) >= 0)
          {
            char *t1, *ps;
            int dummy = 1;
            long ignored = 0;
            if (pgot > 0 && pl[pgot - 1] == '\n')
              pl[--pgot] = 0;
            if (pgot < 2 || !(t1 = strchr (pl + 2, '\t')))
              continue;
            ps = t1 + 1;
            if (pl[0] == 'G' && valid_gtype_name (ps))
              {
                GType gt = g_type_from_name (ps);
                if (gt == 0)
                  gt = g_boxed_type_register_static (ps, dummy_copy, dummy_free);
                if (gt != 0)
                  GUARDED (ignored, repo_by_gtype (by_offset, reg, gt, &dummy));
              }
            else if (pl[0] == 'E')
              GUARDED (ignored, repo_by_domain (by_offset, reg, g_quark_from_string (ps), &dummy));
            else if (pl[0] == 'N' && g_irepository_is_registered (NULL, nsname, NULL))
              GUARDED (ignored, repo_by_name (by_offset, reg, nsname, ps, &dummy));
            (void) ignored;
          }
        if (pf)
          fclose (pf);
        free (pl);
      }
    ns = g_irepository_load_typelib (NULL, reg, (hist && strstr (hist, "lazy")) ? G_IREPOSITORY_LOAD_FLAG_LAZY : 0, &err);
  }
  if (ns == NULL)
    {
      fprintf (stderr, "drv_lookup: g_irepository_load_typelib: %s\n", err ? err->message : "?");
      return 3;
    }
  f = fopen (probefile, "r");
  if (!f)
    {
      perror (probefile);
      return 3;
    }
  while ((got = getline (&line, &cap, f)) >= 0)
    {
      char kind, *id, *s, *t;
      long fidx = 0, flin = 0, frepo = 0;
      int asked = 1;
      if (got > 0 && line[got - 1] == '\n')
        line[--got] = 0;
      if (got < 2)
        continue;
      kind = line[0];
      id = line + 2;
      t = strchr (id, '\t');
      if (!t)
        continue;
      *t = 0;
      s = t + 1;
      if (kind == 'N')
        {
          GUARDED (fidx, entry_index (tl, g_typelib_get_dir_entry_by_name (tl, s)));
          GUARDED (flin, entry_index (lin, g_typelib_get_dir_entry_by_name (lin, s)));
          GUARDED (frepo, repo_by_name (by_offset, reg, ns, s, &asked));
        }
      else if (kind == 'G')
        {
          GUARDED (fidx, entry_index (tl, g_typelib_get_dir_entry_by_gtype_name (tl, s)));
          GUARDED (flin, entry_index (lin, g_typelib_get_dir_entry_by_gtype_name (lin, s)));
          if (valid_gtype_name (s))
            {
              GType gt = g_type_from_name (s);
              if (gt == 0)
                gt = g_boxed_type_register_static (s, dummy_copy, dummy_free);
              if (gt == 0)
                asked = 0;
              else
                GUARDED (frepo, repo_by_gtype (by_offset, reg, gt, &asked));
            }
          else
            asked = 0;
        }
      else if (kind == 'E')
        {
          GQuark q = g_quark_from_string (s);
          GUARDED (fidx, entry_index (tl, g_typelib_get_dir_entry_by_error_domain (tl, q)));
          GUARDED (flin, entry_index (lin, g_typelib_get_dir_entry_by_error_domain (lin, q)));
          GUARDED (frepo, repo_by_domain (by_offset, reg, q, &asked));
        }
      else
        continue;
      printf ("P\t%s\t%ld\t%ld\t%ld\t%d\n", id, fidx, flin, frepo, asked);
    }
  fclose (f);
  return 0;
}

int
main (int argc, char **argv)
{
  if (argc == 3 && strcmp (argv[1], "walk") == 0)
    return walk (argv[2]);
  if (argc == 4 && strcmp (argv[1], "probe") == 0)
    return probe (argv[2], argv[3]);
  fprintf (stderr, "usage: drv_lookup walk <typelib> | probe <typelib> <probefile>\n");
  return 2;
}

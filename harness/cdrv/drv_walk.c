/* drv_walk -- walks a namespace through the REAL repository API for property C09.
 *
 * usage: drv_walk <namespace> <version|-> <probes|-> [<index-file>]
 *   GI_TYPELIB_PATH (set by the harness) names the directory holding <namespace>-<version>.typelib and
 *   the typelibs of its dependencies.  <probes> = comma separated extra names asked for in every
 *   by-name lookup (attributes, find_method/find_vfunc/find_signal/find_field).  <index-file>: one
 *   0-based directory index per line; default = every index 0 .. g_irepository_get_n_infos()-1.
 *
 * stdout: one JSON line per directory entry (flushed, so that a crash loses only the entry at fault),
 * preceded by a header line.  Every info carries
 *   t   g_base_info_get_type            name g_base_info_get_name        dep g_base_info_is_deprecated
 *   off the blob offset the accessor resolved (GIRealInfo.offset; -1 for unresolved cross references)
 *   at  [[name, value]...] g_base_info_iterate_attributes
 *   ab  [[probe, found, value]...] g_base_info_get_attribute for every iterated name and every probe
 * and, per info type, the result of every accessor (counts + i-th member of every section, flags,
 * types recursively as a pre-order list, find_* by name).  64-bit enum values are printed as four
 * 16-bit limbs of the two's complement; constant values as the hex of the bytes of the GIArgument
 * member belonging to the type tag (numbers) or as string.
 */
#include <stdio.h>
#include <stdlib.h>
#include <string.h>
#include <glib.h>
#include "girepository.h"
#include "girepository-private.h"

static char **probes = NULL;
static int n_crit = 0;

static void
log_handler (const gchar *domain, GLogLevelFlags level, const gchar *message, gpointer data)
{
  if (level & (G_LOG_LEVEL_CRITICAL | G_LOG_LEVEL_WARNING))
    n_crit++;
  if (level & G_LOG_LEVEL_ERROR)
    {
      fprintf (stderr, "FATAL: %s\n", message);
      fflush (stderr);
    }
}

static void
jstr (const char *s)
{
  const unsigned char *p;
  if (s == NULL)
    {
      fputs ("\"\"", stdout);
      return;
    }
  putchar ('"');
  for (p = (const unsigned char *) s; *p; p++)
    {
      if (*p == '"' || *p == '\\')
        printf ("\\%c", *p);
      else if (*p < 0x20 || *p == 0x7f)
        printf ("\\u%04x", *p);
      else
        putchar (*p);
    }
  putchar ('"');
}

static int
off_of (GIBaseInfo *info)
{
  if (info == NULL || g_base_info_get_type (info) == GI_INFO_TYPE_UNRESOLVED)
    return -1;
  return (int) ((GIRealInfo *) info)->offset;
}

/* {"ns":..,"name":..,"t":..,"off":..} of an info reached through a directory index; ns "" name "" when NULL */
static void
ref_info (const char *key, GIBaseInfo *info)
{
  printf (",\"%s\":{\"ns\":", key);
  jstr (info ? g_base_info_get_namespace (info) : "");
  fputs (",\"name\":", stdout);
  jstr (info ? g_base_info_get_name (info) : "");
  printf (",\"t\":%d,\"off\":%d}", info ? (int) g_base_info_get_type (info) : -1, off_of (info));
}

typedef gboolean (*IterFn) (GIBaseInfo *, GIAttributeIter *, char **, char **);
typedef const gchar *(*GetFn) (GIBaseInfo *, const gchar *);

static void
attrs (GIBaseInfo *info, const char *k_iter, const char *k_name, IterFn iter, GetFn get)
{
  GIAttributeIter it = { 0, };
  char *n, *v;
  GPtrArray *names = g_ptr_array_new ();
  int first = 1, guard = 0;
  guint i;

  printf (",\"%s\":[", k_iter);
  while (iter (info, &it, &n, &v) && guard++ < 10000)
    {
      if (!first)
        putchar (',');
      first = 0;
      putchar ('[');
      jstr (n);
      putchar (',');
      jstr (v);
      putchar (']');
      g_ptr_array_add (names, n);
    }
  printf ("],\"%s\":[", k_name);
  for (i = 0; probes && probes[i]; i++)
    g_ptr_array_add (names, probes[i]);
  g_ptr_array_add (names, (gpointer) "zz.absent");
  for (i = 0; i < names->len; i++)
    {
      const char *r = get (info, names->pdata[i]);
      if (i)
        putchar (',');
      putchar ('[');
      jstr (names->pdata[i]);
      printf (",%d,", r != NULL);
      jstr (r);
      putchar (']');
    }
  putchar (']');
  g_ptr_array_free (names, TRUE);
}

static void
base (GIBaseInfo *info)
{
  printf ("\"t\":%d,\"name\":", (int) g_base_info_get_type (info));
  jstr (g_base_info_get_name (info));
  printf (",\"off\":%d,\"dep\":%d", off_of (info), g_base_info_is_deprecated (info) ? 1 : 0);
  attrs (info, "at", "ab", (IterFn) g_base_info_iterate_attributes, (GetFn) g_base_info_get_attribute);
}

static void callable (GICallableInfo *ci);

/* pre-order list of type nodes */
static void
type_nodes (GITypeInfo *ti, int *first, int depth)
{
  GITypeTag tag = g_type_info_get_tag (ti);
  int n = 0, k;
  int embedded = ((GIRealInfo *) ti)->type_is_embedded;

  if (tag == GI_TYPE_TAG_ARRAY || tag == GI_TYPE_TAG_GLIST || tag == GI_TYPE_TAG_GSLIST)
    n = 1;
  else if (tag == GI_TYPE_TAG_GHASH)
    n = 2;
  if (!*first)
    putchar (',');
  *first = 0;
  printf ("{\"tag\":%d,\"ptr\":%d,\"n\":%d,\"emb\":%d", (int) tag, g_type_info_is_pointer (ti) ? 1 : 0, n, embedded);
  if (tag == GI_TYPE_TAG_ARRAY)
    printf (",\"alen\":%d,\"asize\":%d,\"azt\":%d,\"aty\":%d", g_type_info_get_array_length (ti),
            g_type_info_get_array_fixed_size (ti), g_type_info_is_zero_terminated (ti) ? 1 : 0,
            (int) g_type_info_get_array_type (ti));
  else
    fputs (",\"alen\":-1,\"asize\":-1,\"azt\":0,\"aty\":-1", stdout);
  if (tag == GI_TYPE_TAG_INTERFACE && !embedded)
    {
      GIBaseInfo *iface = g_type_info_get_interface (ti);
      fputs (",\"ins\":", stdout);
      jstr (iface ? g_base_info_get_namespace (iface) : "");
      fputs (",\"iname\":", stdout);
      jstr (iface ? g_base_info_get_name (iface) : "");
      printf (",\"ity\":%d", iface ? (int) g_base_info_get_type (iface) : -1);
      if (iface)
        g_base_info_unref (iface);
    }
  else
    fputs (",\"ins\":\"\",\"iname\":\"\",\"ity\":-1", stdout);
  putchar ('}');
  if (depth > 12)
    return;
  for (k = 0; k < n; k++)
    {
      GITypeInfo *p = g_type_info_get_param_type (ti, k);
      if (p)
        {
          type_nodes (p, first, depth + 1);
          g_base_info_unref ((GIBaseInfo *) p);
        }
    }
}

static void
type_list (const char *key, GITypeInfo *ti)
{
  int first = 1;
  printf (",\"%s\":[", key);
  type_nodes (ti, &first, 0);
  putchar (']');
}

static void
arg (GIArgInfo *a)
{
  GITypeInfo *ti;
  putchar ('{');
  base ((GIBaseInfo *) a);
  printf (",\"dir\":%d,\"ca\":%d,\"opt\":%d,\"retval\":%d,\"null\":%d,\"skip\":%d,\"transfer\":%d,\"scope\":%d,\"closure\":%d,\"destroy\":%d",
          (int) g_arg_info_get_direction (a), g_arg_info_is_caller_allocates (a) ? 1 : 0, g_arg_info_is_optional (a) ? 1 : 0,
          g_arg_info_is_return_value (a) ? 1 : 0, g_arg_info_may_be_null (a) ? 1 : 0, g_arg_info_is_skip (a) ? 1 : 0,
          (int) g_arg_info_get_ownership_transfer (a), (int) g_arg_info_get_scope (a), g_arg_info_get_closure (a),
          g_arg_info_get_destroy (a));
  ti = g_arg_info_get_type (a);
  type_list ("type", ti);
  g_base_info_unref ((GIBaseInfo *) ti);
  putchar ('}');
}

static void
callable (GICallableInfo *ci)
{
  GITypeInfo *rt;
  int n, i;

  printf (",\"can_throw\":%d,\"is_method\":%d,\"owns\":%d,\"null\":%d,\"skipret\":%d,\"inst\":%d",
          g_callable_info_can_throw_gerror (ci) ? 1 : 0, g_callable_info_is_method (ci) ? 1 : 0,
          (int) g_callable_info_get_caller_owns (ci), g_callable_info_may_return_null (ci) ? 1 : 0,
          g_callable_info_skip_return (ci) ? 1 : 0, (int) g_callable_info_get_instance_ownership_transfer (ci));
  attrs ((GIBaseInfo *) ci, "rat", "rab", (IterFn) g_callable_info_iterate_return_attributes,
         (GetFn) g_callable_info_get_return_attribute);
  rt = g_callable_info_get_return_type (ci);
  printf (",\"rtoff\":%d", off_of ((GIBaseInfo *) rt));
  type_list ("rt", rt);
  g_base_info_unref ((GIBaseInfo *) rt);
  n = g_callable_info_get_n_args (ci);
  printf (",\"n_args\":%d,\"args\":[", n);
  for (i = 0; i < n; i++)
    {
      GIArgInfo *a = g_callable_info_get_arg (ci, i);
      if (i)
        putchar (',');
      arg (a);
      g_base_info_unref ((GIBaseInfo *) a);
    }
  putchar (']');
}

static void
function (GIFunctionInfo *f)
{
  GIFunctionInfoFlags fl = g_function_info_get_flags (f);
  GIBaseInfo *c = g_base_info_get_container ((GIBaseInfo *) f);
  putchar ('{');
  base ((GIBaseInfo *) f);
  printf (",\"flags\":%d,\"symbol\":", (int) fl);
  jstr (g_function_info_get_symbol (f));
  if ((fl & (GI_FUNCTION_IS_GETTER | GI_FUNCTION_IS_SETTER)) && c != NULL)
    {
      GIPropertyInfo *p = g_function_info_get_property (f);
      ref_info ("prop", (GIBaseInfo *) p);
      if (p)
        g_base_info_unref ((GIBaseInfo *) p);
    }
  else
    ref_info ("prop", NULL);
  callable ((GICallableInfo *) f);
  putchar ('}');
}

static void
callback (GICallbackInfo *cb)
{
  putchar ('{');
  base ((GIBaseInfo *) cb);
  callable ((GICallableInfo *) cb);
  putchar ('}');
}

static void
field (GIFieldInfo *f)
{
  GITypeInfo *ti;
  putchar ('{');
  base ((GIBaseInfo *) f);
  printf (",\"flags\":%d,\"bits\":%d,\"soff\":%d", (int) g_field_info_get_flags (f), g_field_info_get_size (f),
          g_field_info_get_offset (f));
  ti = g_field_info_get_type (f);
  printf (",\"emb\":%d", (int) ((GIRealInfo *) ti)->type_is_embedded);
  type_list ("type", ti);
  if (((GIRealInfo *) ti)->type_is_embedded)
    {
      GIBaseInfo *cb = g_type_info_get_interface (ti);
      fputs (",\"cb\":", stdout);
      callback ((GICallbackInfo *) cb);
      g_base_info_unref (cb);
    }
  g_base_info_unref ((GIBaseInfo *) ti);
  putchar ('}');
}

static void
property (GIPropertyInfo *p)
{
  GITypeInfo *ti;
  GIFunctionInfo *m;
  putchar ('{');
  base ((GIBaseInfo *) p);
  printf (",\"flags\":%d,\"transfer\":%d", (int) g_property_info_get_flags (p), (int) g_property_info_get_ownership_transfer (p));
  ti = g_property_info_get_type (p);
  type_list ("type", ti);
  g_base_info_unref ((GIBaseInfo *) ti);
  m = g_property_info_get_setter (p);
  ref_info ("setter", (GIBaseInfo *) m);
  if (m)
    g_base_info_unref ((GIBaseInfo *) m);
  m = g_property_info_get_getter (p);
  ref_info ("getter", (GIBaseInfo *) m);
  if (m)
    g_base_info_unref ((GIBaseInfo *) m);
  putchar ('}');
}

static void
signal_ (GISignalInfo *s)
{
  GIVFuncInfo *v;
  putchar ('{');
  base ((GIBaseInfo *) s);
  printf (",\"flags\":%d,\"tse\":%d", (int) g_signal_info_get_flags (s), g_signal_info_true_stops_emit (s) ? 1 : 0);
  v = g_signal_info_get_class_closure (s);
  ref_info ("cc", (GIBaseInfo *) v);
  if (v)
    g_base_info_unref ((GIBaseInfo *) v);
  callable ((GICallableInfo *) s);
  putchar ('}');
}

static void
vfunc (GIVFuncInfo *v)
{
  GIFunctionInfo *m;
  GISignalInfo *s;
  putchar ('{');
  base ((GIBaseInfo *) v);
  printf (",\"flags\":%d,\"soff\":%d", (int) g_vfunc_info_get_flags (v), g_vfunc_info_get_offset (v));
  m = g_vfunc_info_get_invoker (v);
  ref_info ("invoker", (GIBaseInfo *) m);
  if (m)
    g_base_info_unref ((GIBaseInfo *) m);
  s = g_vfunc_info_get_signal (v);
  ref_info ("signal", (GIBaseInfo *) s);
  if (s)
    g_base_info_unref ((GIBaseInfo *) s);
  callable ((GICallableInfo *) v);
  putchar ('}');
}

static void
hex (const void *p, int n)
{
  const unsigned char *b = p;
  int i;
  for (i = 0; i < n; i++)
    printf ("%02x", b[i]);
}

static void
constant (GIConstantInfo *c)
{
  GITypeInfo *ti;
  GIArgument v;
  GITypeTag tag;
  int size;
  putchar ('{');
  base ((GIBaseInfo *) c);
  ti = g_constant_info_get_type (c);
  type_list ("type", ti);
  tag = g_type_info_get_tag (ti);
  memset (&v, 0, sizeof v);
  size = g_constant_info_get_value (c, &v);
  printf (",\"size\":%d,\"vhex\":\"", size);
  switch (tag)
    {
    case GI_TYPE_TAG_BOOLEAN: hex (&v.v_boolean, 4); break;
    case GI_TYPE_TAG_INT8: hex (&v.v_int8, 1); break;
    case GI_TYPE_TAG_UINT8: hex (&v.v_uint8, 1); break;
    case GI_TYPE_TAG_INT16: hex (&v.v_int16, 2); break;
    case GI_TYPE_TAG_UINT16: hex (&v.v_uint16, 2); break;
    case GI_TYPE_TAG_INT32: hex (&v.v_int32, 4); break;
    case GI_TYPE_TAG_UINT32: hex (&v.v_uint32, 4); break;
    case GI_TYPE_TAG_UNICHAR: hex (&v.v_uint32, 4); break;
    case GI_TYPE_TAG_INT64: hex (&v.v_int64, 8); break;
    case GI_TYPE_TAG_UINT64: hex (&v.v_uint64, 8); break;
    case GI_TYPE_TAG_FLOAT: hex (&v.v_float, 4); break;
    case GI_TYPE_TAG_DOUBLE: hex (&v.v_double, 8); break;
    default: break;
    }
  fputs ("\",\"vstr\":", stdout);
  if ((tag == GI_TYPE_TAG_UTF8 || tag == GI_TYPE_TAG_FILENAME) && v.v_pointer != NULL)
    jstr ((const char *) v.v_pointer);
  else
    jstr ("");
  if (g_type_info_is_pointer (ti) && GI_TYPE_TAG_IS_BASIC (tag))
    g_constant_info_free_value (c, &v);
  g_base_info_unref ((GIBaseInfo *) ti);
  putchar ('}');
}

static void
value (GIValueInfo *v)
{
  guint64 x = (guint64) g_value_info_get_value (v);
  putchar ('{');
  base ((GIBaseInfo *) v);
  printf (",\"vl\":[%u,%u,%u,%u]}", (unsigned) (x & 0xffff), (unsigned) ((x >> 16) & 0xffff), (unsigned) ((x >> 32) & 0xffff),
          (unsigned) ((x >> 48) & 0xffff));
}

static void
regtype (GIBaseInfo *info)
{
  fputs (",\"tname\":", stdout);
  jstr (g_registered_type_info_get_type_name ((GIRegisteredTypeInfo *) info));
  fputs (",\"tinit\":", stdout);
  jstr (g_registered_type_info_get_type_init ((GIRegisteredTypeInfo *) info));
}

/* find_* probes: every member name of the section, the global probes, one absent name */
typedef GIBaseInfo *(*FindFn) (GIBaseInfo *, const gchar *);
static int find_first;

static void
find_one (const char *kind, GIBaseInfo *info, FindFn fn, const char *q)
{
  GIBaseInfo *r = fn (info, q);
  if (!find_first)
    putchar (',');
  find_first = 0;
  printf ("{\"k\":\"%s\",\"q\":", kind);
  jstr (q);
  printf (",\"off\":%d,\"name\":", off_of (r));
  jstr (r ? g_base_info_get_name (r) : "");
  putchar ('}');
  if (r)
    g_base_info_unref (r);
}

static void
find_all (const char *kind, GIBaseInfo *info, FindFn fn, GPtrArray *names)
{
  guint i;
  for (i = 0; i < names->len; i++)
    find_one (kind, info, fn, names->pdata[i]);
  for (i = 0; probes && probes[i]; i++)
    find_one (kind, info, fn, probes[i]);
  find_one (kind, info, fn, "zz_absent");
}

#define SECTION(key, count_expr, get_expr, printer, TYPE, names)                       \
  do {                                                                                  \
    int n_ = (count_expr), i_;                                                          \
    printf (",\"n_%s\":%d,\"%s\":[", key, n_, key);                                     \
    for (i_ = 0; i_ < n_; i_++)                                                         \
      {                                                                                 \
        TYPE *m_ = (TYPE *) (get_expr);                                                 \
        if (i_) putchar (',');                                                          \
        printer (m_);                                                                   \
        if (names) g_ptr_array_add (names, g_strdup (g_base_info_get_name ((GIBaseInfo *) m_))); \
        g_base_info_unref ((GIBaseInfo *) m_);                                          \
      }                                                                                 \
    putchar (']');                                                                      \
  } while (0)

static void
entry (GIBaseInfo *info)
{
  GIInfoType t = g_base_info_get_type (info);
  GPtrArray *mn = g_ptr_array_new_with_free_func (g_free), *vn = g_ptr_array_new_with_free_func (g_free),
            *sn = g_ptr_array_new_with_free_func (g_free), *fn = g_ptr_array_new_with_free_func (g_free);
  GPtrArray *none = NULL;

  switch (t)
    {
    case GI_INFO_TYPE_FUNCTION:
      fputs (",\"e\":", stdout);
      function ((GIFunctionInfo *) info);
      break;
    case GI_INFO_TYPE_CALLBACK:
      fputs (",\"e\":", stdout);
      callback ((GICallbackInfo *) info);
      break;
    case GI_INFO_TYPE_CONSTANT:
      fputs (",\"e\":", stdout);
      constant ((GIConstantInfo *) info);
      break;
    case GI_INFO_TYPE_STRUCT:
    case GI_INFO_TYPE_BOXED:
      {
        GIStructInfo *s = (GIStructInfo *) info;
        fputs (",\"e\":{", stdout);
        base (info);
        regtype (info);
        printf (",\"size\":%d,\"align\":%d,\"gts\":%d,\"foreign\":%d,\"copy\":", (int) g_struct_info_get_size (s),
                (int) g_struct_info_get_alignment (s), g_struct_info_is_gtype_struct (s) ? 1 : 0, g_struct_info_is_foreign (s) ? 1 : 0);
        jstr (g_struct_info_get_copy_function (s));
        fputs (",\"free\":", stdout);
        jstr (g_struct_info_get_free_function (s));
        SECTION ("fields", g_struct_info_get_n_fields (s), g_struct_info_get_field (s, i_), field, GIFieldInfo, fn);
        SECTION ("methods", g_struct_info_get_n_methods (s), g_struct_info_get_method (s, i_), function, GIFunctionInfo, mn);
        fputs (",\"find\":[", stdout);
        find_first = 1;
        find_all ("m", info, (FindFn) g_struct_info_find_method, mn);
        find_all ("f", info, (FindFn) g_struct_info_find_field, fn);
        fputs ("]}", stdout);
      }
      break;
    case GI_INFO_TYPE_UNION:
      {
        GIUnionInfo *u = (GIUnionInfo *) info;
        fputs (",\"e\":{", stdout);
        base (info);
        regtype (info);
        printf (",\"size\":%d,\"align\":%d,\"disc\":%d,\"doff\":%d,\"copy\":", (int) g_union_info_get_size (u),
                (int) g_union_info_get_alignment (u), g_union_info_is_discriminated (u) ? 1 : 0,
                g_union_info_get_discriminator_offset (u));
        jstr (g_union_info_get_copy_function (u));
        fputs (",\"free\":", stdout);
        jstr (g_union_info_get_free_function (u));
        SECTION ("fields", g_union_info_get_n_fields (u), g_union_info_get_field (u, i_), field, GIFieldInfo, none);
        SECTION ("methods", g_union_info_get_n_methods (u), g_union_info_get_method (u, i_), function, GIFunctionInfo, mn);
        fputs (",\"find\":[", stdout);
        find_first = 1;
        find_all ("m", info, (FindFn) g_union_info_find_method, mn);
        fputs ("]}", stdout);
      }
      break;
    case GI_INFO_TYPE_ENUM:
    case GI_INFO_TYPE_FLAGS:
      {
        GIEnumInfo *e = (GIEnumInfo *) info;
        fputs (",\"e\":{", stdout);
        base (info);
        regtype (info);
        printf (",\"storage\":%d,\"domain\":", (int) g_enum_info_get_storage_type (e));
        jstr (g_enum_info_get_error_domain (e));
        SECTION ("values", g_enum_info_get_n_values (e), g_enum_info_get_value (e, i_), value, GIValueInfo, none);
        SECTION ("methods", g_enum_info_get_n_methods (e), g_enum_info_get_method (e, i_), function, GIFunctionInfo, none);
        putchar ('}');
      }
      break;
    case GI_INFO_TYPE_OBJECT:
      {
        GIObjectInfo *o = (GIObjectInfo *) info;
        GIBaseInfo *r;
        int n, i;
        fputs (",\"e\":{", stdout);
        base (info);
        regtype (info);
        printf (",\"abstract\":%d,\"final\":%d,\"fund\":%d,\"ref\":", g_object_info_get_abstract (o) ? 1 : 0,
                g_object_info_get_final (o) ? 1 : 0, g_object_info_get_fundamental (o) ? 1 : 0);
        jstr (g_object_info_get_ref_function (o));
        fputs (",\"unref\":", stdout);
        jstr (g_object_info_get_unref_function (o));
        fputs (",\"setv\":", stdout);
        jstr (g_object_info_get_set_value_function (o));
        fputs (",\"getv\":", stdout);
        jstr (g_object_info_get_get_value_function (o));
        r = (GIBaseInfo *) g_object_info_get_parent (o);
        ref_info ("parent", r);
        if (r)
          g_base_info_unref (r);
        r = (GIBaseInfo *) g_object_info_get_class_struct (o);
        ref_info ("cstruct", r);
        if (r)
          g_base_info_unref (r);
        n = g_object_info_get_n_interfaces (o);
        printf (",\"n_ifs\":%d,\"ifs\":[", n);
        for (i = 0; i < n; i++)
          {
            r = (GIBaseInfo *) g_object_info_get_interface (o, i);
            if (i)
              putchar (',');
            fputs ("{\"x\":0", stdout);
            ref_info ("r", r);
            putchar ('}');
            if (r)
              g_base_info_unref (r);
          }
        putchar (']');
        SECTION ("fields", g_object_info_get_n_fields (o), g_object_info_get_field (o, i_), field, GIFieldInfo, none);
        SECTION ("properties", g_object_info_get_n_properties (o), g_object_info_get_property (o, i_), property, GIPropertyInfo, none);
        SECTION ("methods", g_object_info_get_n_methods (o), g_object_info_get_method (o, i_), function, GIFunctionInfo, mn);
        SECTION ("signals", g_object_info_get_n_signals (o), g_object_info_get_signal (o, i_), signal_, GISignalInfo, sn);
        SECTION ("vfuncs", g_object_info_get_n_vfuncs (o), g_object_info_get_vfunc (o, i_), vfunc, GIVFuncInfo, vn);
        SECTION ("constants", g_object_info_get_n_constants (o), g_object_info_get_constant (o, i_), constant, GIConstantInfo, none);
        fputs (",\"find\":[", stdout);
        find_first = 1;
        find_all ("m", info, (FindFn) g_object_info_find_method, mn);
        find_all ("s", info, (FindFn) g_object_info_find_signal, sn);
        find_all ("v", info, (FindFn) g_object_info_find_vfunc, vn);
        fputs ("]}", stdout);
      }
      break;
    case GI_INFO_TYPE_INTERFACE:
      {
        GIInterfaceInfo *o = (GIInterfaceInfo *) info;
        GIBaseInfo *r;
        int n, i;
        fputs (",\"e\":{", stdout);
        base (info);
        regtype (info);
        r = (GIBaseInfo *) g_interface_info_get_iface_struct (o);
        ref_info ("cstruct", r);
        if (r)
          g_base_info_unref (r);
        n = g_interface_info_get_n_prerequisites (o);
        printf (",\"n_ifs\":%d,\"ifs\":[", n);
        for (i = 0; i < n; i++)
          {
            r = g_interface_info_get_prerequisite (o, i);
            if (i)
              putchar (',');
            fputs ("{\"x\":0", stdout);
            ref_info ("r", r);
            putchar ('}');
            if (r)
              g_base_info_unref (r);
          }
        putchar (']');
        SECTION ("properties", g_interface_info_get_n_properties (o), g_interface_info_get_property (o, i_), property, GIPropertyInfo, none);
        SECTION ("methods", g_interface_info_get_n_methods (o), g_interface_info_get_method (o, i_), function, GIFunctionInfo, mn);
        SECTION ("signals", g_interface_info_get_n_signals (o), g_interface_info_get_signal (o, i_), signal_, GISignalInfo, sn);
        SECTION ("vfuncs", g_interface_info_get_n_vfuncs (o), g_interface_info_get_vfunc (o, i_), vfunc, GIVFuncInfo, vn);
        SECTION ("constants", g_interface_info_get_n_constants (o), g_interface_info_get_constant (o, i_), constant, GIConstantInfo, none);
        fputs (",\"find\":[", stdout);
        find_first = 1;
        find_all ("m", info, (FindFn) g_interface_info_find_method, mn);
        find_all ("s", info, (FindFn) g_interface_info_find_signal, sn);
        find_all ("v", info, (FindFn) g_interface_info_find_vfunc, vn);
        fputs ("]}", stdout);
      }
      break;
    default:
      fputs (",\"e\":{", stdout);
      base (info);
      putchar ('}');
      break;
    }
  g_ptr_array_free (mn, TRUE);
  g_ptr_array_free (vn, TRUE);
  g_ptr_array_free (sn, TRUE);
  g_ptr_array_free (fn, TRUE);
}

int
main (int argc, char **argv)
{
  GError *err = NULL;
  GITypelib *tl;
  const char *ns, *ver;
  int n, i;
  char **deps;
  FILE *idx = NULL;

  if (argc < 4)
    {
      fprintf (stderr, "usage: drv_walk <namespace> <version|-> <probes|-> [<index-file>]\n");
      return 2;
    }
  g_log_set_default_handler (log_handler, NULL);
  ns = argv[1];
  ver = strcmp (argv[2], "-") ? argv[2] : NULL;
  if (strcmp (argv[3], "-"))
    probes = g_strsplit (argv[3], ",", 0);
  if (argc > 4 && !(idx = fopen (argv[4], "r")))
    {
      fprintf (stderr, "cannot read %s\n", argv[4]);
      return 2;
    }
  tl = g_irepository_require (NULL, ns, ver, 0, &err);
  if (!tl)
    {
      fprintf (stderr, "require %s failed: %s\n", ns, err ? err->message : "?");
      return 3;
    }
  n = g_irepository_get_n_infos (NULL, ns);
  printf ("{\"hdr\":1,\"ns\":");
  jstr (g_typelib_get_namespace (tl));
  printf (",\"n_infos\":%d,\"version\":", n);
  jstr (g_irepository_get_version (NULL, ns));
  fputs (",\"shlib\":", stdout);
  jstr (g_irepository_get_shared_library (NULL, ns));
  fputs (",\"cprefix\":", stdout);
  jstr (g_irepository_get_c_prefix (NULL, ns));
  fputs (",\"deps\":[", stdout);
  deps = g_irepository_get_immediate_dependencies (NULL, ns);
  for (i = 0; deps && deps[i]; i++)
    {
      if (i)
        putchar (',');
      jstr (deps[i]);
    }
  fputs ("]}\n", stdout);
  fflush (stdout);

  for (i = 0;; i++)
    {
      GIBaseInfo *info;
      int k = i;
      if (idx)
        {
          if (fscanf (idx, "%d", &k) != 1)
            break;
        }
      else if (i >= n)
        break;
      n_crit = 0;
      info = g_irepository_get_info (NULL, ns, k);
      printf ("{\"i\":%d", k);
      if (info == NULL)
        fputs (",\"e\":{\"t\":-1}", stdout);
      else
        {
          entry (info);
          g_base_info_unref (info);
        }
      printf (",\"crit\":%d}\n", n_crit);
      fflush (stdout);
    }
  return 0;
}

/* drv_c15_validate — re-validates typelib files with the library's own g_typelib_validate (property C15,
 * clause Validates: the compiler runs the same function before writing the file; this driver shows that the
 * FILE that was written validates as well).
 *
 * usage: drv_c15_validate <file.typelib>...
 * one line per file:  OK <file>   |   INVALID <file>: <message>   ; exit status 0 iff every file is OK.
 */
#include <stdio.h>
#include <stdlib.h>
#include <string.h>
#include <glib.h>
#include "girepository.h"
#include "gitypelib-internal.h"

int
main (int argc, char **argv)
{
  int i, bad = 0;

  for (i = 1; i < argc; i++)
    {
      gchar *contents = NULL;
      gsize len = 0;
      GError *err = NULL;
      GITypelib *tl;

      if (!g_file_get_contents (argv[i], &contents, &len, &err))
        {
          printf ("INVALID %s: cannot read: %s\n", argv[i], err->message);
          bad++;
          continue;
        }
      tl = g_typelib_new_from_memory ((guint8 *) contents, len, &err);
      if (tl == NULL)
        {
          printf ("INVALID %s: g_typelib_new_from_memory: %s\n", argv[i], err ? err->message : "?");
          bad++;
          continue;
        }
      if (!g_typelib_validate (tl, &err))
        {
          printf ("INVALID %s: %s\n", argv[i], err ? err->message : "?");
          bad++;
          continue;
        }
      printf ("OK %s\n", argv[i]);
    }
  fflush (stdout);
  return bad ? 1 : 0;
}

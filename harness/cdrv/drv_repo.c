/* drv_repo — scripted g_irepository_* calls for property C17.
 *
 * usage: drv_repo <script>
 * One call per script line (TAB separated); ONE fresh process per script because the typelib
 * search path and the default repository are process-global.  GI_TYPELIB_PATH is set by the
 * harness.  One JSON line per call on stdout (flushed, so that a crash loses nothing):
 *
 *   {"i":3,"op":"require","res":"ok"|"err"|"null", "dom":"g-irepository-error-quark","code":0,
 *    "ret":"VfA",            namespace of the GITypelib* / string handed back ("" if none)
 *    "ans":[...],            answer of a query, sorted where the API leaves the order open
 *    "crit":0,               number of g_critical/g_warning messages emitted during the call
 *    "snap":[{"ns":..,"ver":..,"path":..},...],  what the public API reports after the call:
 *                            get_loaded_namespaces (raw, duplicates kept, sorted), get_version,
 *                            get_typelib_path
 *    "spath":[...]}          g_irepository_get_search_path() after the call
 *
 * script lines:
 *   prepend <dir>
 *   require <ns> <ver|-> <flags>
 *   reqpriv <dir> <ns> <ver|-> <flags>
 *   loadmem <file> <flags>
 *   loaded | version <ns> | path <ns> | ideps <ns> | deps <ns> | enum <ns> | isreg <ns> <ver|->
 *
 * version/ideps/deps document "the namespace must have been loaded": they are only invoked when
 * g_irepository_is_registered() says so, otherwise the answer is res "notloaded".
 */
#include <stdio.h>
#include <stdlib.h>
#include <string.h>
#include <glib.h>
#include "girepository.h"

static int n_crit = 0;

static void
log_handler (const gchar *domain, GLogLevelFlags level, const gchar *message, gpointer data)
{
  if (level & (G_LOG_LEVEL_CRITICAL | G_LOG_LEVEL_WARNING))
    n_crit++;
  if (level & G_LOG_LEVEL_ERROR)
    {
      fprintf (stderr, "FATAL: %s\n", message);
      fflush (stderr);
    }
}

static void
put_str (const char *s)
{
  const unsigned char *p;
  if (s == NULL)
    {
      fputs ("\"\"", stdout);
      return;
    }
  putchar ('"');
  for (p = (const unsigned char *) s; *p; p++)
    {
      if (*p == '"' || *p == '\\')
        printf ("\\%c", *p);
      else if (*p < 0x20 || *p >= 0x7f)
        printf ("\\u%04x", *p);
      else
        putchar (*p);
    }
  putchar ('"');
}

static int
cmp_str (const void *a, const void *b)
{
  return strcmp (*(const char **) a, *(const char **) b);
}

static void
put_sorted (char **v, int n)
{
  int i;
  qsort (v, n, sizeof (char *), cmp_str);
  putchar ('[');
  for (i = 0; i < n; i++)
    {
      if (i)
        putchar (',');
      put_str (v[i]);
    }
  putchar (']');
}

static int
strv_len (char **v)
{
  int n = 0;
  while (v && v[n])
    n++;
  return n;
}

static void
put_snapshot (void)
{
  char **names = g_irepository_get_loaded_namespaces (NULL);
  int n = strv_len (names), i;
  GSList *l;

  qsort (names, n, sizeof (char *), cmp_str);
  fputs (",\"snap\":[", stdout);
  for (i = 0; i < n; i++)
    {
      const char *ver = NULL, *path;
      if (i)
        putchar (',');
      fputs ("{\"ns\":", stdout);
      put_str (names[i]);
      if (g_irepository_is_registered (NULL, names[i], NULL))
        ver = g_irepository_get_version (NULL, names[i]);
      fputs (",\"ver\":", stdout);
      put_str (ver ? ver : "?");
      path = g_irepository_get_typelib_path (NULL, names[i]);
      fputs (",\"path\":", stdout);
      put_str (path ? path : "?");
      putchar ('}');
    }
  fputs ("],\"spath\":[", stdout);
  for (l = g_irepository_get_search_path (), i = 0; l; l = l->next, i++)
    {
      if (i)
        putchar (',');
      put_str ((const char *) l->data);
    }
  putchar (']');
}

static const char *
opt (const char *s)
{
  return (s == NULL || strcmp (s, "-") == 0) ? NULL : s;
}

int
main (int argc, char **argv)
{
  FILE *f;
  char line[8192];
  int i = 0;

  if (argc < 2 || !(f = fopen (argv[1], "r")))
    {
      fprintf (stderr, "usage: drv_repo <script>\n");
      return 2;
    }
  g_log_set_default_handler (log_handler, NULL);

  while (fgets (line, sizeof line, f))
    {
      char *a[6] = { NULL, NULL, NULL, NULL, NULL, NULL };
      char *p = line;
      int na = 0;
      GError *err = NULL;
      const char *res = "ok", *ret = "";
      int have_ans = 0;

      line[strcspn (line, "\r\n")] = 0;
      if (!line[0] || line[0] == '#')
        continue;
      while (na < 6 && p)
        {
          a[na++] = p;
          p = strchr (p, '\t');
          if (p)
            *p++ = 0;
        }
      i++;
      n_crit = 0;
      printf ("{\"i\":%d,\"op\":", i);
      put_str (a[0]);

      if (!strcmp (a[0], "prepend") && na >= 2)
        {
          g_irepository_prepend_search_path (a[1]);
        }
      else if (!strcmp (a[0], "require") && na >= 4)
        {
          GITypelib *tl = g_irepository_require (NULL, a[1], opt (a[2]), atoi (a[3]), &err);
          if (tl)
            ret = g_typelib_get_namespace (tl);
          else
            res = err ? "err" : "null";
        }
      else if (!strcmp (a[0], "reqpriv") && na >= 5)
        {
          GITypelib *tl = g_irepository_require_private (NULL, a[1], a[2], opt (a[3]), atoi (a[4]), &err);
          if (tl)
            ret = g_typelib_get_namespace (tl);
          else
            res = err ? "err" : "null";
        }
      else if (!strcmp (a[0], "loadmem") && na >= 3)
        {
          gchar *buf = NULL;
          gsize len = 0;
          GITypelib *tl;
          if (!g_file_get_contents (a[1], &buf, &len, NULL))
            {
              fprintf (stderr, "cannot read %s\n", a[1]);
              return 2;
            }
          tl = g_typelib_new_from_memory ((guint8 *) buf, len, &err);
          if (!tl)
            {
              fprintf (stderr, "g_typelib_new_from_memory failed for %s\n", a[1]);
              return 2;
            }
          ret = g_irepository_load_typelib (NULL, tl, atoi (a[2]), &err);
          if (!ret)
            {
              ret = "";
              res = err ? "err" : "null";
            }
        }
      else if (!strcmp (a[0], "loaded"))
        {
          char **v = g_irepository_get_loaded_namespaces (NULL);
          fputs (",\"ans\":", stdout);
          put_sorted (v, strv_len (v));
          have_ans = 1;
        }
      else if (!strcmp (a[0], "version") && na >= 2)
        {
          if (!g_irepository_is_registered (NULL, a[1], NULL))
            res = "notloaded";
          else
            {
              ret = g_irepository_get_version (NULL, a[1]);
              if (!ret)
                {
                  ret = "";
                  res = "null";
                }
            }
        }
      else if (!strcmp (a[0], "path") && na >= 2)
        {
          ret = g_irepository_get_typelib_path (NULL, a[1]);
          if (!ret)
            {
              ret = "";
              res = "notloaded";
            }
        }
      else if ((!strcmp (a[0], "ideps") || !strcmp (a[0], "deps")) && na >= 2)
        {
          if (!g_irepository_is_registered (NULL, a[1], NULL))
            res = "notloaded";
          else
            {
              char **v = a[0][0] == 'i' ? g_irepository_get_immediate_dependencies (NULL, a[1])
                                        : g_irepository_get_dependencies (NULL, a[1]);
              if (!v)
                res = "null";
              else
                {
                  fputs (",\"ans\":", stdout);
                  put_sorted (v, strv_len (v));
                  have_ans = 1;
                }
            }
        }
      else if (!strcmp (a[0], "enum") && na >= 2)
        {
          GList *l = g_irepository_enumerate_versions (NULL, a[1]), *k;
          int n = g_list_length (l), j = 0;
          char **v = calloc (n + 1, sizeof (char *));
          for (k = l; k; k = k->next)
            v[j++] = k->data;
          fputs (",\"ans\":", stdout);
          put_sorted (v, n);
          have_ans = 1;
        }
      else if (!strcmp (a[0], "isreg") && na >= 3)
        {
          res = g_irepository_is_registered (NULL, a[1], opt (a[2])) ? "yes" : "no";
        }
      else
        {
          fprintf (stderr, "bad script line %d: %s\n", i, a[0]);
          return 2;
        }

      if (!have_ans)
        fputs (",\"ans\":[]", stdout);
      fputs (",\"res\":", stdout);
      put_str (res);
      fputs (",\"ret\":", stdout);
      put_str (ret);
      fputs (",\"dom\":", stdout);
      put_str (err ? g_quark_to_string (err->domain) : "");
      printf (",\"code\":%d,\"crit\":%d", err ? err->code : -1, n_crit);
      put_snapshot ();
      fputs ("}\n", stdout);
      fflush (stdout);
    }
  return 0;
}

/* C08: /repo's tools/compiler.c, unchanged, except that g_warning()/g_critical() are not made
 * fatal.  The real g-ir-compiler aborts (SIGTRAP) on the warnings giroffsets.c prints for members
 * it cannot size, so the "unknown layout" encoding (size -1, alignment -1, struct_offset 0xFFFF)
 * never reaches a file through it; this variant lets the same library code run to completion so
 * that what it RECORDS for such structures can be observed.  Compiled with -I$REPO/tools. */
#include <glib.h>
static GLogLevelFlags c08_keep_warnings_nonfatal (GLogLevelFlags mask) { return mask; }
#define g_log_set_always_fatal c08_keep_warnings_nonfatal
#include "compiler.c"

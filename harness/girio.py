"""C07 helper (tla/GirIO*.tla): everything that touches the REAL writer/reader pair.

* gen_namespace(rng, n) -- seeded random namespaces in C-declaration form (harness/scan.py symgen) plus
  GTK-Doc comment blocks and a GType dump: every node kind the writer knows (alias, function /
  function-inline / function-macro, callback, record / union incl. anonymous nested members, class,
  interface, bare boxed, enum / bitfield with members and static functions, constant, docsection),
  parameters and return values with every annotation, docs/attributes with text the comment parser can
  deliver.  The models are produced by the real scan pipeline, so reachability is given.
* walk(ns) / project(ns, table) -- dumb structural copy of an ast.Namespace into a flat list of
  records {p: path, k: kind, f: {field: [tag, text]}, pos: [..]}; WHICH fields are copied is read from the
  channel table exported by TLC (tla/GirIOCases.tla), so the field vocabulary lives in the spec only.
* cycle(...) -- W(m), R(W(m)), W(R(W(m))) with the real GIRWriter / GIRParser (also through
  scannermain.passthrough_gir / write_output --reparse-validate), observation for tla/GirIOTrace.tla.
* instantiate(case) -- one TLC-enumerated channel case as real giscanner.ast objects (S->C conformance).

No verdict is formed here.
"""
import hashlib, io, json, os, sys, tempfile

from . import scan as S
from .common import REPO

from giscanner import ast, message                      # noqa: E402  (after scan -> gistub.install())
from giscanner.girparser import GIRParser               # noqa: E402
from giscanner.girwriter import GIRWriter               # noqa: E402

HFILE = '/src/foo.h'
CFILE = '/src/foo.c'

# ------------------------------------------------------------------------------------------------
# text the comment parser can deliver (descriptions keep inner line breaks and indentation; XML
# specials, quotes, non-ASCII, astral, entity look-alikes, CDATA-end, tabs)
TEXTS = [
    'plain text',
    'two lines\nsecond line',
    'with <tags> & ampersands, "double" and \'single\' quotes',
    'code sample:\n|[\n  if (a < b && c > d)\n    printf ("%s\\n", x);\n]|\nafter',
    'non-ASCII: café ✓ – “quoted” 日本語 \U0001F600',
    'entity look-alikes &amp; &lt; &#10; &quot; ]]> <!-- c -->',
    'tab\there and   several   blanks',
    'para one\n\npara two\n\n\npara three',
    '0',
    '1',
    'x',
    'trailing colon: and (parens) and @at and %percent and #hash',
]
SHORT = ['1.0', '2.2', '0', '1', '3.14.1', 'x']


def pick_text(rng):
    return rng.choice(TEXTS)


def as_comment_text(t, indent=' * '):
    return t.replace('\n', '\n' + indent)


class Gen(object):
    """accumulates symbols / comments / dump records of one namespace"""

    def __init__(self, rng):
        self.rng = rng
        self.syms = []
        self.comments = []
        self.dump = []
        self.cline = 1

    def sym(self, s, header=True):
        s.line = len(self.syms) + 1
        s.source_filename = HFILE if header else CFILE
        self.syms.append(s)
        return s

    def block(self, ident, anns=(), params=(), desc=None, ret=None, tags=(), fname=CFILE):
        """params: [(name, annotation text, description)], ret: (annotation text, description),
        tags: [(Name, value, description)]"""
        lines = ['/**', ' * %s:%s' % (ident, (' ' + ' '.join(anns)) if anns else '')]
        for n, a, d in params:
            lines.append(' * @%s: %s%s' % (n, (a + ': ') if a else '', as_comment_text(d or '', ' *   ')))
        if desc:
            lines += [' *', ' * ' + as_comment_text(desc)]
        if ret is not None:
            a, d = ret
            lines += [' *', ' * Returns: %s%s' % ((a + ': ') if a else '', as_comment_text(d or '', ' *   '))]
        for name, val, d in tags:
            t = ' * %s:' % name
            if val:
                t += ' ' + val
            if d:
                t += (': ' if val else ' ') + as_comment_text(d, ' *   ')
            lines.append(t)
        lines.append(' */')
        text = '\n'.join(lines)
        self.comments.append((text, fname, self.cline))
        self.cline += len(lines) + 2

    def node_tags(self, p=0.35):
        """random Since / Deprecated / Stability tags"""
        rng = self.rng
        tags = []
        if rng.random() < p:
            tags.append(('Since', rng.choice(SHORT), pick_text(rng) if rng.random() < 0.3 else ''))
        if rng.random() < p:
            v = rng.choice(SHORT + [''])
            d = pick_text(rng) if (rng.random() < 0.6 or not v) else ''
            tags.append(('Deprecated', v, d))
        if rng.random() < p * 0.7:
            tags.append(('Stability', rng.choice(['Stable', 'Unstable', 'Private']), pick_text(rng) if rng.random() < 0.3 else ''))
        return tags

    def node_anns(self, p=0.25, skip=True):
        rng = self.rng
        a = []
        if rng.random() < p:
            a.append('(attributes %s)' % ' '.join('%s=%s' % (k, v) for k, v in
                                                  rng.sample([('k1', 'v1'), ('doc.x', 'a&b'), ('zeta', '"q"'), ('a.b.c', '<v>'), ('k5', 'é✓')],
                                                             rng.randint(1, 3))))
        if skip and rng.random() < p * 0.4:
            a.append('(skip)')
        return a

    def doc(self, p=0.6):
        return pick_text(self.rng) if self.rng.random() < p else None


# ------------------------------------------------------------------------------------------------
# parameter / return value pool: (C type, annotation choices applicable)
def _value_pool(i):
    return [
        ('int', ['', '(skip)']),
        ('const char *', ['', '(nullable)', '(allow-none)', '(type filename)', '(transfer none)', '(not nullable)']),
        ('char *', ['', '(transfer full)', '(nullable)', '(inout) (transfer full)', '(inout) (nullable)']),
        ('char **', ['(out)', '(out) (transfer full)', '(out) (optional)', '(out) (nullable)', '(out) (optional) (nullable)',
                     '(out) (allow-none)', '(array zero-terminated=1)', '(array zero-terminated=1) (transfer full)',
                     '(inout) (transfer full)', '(out) (not optional)', '(inout) (optional)']),
        ('int *', ['(out)', '(inout)', '(out caller-allocates)', '(out callee-allocates)', '(array fixed-size=3)', '(out) (skip)',
                   '(array zero-terminated=1)', '(array zero-terminated=0)', '(out) (array fixed-size=2) (caller-allocates)']),
        ('FooObj%d *' % i, ['', '(transfer full)', '(nullable)', '(transfer none) (nullable)']),
        ('FooObj%d **' % i, ['(out)', '(out) (transfer full) (optional)', '(out) (transfer none) (nullable)']),
        ('FooRec%d *' % i, ['', '(out caller-allocates)', '(transfer full)', '(nullable)']),
        ('FooEnum%d' % i, ['']), ('FooFlags%d' % i, ['']), ('FooUni%d *' % i, ['']), ('FooAlias%d' % i, ['']),
        ('GList *', ['(element-type utf8)', '(element-type GStrv) (transfer full)', '(element-type FooObj%d) (transfer container)' % i, '(element-type gint) (transfer full)', '',
                     '(element-type filename) (transfer full) (nullable)']),
        ('GSList *', ['(element-type utf8) (transfer none)', '']),
        ('GHashTable *', ['(element-type utf8 utf8)', '(element-type utf8 GStrv) (transfer full)', '(element-type GStrv gint)', '(element-type utf8 FooObj%d) (transfer container)' % i, '',
                          '(element-type gint GLib.List(utf8)) (transfer full)']),
        ('GPtrArray *', ['(element-type utf8)', '(element-type FooObj%d) (transfer full)' % i, '']),
        ('GArray *', ['(element-type gint)', '(element-type guint8) (transfer full)', '']),
        ('GByteArray *', ['', '(transfer full)']),
        ('gpointer', ['', '(nullable)', '(type FooObj%d)' % i]),
        ('double', ['']), ('gboolean', ['']), ('guint64', ['']), ('gsize', ['']), ('GType', ['']), ('gunichar', ['']),
        ('const guint8 *', ['(array zero-terminated=0)', '']),
        ('BarUnknown *', ['', '(skip)']),
        ('va_list', ['']), ('long double', ['']),
        ('GObject *', ['', '(transfer full)']), ('GValue *', ['', '(out caller-allocates)']),
        ('GError **', ['(out) (optional)', '']),
    ]


def gen_callable(g, i, name, kind='function', self_type=None, n_params=None, inline=False, anns=(), header=True,
                 in_class=None, force_doc=None):
    """kind: function | callback.  Returns the symbol name."""
    rng = g.rng
    pool = _value_pool(i)
    params, pblocks = [], []
    if self_type:
        params.append((self_type, 'self'))
        if rng.random() < 0.5:
            pblocks.append(('self', rng.choice(['', '(transfer none)', '(not nullable)']), g.doc() or 'the instance'))
    n = rng.randint(0, 4) if n_params is None else n_params
    shape = rng.random()
    k = 0
    while k < n:
        pn = 'p%d' % k
        if shape < 0.12 and k + 1 < n + 1:
            # array + length pair
            params.append(('int *', pn))
            params.append(('gsize' if rng.random() < 0.5 else 'int', 'n_' + pn))
            a = '(array length=n_%s)' % pn
            a += rng.choice(['', ' (transfer full)', ' (nullable)', ' (zero-terminated=1)' if False else ''])
            if rng.random() < 0.3:
                a = '(out) (array length=n_%s) (transfer full)' % pn
                params[-2] = ('int **', pn)
                params[-1] = ('gsize *', 'n_' + pn)
                pblocks.append((pn, a, g.doc() or ''))
                pblocks.append(('n_' + pn, '(out)', g.doc() or ''))
            else:
                pblocks.append((pn, a, g.doc() or ''))
            k += 2
            shape = 1
            continue
        if shape < 0.24 and shape >= 0.12:
            # callback + user data + destroy
            params.append(('FooCb%d' % i, pn))
            variant = rng.randrange(5)
            if variant == 0:
                params.append(('gpointer', 'user_data'))
                pblocks.append((pn, rng.choice(['(scope call)', '(scope async)', '(scope forever)', '']), g.doc() or ''))
            elif variant == 1:
                params.append(('gpointer', 'user_data'))
                params.append(('GDestroyNotify', 'notify'))
                pblocks.append((pn, rng.choice(['', '(scope notified)', '(nullable)']), g.doc() or ''))
            elif variant == 2:
                params.append(('gpointer', 'data%d' % k))
                params.append(('GDestroyNotify', 'dn%d' % k))
                pblocks.append((pn, '(scope notified) (closure data%d) (destroy dn%d)' % (k, k), g.doc() or ''))
            elif variant == 3:
                params.append(('gpointer', 'data%d' % k))
                pblocks.append((pn, '(scope call) (closure data%d)' % k, ''))
                pblocks.append(('data%d' % k, rng.choice(['', '(nullable)']), g.doc() or ''))
            else:
                pblocks.append((pn, '(scope forever) (nullable)', g.doc() or ''))
            k += 2
            shape = 1
            continue
        t, choices = rng.choice(pool)
        params.append((t, pn))
        r = rng.random()
        if r < 0.8:
            a = rng.choice(choices)
            if rng.random() < 0.15:
                a = (a + ' (attributes pk=pv)').strip()
            pblocks.append((pn, a, g.doc(0.7) or ''))
        k += 1
    throws = rng.random() < 0.2
    if throws:
        params.append(('GError **', 'error'))
    varargs = (not throws) and rng.random() < 0.06
    rt, rchoices = rng.choice([('void', [''])] * 3 + pool[:22] + [('int *', ['(array fixed-size=2)', '(array zero-terminated=1) (transfer full)', '']),
                                                                  ('char **', ['(array zero-terminated=1) (transfer full)', '(transfer full)',
                                                                               '(array zero-terminated=1) (transfer container)'])])
    ret = None
    if rng.random() < 0.75 and rt != 'void':
        a = rng.choice(rchoices)
        a = a.replace('(out) ', '').replace('(out)', '').replace('(inout) ', '').replace('(optional)', '').replace('(out caller-allocates)', '') \
             .replace('(out callee-allocates)', '').replace('(caller-allocates)', '').replace('(allow-none)', '(nullable)').strip()
        if rng.random() < 0.1:
            a = (a + ' (skip)').strip()
        if rng.random() < 0.1:
            a = (a + ' (attributes rk=rv)').strip()
        ret = (a, g.doc(0.8) or '')
    # array return with a length out-parameter
    if rng.random() < 0.08 and not varargs:
        rt = 'int *'
        params.insert(len(params) - (1 if throws else 0), ('gsize *', 'out_len'))
        pblocks.append(('out_len', '(out)', ''))
        ret = ('(array length=out_len) (transfer full)', g.doc() or '')
    if kind == 'callback':
        sym = S.callback(name, rt, params, varargs=varargs)
    else:
        sym = S.function(name, rt, params, varargs=varargs, inline=inline)
    g.sym(sym, header)
    if rng.random() < 0.85 or anns or force_doc:
        ident = name
        g.block(ident, list(anns) + g.node_anns(), pblocks, force_doc or g.doc(), ret, g.node_tags())
    return name


def gen_namespace(rng, n=0, size=1.0):
    """-> dict(symbols, comments, dump_xml, options).  `n` makes identifiers unique per namespace
    (not needed for correctness, helps when reading replay files)."""
    g = Gen(rng)
    i = n % 7
    fp = S.funcptr

    def some(p):
        return rng.random() < p * size if size < 1 else rng.random() < p

    Obj, Rec, Uni, Enum, Flags, Cb, Alias = ('FooObj%d' % i, 'FooRec%d' % i, 'FooUni%d' % i, 'FooEnum%d' % i, 'FooFlags%d' % i,
                                             'FooCb%d' % i, 'FooAlias%d' % i)
    obj, rec, uni = 'foo_obj%d' % i, 'foo_rec%d' % i, 'foo_uni%d' % i
    dump = []

    # ---- callback, alias, enums first (used by the pools)
    g.sym(S.callback(Cb, 'void', [('int', 'x'), ('gpointer', 'user_data')]))
    if some(0.7):
        g.block(Cb, g.node_anns(), [('x', '', g.doc() or ''), ('user_data', rng.choice(['', '(closure)', '(nullable)']), '')], g.doc(), None, g.node_tags())
    g.sym(S.alias(Alias, rng.choice(['int', 'guint32', 'gpointer', 'const char *', Obj + ' *'])))
    if some(0.6):
        g.block(Alias, g.node_anns(skip=False), [], g.doc(), None, g.node_tags())
    # enumeration (registered or not), member docs by parameter tags or own blocks
    members = [('FOO_ENUM%d_A' % i, 0), ('FOO_ENUM%d_B' % i, rng.choice([1, -1, 2 ** 31 - 1])), ('FOO_ENUM%d_A_B' % i, 2)]
    g.sym(S.typedef_enum(Enum, members))
    enum_registered = some(0.5)
    if enum_registered:
        g.sym(S.function('foo_enum%d_get_type' % i, 'GType', []))
        dump.append('<enum name="%s" get-type="foo_enum%d_get_type">%s</enum>' % (
            Enum, i, ''.join('<member name="%s" nick="%s" value="%d"/>' % (m, m.split('_', 2)[2].lower().replace('_', '-'), v)
                             for m, v in members)))
    if some(0.7):
        g.block(Enum, g.node_anns(), [(members[0][0], '', g.doc() or 'first'), (members[1][0], '', g.doc() or '')], g.doc(), None, g.node_tags())
    if some(0.4):
        g.block(members[2][0], g.node_anns(skip=True), [], g.doc(0.9), None, g.node_tags(0.5))
    if some(0.5):
        gen_callable(g, i, 'foo_enum%d_to_string' % i, n_params=1)
    if some(0.5):       # error domain
        g.sym(S.function('foo_enum%d_quark' % i, 'GQuark', []))
        dump.append('<error-quark function="foo_enum%d_quark" domain="foo-enum%d-quark"/>' % (i, i))
    fmembers = [('FOO_FLAGS%d_X' % i, 1), ('FOO_FLAGS%d_Y' % i, 2), ('FOO_FLAGS%d_ALL' % i, 3)]
    g.sym(S.typedef_enum(Flags, fmembers, bitfield=True))
    if some(0.5):
        g.sym(S.function('foo_flags%d_get_type' % i, 'GType', []))
        dump.append('<flags name="%s" get-type="foo_flags%d_get_type">%s</flags>' % (
            Flags, i, ''.join('<member name="%s" nick="%s" value="%d"/>' % (m, m.split('_', 2)[2].lower(), v) for m, v in fmembers)))
    if some(0.5):
        g.block(Flags, g.node_anns(), [(fmembers[0][0], '', g.doc() or '')], g.doc(), None, g.node_tags())
    if some(0.4):
        gen_callable(g, i, 'foo_flags%d_describe' % i, n_params=1)

    # ---- class with class struct, interface
    inst_fields = [('GObject', 'parent_instance'), ('int', 'n_items'), S.member('int', 'flag', bits=rng.choice([1, 3])),
                   S.member('gpointer', 'priv', private=True), S.member(fp('void', [('int', 'x')]), 'inline_cb'),
                   S.member(fp('void', []), '_reserved'),
                   S.member(S.array_of('int', 4), 'quad'), ('char *', 'label')]
    rng.shuffle(inst_fields)
    inst_fields.sort(key=lambda f: 0 if (not isinstance(f, S.RS) and f[1] == 'parent_instance') else 1)
    g.sym(S.typedef_struct(Obj, '_' + Obj))
    g.sym(S.typedef_struct(Obj + 'Class', '_' + Obj + 'Class'))
    g.sym(S.struct_def('_' + Obj, inst_fields))
    vfuncs = [S.member(fp('int', [(Obj + ' *', 'self'), ('int', 'x')]), 'do_thing'),
              S.member(fp('void', [(Obj + ' *', 'self')]), 'no_inv'),
              S.member(fp('gboolean', [(Obj + ' *', 'self'), ('const char *', 's'), ('GError **', 'error')]), 'by_ann'),
              S.member(fp('void', [('int', 'not_a_vfunc')]), 'plain_cb'),
              S.member(fp('int', [(Obj + ' *', 'self'), ('int *', 'items'), ('int', 'n_items'), ('GError **', 'error')]), 'read_items')]
    g.sym(S.struct_def('_' + Obj + 'Class', [('GObjectClass', 'parent_class')] + vfuncs + [S.member(S.array_of('gpointer', 2), 'padding')]))
    g.sym(S.function(obj + '_get_type', 'GType', []))
    props = [('prop-a', 'gint', rng.choice([1, 3, 7, 11, 2]), rng.choice(['0', '42', None])),
             ('prop-str', 'gchararray', rng.choice([1, 3]), rng.choice(['', 'some "text"', None, 'NULL'])),
             ('prop-obj', Obj, 3, None), ('prop-strv', 'GStrv', 3, None), ('prop-enum', Enum if enum_registered else 'gint', 3, '0'),
             ('prop-bool', 'gboolean', rng.choice([3, 2]), rng.choice(['TRUE', 'FALSE']))]
    props = [p for p in props if some(0.7)]
    sigs = [('sig-a', 'void', ['gint'], dict(when='last')), ('sig-b', 'gboolean', ['gchararray', Obj], dict(when='first', detailed='1', action='1')),
            ('sig-c', 'gint', [], dict(when='cleanup', **{'no-recurse': '1', 'no-hooks': '1'})), ('sig-d', 'void', ['GStrv', 'gpointer'], dict())]
    sigs = [s for s in sigs if some(0.7)]
    is_fundamental = some(0.15)
    klass_attrs = ''
    if some(0.2):
        klass_attrs += ' abstract="1"'
    elif some(0.2):
        klass_attrs += ' final="1"'
    has_iface = some(0.7)
    body = ''.join('<property name="%s" type="%s" flags="%d"%s/>' % (n_, t, fl, (' default-value=%s' % S_quote(dv)) if dv is not None else '')
                   for n_, t, fl, dv in props)
    body += ''.join('<signal name="%s" return="%s"%s>%s</signal>' % (
        n_, rt, ''.join(' %s="%s"' % kv for kv in sorted(at.items())), ''.join('<param type="%s"/>' % t for t in ps))
        for n_, rt, ps, at in sigs)
    if has_iface:
        body += '<implements name="FooIface%d"/>' % i
    if is_fundamental:
        dump.append('<fundamental name="%s" get-type="%s_get_type" instantiatable="1"%s parents="">%s</fundamental>' % (
            Obj, obj, klass_attrs, '<implements name="FooIface%d"/>' % i if has_iface else ''))
        props, sigs = [], []
    else:
        dump.append('<class name="%s" get-type="%s_get_type" parents="GObject"%s>%s</class>' % (Obj, obj, klass_attrs, body))
    canns = g.node_anns()
    if is_fundamental:
        canns += ['(ref-func %s_ref)' % obj, '(unref-func %s_unref)' % obj] + (['(set-value-func %s_set_value)' % obj, '(get-value-func %s_get_value)' % obj] if some(0.5) else [])
        g.sym(S.function(obj + '_ref', Obj + ' *', [(Obj + ' *', 'self')]))
        g.sym(S.function(obj + '_unref', 'void', [(Obj + ' *', 'self')]))
    if some(0.8) or is_fundamental:
        g.block(Obj, canns, [('n_items', '', g.doc() or 'count')] if some(0.5) else [], g.doc(0.8), None, g.node_tags())
    if some(0.4):
        g.block('%s.label' % Obj, g.node_anns(), [], g.doc(0.9), None, g.node_tags())
    if some(0.3):
        g.block('%s.quad' % Obj, ['(array fixed-size=4)'] if some(0.5) else [], [], g.doc(0.9), None, [])
    if some(0.5):
        g.block('SECTION:%s' % Obj.lower(), [], [], pick_text(rng), None, [])
    g.sym(S.function(obj + '_new', Obj + ' *', []))
    if some(0.5):
        g.block(obj + '_new', g.node_anns(), [], g.doc(), ('(transfer full)', g.doc() or ''), g.node_tags())
    gen_callable(g, i, obj + '_new_with', n_params=2)
    g.sym(S.function(obj + '_do_thing', 'int', [(Obj + ' *', 'self'), ('int', 'x')]))
    if some(0.6):
        g.block(obj + '_do_thing', g.node_anns(), [('self', '', 'obj'), ('x', '', g.doc() or '')], g.doc(), ('', g.doc() or ''), g.node_tags())
    g.sym(S.function(obj + '_call_by_ann', 'gboolean', [(Obj + ' *', 'self'), ('const char *', 's'), ('GError **', 'error')]))
    g.block(obj + '_call_by_ann', ['(virtual by_ann)'] if some(0.7) else [], [('s', rng.choice(['', '(nullable)']), g.doc() or '')], g.doc(), None, g.node_tags())
    if some(0.5):
        g.block('%sClass::no_inv' % Obj, g.node_anns(), [('self', '', g.doc() or '')], g.doc(0.9), None, g.node_tags())
    if some(0.6):
        g.block('%sClass::read_items' % Obj, g.node_anns(), [('items', '(array length=n_items)' + rng.choice(['', ' (out caller-allocates)']), g.doc() or '')],
                g.doc(0.9), ('', g.doc() or ''), g.node_tags())
    if some(0.4):
        g.block('%sClass.plain_cb' % Obj, g.node_anns(), [], g.doc(0.9), None, g.node_tags())
    for k in range(rng.randint(0, 3)):
        gen_callable(g, i, '%s_m%d' % (obj, k), self_type=Obj + ' *')
    if some(0.6):
        gen_callable(g, i, obj + '_static_fn', n_params=rng.randint(0, 2))
    if some(0.4):
        gen_callable(g, i, obj + '_inl', self_type=Obj + ' *', inline=True, n_params=1)
    if some(0.3):
        gen_callable(g, i, obj + '_static_inl', inline=True, n_params=1)
    if some(0.3):
        g.sym(S.function(obj + '_new_inl', Obj + ' *', [('int', 'x')], inline=True))
    # property accessors, emitter, async triple
    if any(p[0] == 'prop-a' for p in props):
        g.sym(S.function(obj + '_get_prop_a', 'int', [(Obj + ' *', 'self')]))
        g.sym(S.function(obj + '_set_prop_a', 'void', [(Obj + ' *', 'self'), ('int', 'v')]))
        if some(0.5):
            g.block(obj + '_set_prop_a', ['(set-property prop-a)'], [], g.doc(), None, [])
        if some(0.5):
            g.block(obj + '_get_prop_a', ['(get-property prop-a)'], [], g.doc(), None, [])
    for pn_, t, fl, dv in props:
        if some(0.6):
            a = g.node_anns()
            if pn_ == 'prop-a' and some(0.5):
                a += ['(setter set_prop_a)', '(getter get_prop_a)']
            if pn_ == 'prop-a' and some(0.4):
                a += ['(default-value %s)' % rng.choice(['7', '-1'])]
            if pn_ in ('prop-obj', 'prop-strv', 'prop-str') and some(0.5):
                a += [rng.choice(['(transfer none)', '(transfer full)', '(transfer container)' if pn_ == 'prop-strv' else '(transfer none)'])]
            if pn_ == 'prop-strv' and some(0.3):
                a += ['(type GLib.List(utf8))' if some(0.5) else '(type GLib.HashTable(utf8,gint))']
            g.block('%s:%s' % (Obj, pn_), a, [], g.doc(0.8), None, g.node_tags())
    for sn_, rt, ps, at in sigs:
        if some(0.6):
            a = g.node_anns()
            names = ['object'] + ['arg%d' % k for k in range(len(ps))]
            pb = []
            if some(0.8):
                pb = [(names[0], '', 'the emitter')] + [(nm, rng.choice(['', '(nullable)', '(transfer none)', '(type utf8)' if t == 'gpointer' else '',
                                                                        '(array zero-terminated=1)' if t == 'GStrv' else '']), g.doc() or '')
                                                        for nm, t in zip(names[1:], ps)]
            if sn_ == 'sig-a' and some(0.5):
                g.sym(S.function(obj + '_emit_sig_a', 'void', [(Obj + ' *', 'self'), ('int', 'x')]))
                a.append('(emitter emit_sig_a)')
            g.block('%s::%s' % (Obj, sn_), a, pb, g.doc(0.8), ('(transfer none)' if rt != 'void' and some(0.3) else '', g.doc() or '') if rt != 'void' else None,
                    g.node_tags())
    if some(0.5) and not is_fundamental:
        # async / finish / sync
        g.sym(S.function(obj + '_load_async', 'void', [(Obj + ' *', 'self'), ('GCancellable *', 'c'), ('GAsyncReadyCallback', 'cb'), ('gpointer', 'user_data')]))
        g.sym(S.function(obj + '_load_finish', 'gboolean', [(Obj + ' *', 'self'), ('GAsyncResult *', 'res'), ('GError **', 'error')]))
        g.sym(S.function(obj + '_load', 'gboolean', [(Obj + ' *', 'self'), ('GCancellable *', 'c'), ('GError **', 'error')]))
        if some(0.5):
            g.block(obj + '_load_async', ['(finish-func load_finish)'] + (['(sync-func load)'] if some(0.5) else []), [], g.doc(), None, [])
        if some(0.3):
            g.block(obj + '_load', ['(async-func load_async)'], [], g.doc(), None, [])
    # interface
    Iface, iface = 'FooIface%d' % i, 'foo_iface%d' % i
    g.sym(S.typedef_struct(Iface, '_' + Iface))
    g.sym(S.typedef_struct(Iface + 'Interface', '_' + Iface + 'Interface'))
    g.sym(S.struct_def('_' + Iface + 'Interface', [('GTypeInterface', 'g_iface'),
                                                    S.member(fp('void', [(Iface + ' *', 'self'), ('int', 'v')]), 'frob')]))
    g.sym(S.function(iface + '_get_type', 'GType', []))
    g.sym(S.function(iface + '_frob', 'void', [(Iface + ' *', 'self'), ('int', 'v')]))
    if some(0.4):
        gen_callable(g, i, iface + '_static_fn', n_params=1)
    dump.append('<interface name="%s" get-type="%s_get_type">%s%s%s</interface>' % (
        Iface, iface, '<prerequisite name="GObject"/>' if some(0.7) else '',
        '<property name="iprop" type="gint" flags="3"/>' if some(0.5) else '',
        '<signal name="isig" return="void" when="last"><param type="gint"/></signal>' if some(0.5) else ''))
    if some(0.6):
        g.block(Iface, g.node_anns(), [], g.doc(0.8), None, g.node_tags())

    # ---- records
    anon_u = S.member(S.RT(S.CTYPE_UNION, None, children=[S.member('int', 'a'), S.member('double', 'b'),
                                                          S.member(S.RT(S.CTYPE_STRUCT, None, children=[S.member('int', 'deep')]), 's')]), 'u')
    anon_s = S.member(S.RT(S.CTYPE_STRUCT, None, children=[S.member('int', 'p'), S.member('int', 'q', bits=4)]), rng.choice(['inner', None]))
    rfields = [('int', 'n'), ('int *', 'arr'), S.member(S.array_of('int', 4), 'fixed'), S.member('guint', 'bf', bits=rng.choice([1, 7])),
               S.member('gpointer', 'hidden', private=True), S.member(fp('int', [('int', 'x'), ('gpointer', 'user_data')]), 'cbfield'),
               ('const char *', 'name'), (Obj + ' *', 'owner'), (Enum, 'mode'), S.member(S.array_of('char', 16), 'buf'),
               ('GList *', 'items')]
    rfields = [f for f in rfields if some(0.7) or (not isinstance(f, S.RS) and f[1] in ('n', 'arr'))]
    rng.shuffle(rfields)
    if some(0.4):
        rfields.insert(rng.randrange(len(rfields) + 1), anon_u)
    if some(0.3):
        rfields.insert(rng.randrange(len(rfields) + 1), anon_s)
    g.sym(S.typedef_struct(Rec, '_' + Rec))
    g.sym(S.struct_def('_' + Rec, rfields))
    rec_boxed = some(0.5)
    if rec_boxed:
        g.sym(S.function(rec + '_get_type', 'GType', []))
        dump.append('<boxed name="%s" get-type="%s_get_type"/>' % (Rec, rec))
    g.sym(S.function(rec + '_copy', Rec + ' *', [('const ' + Rec + ' *', 'r')]))
    g.sym(S.function(rec + '_free', 'void', [(Rec + ' *', 'r')]))
    g.sym(S.function(rec + '_new', Rec + ' *', [('int', 'n')]))
    if some(0.5):
        gen_callable(g, i, rec + '_static_fn', n_params=1)
    if some(0.3):
        gen_callable(g, i, rec + '_minl', self_type=Rec + ' *', inline=True, n_params=0)
    ra = g.node_anns()
    if some(0.4):
        ra += ['(copy-func %s_copy)' % rec, '(free-func %s_free)' % rec]
    if some(0.1):
        ra.append('(foreign)')
    fparams = []
    names = [f.ident if isinstance(f, S.RS) else f[1] for f in rfields]
    if some(0.5):
        fparams.append(('arr', '(array length=n)', g.doc() or ''))
    if 'items' in names and some(0.5):
        fparams.append(('items', '(element-type utf8)', g.doc() or ''))
    if 'name' in names and some(0.5):
        fparams.append(('name', '', g.doc() or 'nm'))
    if some(0.8) or fparams:
        g.block(Rec, ra, fparams, g.doc(0.8), None, g.node_tags())
    if 'mode' in names and some(0.4):
        g.block('%s.mode' % Rec, g.node_anns(), [], g.doc(0.9), None, g.node_tags())
    if 'cbfield' in names and some(0.5):
        g.block('%s.cbfield' % Rec, g.node_anns(), [], g.doc(0.9), None, g.node_tags())
    # opaque record, disguised pointer typedef, gtype struct less record
    if some(0.6):
        g.sym(S.typedef_struct('FooOpaque%d' % i, '_FooOpaque%d' % i))
        g.sym(S.function('foo_opaque%d_peek' % i, 'int', [('FooOpaque%d *' % i, 'o')]))
    if some(0.5):
        g.sym(S.typedef_struct('FooPtr%d' % i, '_FooPtr%d' % i, pointer=True))
        if some(0.5):
            g.block('FooPtr%d' % i, g.node_anns(), [], g.doc(), None, g.node_tags())
    if some(0.4):   # typedef struct { ... } FooAnonTd;
        g.sym(S.typedef_struct('FooTd%d' % i, None, [('int', 'x'), ('double', 'y')]))
    # ---- union
    ufields = [('int', 'i'), ('double', 'd'), S.member(S.array_of('char', 8), 'bytes'), (Rec + ' *', 'r'), ('int *', 'dyn'), ('int', 'n_dyn')]
    rng.shuffle(ufields)
    if some(0.4):
        ufields.insert(rng.randrange(len(ufields) + 1), S.member(S.RT(S.CTYPE_STRUCT, None, children=[S.member('int', 'tag'), S.member('int', 'len'), S.member('int *', 'vals')]), 'tagged'))
    if some(0.7):
        g.sym(S.typedef_struct(Uni, '_' + Uni, union=True))
        g.sym(S.struct_def('_' + Uni, ufields, union=True))
    else:
        g.sym(S.typedef_struct(Uni, '_' + Uni, union=True))    # opaque union
    if some(0.4):
        g.sym(S.function(uni + '_get_type', 'GType', []))
        dump.append('<boxed name="%s" get-type="%s_get_type"/>' % (Uni, uni))
    g.sym(S.function(uni + '_kind', 'int', [(Uni + ' *', 'u')]))
    if some(0.4):
        g.sym(S.function(uni + '_new', Uni + ' *', []))
    if some(0.3):
        gen_callable(g, i, uni + '_static_fn', n_params=1)
    if some(0.6):
        ua = g.node_anns()
        if some(0.3):
            ua += ['(copy-func %s_dup)' % uni, '(free-func %s_free)' % uni]
        g.block(Uni, ua, ([('i', '', g.doc() or '')] if some(0.5) else []) + ([('dyn', '(array length=n_dyn)', g.doc() or '')] if some(0.6) else []),
                g.doc(0.8), None, g.node_tags())
    # ---- bare boxed (no C struct known): constructor, method, static function
    if some(0.6):
        Bx, bx = 'FooBoxed%d' % i, 'foo_boxed%d' % i
        g.sym(S.function(bx + '_get_type', 'GType', []))
        dump.append('<boxed name="%s" get-type="%s_get_type"/>' % (Bx, bx))
        if some(0.7):
            g.sym(S.function(bx + '_new', Bx + ' *', []))
        if some(0.7):
            gen_callable(g, i, bx + '_meth', self_type=Bx + ' *', n_params=1)
        if some(0.5):
            gen_callable(g, i, bx + '_stat', n_params=1)
        if some(0.3):
            gen_callable(g, i, bx + '_minl', self_type=Bx + ' *', n_params=0, inline=True)
        if some(0.5):
            g.block(Bx, g.node_anns(), [], g.doc(0.9), None, g.node_tags())
    # ---- constants
    if some(0.8):
        g.sym(S.const_int('FOO_INT%d' % i, rng.choice([0, 1, -5, 2 ** 40])))
        if some(0.6):
            g.block('FOO_INT%d' % i, g.node_anns() + (['(value 4242)'] if some(0.3) else []) + (['(type guint8)'] if some(0.2) else []),
                    [], g.doc(0.8), None, g.node_tags())
    if some(0.8):
        g.sym(S.const_str('FOO_STR%d' % i, rng.choice(['', 'abc', 'a"b<c>&d\'e', 'nön-äscii ✓', ' lead and trail ', 'tab\there', 'two\nlines'])))
        if some(0.5):
            g.block('FOO_STR%d' % i, g.node_anns(), [], g.doc(0.8), None, g.node_tags())
    if some(0.5):
        g.sym(S.const_double('FOO_DBL%d' % i, rng.choice([0.0, 1.5, -2.25e10])))
    if some(0.5):
        g.sym(S.const_bool('FOO_BOOL%d' % i, some(0.5)))
    if some(0.4):
        g.sym(S.const_int('FOO_U8_%d' % i, 200, 'guint8'))
    # ---- more aliases, callbacks, functions, macros
    if some(0.5):
        gen_callable(g, i, 'FooFunc%d' % i, kind='callback')
    if some(0.3):
        g.sym(S.callback('FooThrowCb%d' % i, 'gboolean', [('int', 'x'), ('GError **', 'error')]))
    for k in range(rng.randint(2, 7) if size >= 1 else rng.randint(1, 3)):
        gen_callable(g, i, 'foo_fn%d_%d' % (i, k))
    if some(0.5):
        gen_callable(g, i, 'foo_inl%d' % i, inline=True)
    if some(0.5):     # rename-to pair
        g.sym(S.function('foo_ren%d' % i, 'void', [('int', 'x')]))
        g.sym(S.function('foo_ren%d_full' % i, 'void', [('int', 'x'), ('int', 'y')]))
        g.block('foo_ren%d_full' % i, ['(rename-to foo_ren%d)' % i], [], g.doc(), None, g.node_tags())
    if some(0.3):     # (method) / (constructor) annotations on oddly named functions
        g.sym(S.function('foo_make_rec%d' % i, Rec + ' *', [('int', 'x')]))
        g.block('foo_make_rec%d' % i, ['(constructor)'], [], g.doc(), None, [])
    if some(0.3):     # g_resources_register style: moved-to
        g.sym(S.function(obj + 's_frobnicate', 'void', [(Obj + ' *', 'self')]))
    if some(0.6):
        m = S.RS(S.CSYMBOL_TYPE_FUNCTION_MACRO, 'FOO_MACRO%d' % i,
                 S.RT(S.CTYPE_FUNCTION, base_type=S.ctype('void'), children=[S.RS(S.CSYMBOL_TYPE_OBJECT, nm, None) for nm in ['a', 'b'][:rng.randint(0, 2)]]))
        g.sym(m)
        if some(0.6):
            g.block('FOO_MACRO%d' % i, g.node_anns(), [('a', '', g.doc(0.9) or '')], g.doc(0.8), None, g.node_tags())
    for k in range(rng.randint(0, 2)):
        g.block('SECTION:standalone%d_%d' % (i, k), [], [], pick_text(rng), None, [])
    dump_xml = '<?xml version="1.0"?><dump>%s</dump>' % ''.join(dump)
    opts = dict(c_includes=rng.sample(['foo.h', 'sub/foo-extra.h', 'a&b.h'], rng.randint(0, 2)),
                shared_libraries=rng.sample(['libfoo.so.1', 'libfoo-extra.so.0'], rng.randint(0, 2)),
                packages=rng.sample(['foo-1.0', 'gobject-2.0'], rng.randint(0, 2)),
                doc_format=rng.choice(['unknown', 'gtk-doc-markdown', 'gi-docgen']),
                roots=rng.choice([['/src'], [], ['/src', '/other']]),
                idp=rng.choice([['Foo'], ['Foo'], ['Foo', 'Bar']]), symp=rng.choice([['foo'], ['foo'], ['foo', 'bar']]))
    return dict(symbols=g.syms, comments=g.comments, dump_xml=dump_xml, options=opts)


def S_quote(s):
    from xml.sax.saxutils import quoteattr
    return quoteattr(s)


# ------------------------------------------------------------------------------------------------
# running the real scanner on a generated namespace
def scan_generated(spec):
    """-> ast.Namespace produced by the real pipeline (+ log); namespace-level options applied the way
    scannermain does (shared libraries, c:includes, exported packages, doc format)."""
    o = spec['options']
    r = S.scan(spec['symbols'], spec['comments'], dump_xml=spec['dump_xml'], c_includes=o['c_includes'],
               shared_libraries=o['shared_libraries'], warnings=False, idp=tuple(o.get('idp', ['Foo'])), symp=tuple(o.get('symp', ['foo'])))
    r.ns.exported_packages = list(o['packages'])
    r.ns.doc_format = o['doc_format']
    return r


# ------------------------------------------------------------------------------------------------
# structure walk: (path, kind, object, context)
def type_kind(t):
    if isinstance(t, ast.Varargs):
        return 'varargs'
    if isinstance(t, ast.Array):
        return 'array'
    if isinstance(t, ast.List):
        return 'list'
    if isinstance(t, ast.Map):
        return 'map'
    return 'type'                    # incl. ast.TypeUnknown: a type reference that names nothing (<type/>)


def _walk_type(t, path, ctx, out):
    if t is None:
        return
    k = type_kind(t)
    out.append((path, k, t, ctx))
    if k in ('array', 'list'):
        _walk_type(t.element_type, path + '/elem', 'elem', out)
    elif k == 'map':
        _walk_type(t.key_type, path + '/key', 'elem', out)
        _walk_type(t.value_type, path + '/value', 'elem', out)


def _walk_callable(c, path, kind, out):
    out.append((path, kind, c, ''))
    if getattr(c, 'retval', None) is not None:
        out.append((path + '/ret', 'return', c.retval, kind))
        _walk_type(c.retval.type, path + '/ret/type', 'callable', out)
    ip = getattr(c, 'instance_parameter', None)
    if ip is not None:
        out.append((path + '/iparam', 'iparam', ip, kind))
        _walk_type(ip.type, path + '/iparam/type', 'callable', out)
    for n, p in enumerate(c.parameters):
        out.append(('%s/param[%d]' % (path, n), 'parameter', p, kind))
        _walk_type(p.type, '%s/param[%d]/type' % (path, n), 'callable', out)


def _keyed(seq, keyfn):
    seen = {}
    for x in seq:
        k = keyfn(x)
        seen[k] = seen.get(k, 0) + 1
        yield ('%s#%d' % (k, seen[k]) if seen[k] > 1 else k), x


def _walk_functions(node, path, out):
    for role, lst in (('ctor', getattr(node, 'constructors', [])), ('method', getattr(node, 'methods', [])),
                      ('static', getattr(node, 'static_methods', []))):
        for key, f in _keyed(lst, lambda f: f.symbol or f.name):
            if isinstance(f, ast.Function) and not f.internal_skipped:
                _walk_callable(f, '%s/%s:%s' % (path, role, key), 'function', out)


def _walk_fields(node, path, out):
    ctx = 'class' if isinstance(node, (ast.Class, ast.Interface)) else 'compound'
    for n, f in enumerate(node.fields):
        fp_ = '%s/field[%d]' % (path, n)
        if f.anonymous_node is not None:
            an = f.anonymous_node
            if isinstance(an, ast.Callback):
                out.append((fp_, 'cbfield', f, ctx))
                _walk_callable(an, fp_ + '/anon', 'callback', out)
            else:
                out.append((fp_, 'anonfield', f, ctx))
                _walk_compound(an, fp_ + '/anon', out)
                if ctx == 'compound':
                    ctx = 'compound_after_anon'     # what follows an anonymous record/union member
        else:
            out.append((fp_, 'field', f, ctx))
            _walk_type(f.type, fp_ + '/type', ctx, out)


def _walk_compound(node, path, out):
    out.append((path, 'record' if isinstance(node, ast.Record) else 'union', node, ''))
    _walk_fields(node, path, out)
    _walk_functions(node, path, out)


def walk(ns):
    out = [('ns', 'namespace', ns, '')]
    for name, node in ns.names.items():
        path = 'ns/%s' % name
        if isinstance(node, ast.Function):
            if not node.internal_skipped:
                _walk_callable(node, path, 'function', out)
        elif isinstance(node, ast.FunctionMacro):
            out.append((path, 'functionmacro', node, ''))
            for n, p in enumerate(node.parameters):
                out.append(('%s/param[%d]' % (path, n), 'macroparam', p, ''))
        elif isinstance(node, ast.Callback):
            _walk_callable(node, path, 'callback', out)
        elif isinstance(node, (ast.Enum, ast.Bitfield)):
            out.append((path, 'enum' if isinstance(node, ast.Enum) else 'bitfield', node, ''))
            for n, m in enumerate(node.members):
                out.append(('%s/member[%d]' % (path, n), 'member', m, ''))
            for key, f in _keyed(node.static_methods, lambda f: f.symbol or f.name):
                if not f.internal_skipped:
                    _walk_callable(f, '%s/static:%s' % (path, key), 'function', out)
        elif isinstance(node, (ast.Class, ast.Interface)):
            out.append((path, 'class' if isinstance(node, ast.Class) else 'interface', node, ''))
            _walk_fields(node, path, out)
            _walk_functions(node, path, out)
            for key, v in _keyed(node.virtual_methods, lambda f: f.name):
                _walk_callable(v, '%s/vfunc:%s' % (path, key), 'vfunc', out)
            for key, p in _keyed(node.properties, lambda f: f.name):
                out.append(('%s/property:%s' % (path, key), 'property', p, ''))
                _walk_type(p.type, '%s/property:%s/type' % (path, key), 'property', out)
            for key, s in _keyed(node.signals, lambda f: f.name):
                _walk_callable(s, '%s/signal:%s' % (path, key), 'signal', out)
        elif isinstance(node, (ast.Record, ast.Union)):
            _walk_compound(node, path, out)
        elif isinstance(node, ast.Boxed):
            out.append((path, 'boxed', node, ''))
            _walk_functions(node, path, out)
        elif isinstance(node, ast.Alias):
            out.append((path, 'alias', node, ''))
            _walk_type(node.target, path + '/type', 'alias', out)
        elif isinstance(node, ast.Constant):
            out.append((path, 'constant', node, ''))
            _walk_type(node.value_type, path + '/type', 'constant', out)
        elif isinstance(node, ast.DocSection):
            out.append((path, 'docsection', node, ''))
        else:
            out.append((path, 'other:' + type(node).__name__, node, ''))
    return out


# ------------------------------------------------------------------------------------------------
# projection: ast objects -> records of the vocabulary exported by TLC (tla/GirIOCases.tla)
def enc(v):
    if v is None:
        return ['n', '']
    if v is True:
        return ['b', '1']
    if v is False:
        return ['b', '0']
    if isinstance(v, int):
        return ['i', str(v)]
    if isinstance(v, ast.Type):
        return ['s', v.target_giname or v.target_fundamental or v.ctype or '']
    return ['s', str(v)]


def _typenames(types):
    return ','.join(sorted(t.target_giname or t.target_fundamental or '?' for t in types))


def _nfuncs(lst):
    return str(len([f for f in lst if not (isinstance(f, ast.Function) and f.internal_skipped)]))


def get_field(obj, kind, f, path, ctx):
    """the value of vocabulary field `f` of the real object (no interpretation beyond naming)"""
    if '.' in f:
        head, attr = f.split('.', 1)
        pos = obj.get_main_position() if head == 'main_position' else getattr(obj, head, None)
        return None if pos is None else getattr(pos, attr)
    if f == 'attributes':
        return ';'.join('%s=%s' % kv for kv in obj.attributes.items())
    if f == 'role':
        seg = path.rsplit('/', 1)[-1]
        return {'ctor': 'ctor', 'method': 'method', 'static': 'static'}.get(seg.split(':', 1)[0], 'top') if ':' in seg else 'top'
    if f == 'host':
        return ctx
    if f == 'value_kind':
        return type_kind(obj.value_type)
    if f == 'children':               # does the type reference carry element types (container classes do)
        return '1' if isinstance(obj, (ast.Array, ast.List, ast.Map)) else '0'
    if f in ('interfaces', 'prerequisites'):
        return _typenames(getattr(obj, f))
    if f in ('constructors', 'methods', 'static_methods', 'virtual_methods'):
        return _nfuncs(getattr(obj, f, []))
    if f in ('properties', 'signals', 'fields'):
        return str(len(getattr(obj, f)))
    if kind == 'namespace':
        if f == 'includes':
            return ','.join(sorted(str(i) for i in obj.includes))
        if f in ('exported_packages', 'c_includes'):
            return ','.join(sorted(set(getattr(obj, f))))
        if f in ('shared_libraries', 'identifier_prefixes', 'symbol_prefixes'):
            v = getattr(obj, f)
            return ','.join(v) if isinstance(v, (list, tuple)) else v
    return getattr(obj, f, None)


def project(ns, vocabulary):
    out = []
    for path, kind, obj, ctx in walk(ns):
        voc = vocabulary.get(kind)
        fields = {}
        if voc:
            for f in voc['fields']:
                fields[f] = enc(get_field(obj, kind, f, path, ctx))
        out.append(dict(p=path, k=kind, f=fields))
    return out


def align(orig, back):
    """zip two projections by path (pure bookkeeping: the comparison is TLC's)"""
    b = {n['p']: n for n in back}
    o = {n['p'] for n in orig}
    pairs = [dict(p=n['p'], k1=n['k'], f1=n['f'], k2=b[n['p']]['k'], f2=b[n['p']]['f']) for n in orig if n['p'] in b]
    only_orig = [dict(p=n['p'], k=n['k']) for n in orig if n['p'] not in b]
    only_back = [dict(p=n['p'], k=n['k']) for n in back if n['p'] not in o]
    return pairs, only_orig, only_back


# ------------------------------------------------------------------------------------------------
# the cycle on the real pair
def sha(b):
    return hashlib.sha1(b).hexdigest()


def first_diff(a, b):
    """(line number, line of a, line of b, tag name on that line) of the first differing line"""
    la, lb = a.decode('utf-8', 'replace').split('\n'), b.decode('utf-8', 'replace').split('\n')
    for i in range(max(len(la), len(lb))):
        x = la[i] if i < len(la) else '<EOF>'
        y = lb[i] if i < len(lb) else '<EOF>'
        if x != y:
            import re
            m = re.match(r'\s*</?([\w:.-]+)', x) or re.match(r'\s*</?([\w:.-]+)', y)
            return i + 1, x.strip()[:160], y.strip()[:160], (m.group(1) if m else 'text')
    return 0, '', '', ''


def read_gir(path):
    p = GIRParser()
    p.parse(path)
    return p.get_namespace()


def _exc(e):
    return '%s: %s' % (type(e).__name__, str(e)[:200])


class Cycler(object):
    def __init__(self, tmp, vocabulary):
        self.tmp = tmp
        self.voc = vocabulary
        self.n = 0

    def _file(self, data, name='Foo-1.0.gir'):
        self.n += 1
        d = os.path.join(self.tmp, 'cy%d' % self.n)
        os.makedirs(d, exist_ok=True)
        p = os.path.join(d, name)
        with open(p, 'wb') as f:
            f.write(data)
        return p

    def run(self, oid, src, model=None, roots=(), data=None, name='Foo-1.0.gir', via='direct', keep_xml=False):
        """src 'scan': model = ast.Namespace produced by a scan, W(m) R W.
        src 'expected' / 'shipped' / 'regen': data = bytes of a GIR file x; R(x) W R W."""
        o = dict(id=oid, rec='cycle', src=src, strict=(len(roots) == 0), h0='', h1='', h2='', err='', errwhere='', rv='na',
                 diffline=0, diffa='', diffb='', difftag='', pairs=[], onlyOrig=[], onlyBack=[], nodes=0, via=via)
        x1 = x2 = None
        try:
            if model is None:
                o['h0'] = sha(data)
                o['errwhere'] = 'read(x)'
                model = read_gir(self._file(data, name))
                roots = ()
            o['errwhere'] = 'write(m)'
            x1 = GIRWriter(model, list(roots)).get_encoded_xml()
            o['h1'] = sha(x1)
            p1 = self._file(x1, name)
            o['errwhere'] = 'read(write(m))'
            if via == 'passthrough':
                from giscanner import scannermain
                buf = io.BytesIO()
                scannermain.passthrough_gir(p1, buf)
                x2 = buf.getvalue()
                ns2 = read_gir(p1)
            else:
                ns2 = read_gir(p1)
                o['errwhere'] = 'write(read(write(m)))'
                x2 = GIRWriter(ns2).get_encoded_xml()
            o['h2'] = sha(x2)
            if via == 'reparse':
                o['rv'] = self.reparse_validate(x1)
            o['errwhere'] = ''
            orig, back = project(model, self.voc), project(ns2, self.voc)
            o['nodes'] = len(orig)
            o['pairs'], o['onlyOrig'], o['onlyBack'] = align(orig, back)
            if x1 != x2:
                o['diffline'], o['diffa'], o['diffb'], o['difftag'] = first_diff(x1, x2)
            elif data is not None and data != x1:
                o['diffline'], o['diffa'], o['diffb'], o['difftag'] = first_diff(data, x1)
        except (Exception, SystemExit) as e:
            o['err'] = _exc(e)
        if keep_xml:
            o['_x1'], o['_x2'] = x1, x2
        return o

    def reparse_validate(self, data):
        """scannermain.write_output with --reparse-validate: the project's own fixed-point check"""
        from giscanner import scannermain
        outp = os.path.join(self.tmp, 'rv-%d.gir' % self.n)

        class O(object):
            output = outp
            reparse_validate_gir = True
        olderr = sys.stderr
        sys.stderr = io.StringIO()
        try:
            try:
                rc = scannermain.write_output(data, O)
            except SystemExit:
                return 'mismatch'
            finally:
                sys.stderr = olderr
            if rc == 0 and os.path.exists(outp) and open(outp, 'rb').read() == data:
                return 'ok'
            return 'mismatch'
        finally:
            if os.path.exists(outp):
                os.unlink(outp)


# ------------------------------------------------------------------------------------------------
# S->C: one TLC-enumerated channel case [k, sec, m] as real giscanner.ast objects
def dec(v):
    t, s = v
    if t == 'n':
        return None
    if t == 'b':
        return s == '1'
    if t == 'i':
        return int(s)
    return s


def _ret():
    return ast.Return(ast.TYPE_NONE.clone(), transfer='none')


def _fn(name, symbol=None, params=None):
    return ast.Function(name, _ret(), params or [], False, symbol or ('foo_' + name))


def _tref(v):
    return None if v is None else ast.Type(target_giname=v)


def _apply(obj, kind, m):
    """set every vocabulary field of `m` on the real object (the inverse of get_field)"""
    from collections import OrderedDict
    pos = {}
    for f, raw in m.items():
        v = dec(raw)
        if '.' in f:
            head, attr = f.split('.', 1)
            pos.setdefault(head, {})[attr] = v
        elif f == 'attributes':
            obj.attributes = OrderedDict(kv.split('=', 1) for kv in v.split(';')) if v else OrderedDict()
        elif f in ('role', 'host', 'value_kind'):
            pass
        elif f in ('parent_type', 'glib_type_struct', 'is_gtype_struct_for'):
            setattr(obj, f, _tref(v))
        elif f in ('interfaces', 'prerequisites'):
            setattr(obj, f, [ast.Type(target_giname=n) for n in v.split(',') if n])
        elif f in ('constructors', 'methods', 'static_methods'):
            lst = []
            for i in range(int(v)):
                fn = _fn('%s%d' % (f[:4], i))
                if f == 'methods':
                    fn.is_method = True
                    fn.instance_parameter = ast.Parameter('self', ast.Type(target_giname='Foo.x', ctype='FooX*'), transfer='none')
                if f == 'constructors':
                    fn.is_constructor = True
                lst.append(fn)
            setattr(obj, f, lst)
        elif f == 'virtual_methods':
            obj.virtual_methods = [ast.VFunction('vf%d' % i, _ret(), [], False) for i in range(int(v))]
        elif f == 'properties':
            obj.properties = [ast.Property('prop%d' % i, ast.TYPE_INT.clone(), True, False, False, False) for i in range(int(v))]
        elif f == 'signals':
            obj.signals = [ast.Signal('sig%d' % i, _ret(), []) for i in range(int(v))]
        elif f == 'fields':
            obj.fields = [ast.Field('fld%d' % i, ast.TYPE_INT.clone(), True, False) for i in range(int(v))]
        elif kind == 'namespace' and f == 'includes':
            obj.includes = set(ast.Include.from_string(x) for x in v.split(',') if x)
        elif kind == 'namespace' and f in ('exported_packages', 'c_includes', 'shared_libraries', 'identifier_prefixes', 'symbol_prefixes'):
            setattr(obj, f, [x for x in v.split(',') if x] if v is not None else None)
        else:
            setattr(obj, f, v)
    for head, d in pos.items():
        p = None
        if d.get('filename') is not None:
            p = message.Position(d['filename'], d.get('line'), d.get('column'))
        if head == 'main_position':
            obj.file_positions = set([p]) if p is not None else set()
        else:
            setattr(obj, head, p)
    return obj


def instantiate(case):
    """-> (namespace, path of the node under test in walk(), xml locator)"""
    k, m = case['k'], case['m']
    g = lambda f: dec(m[f]) if f in m else None                               # noqa: E731
    ns = ast.Namespace('Foo', '1.0')
    host_fn = lambda params: _fn('host', 'foo_host', params)                  # noqa: E731
    if k == 'namespace':
        ns = ast.Namespace(g('name'), g('version'))
        _apply(ns, k, m)
        return ns, 'ns', [('namespace', None)]
    if k == 'alias':
        n = _apply(ast.Alias('x', ast.TYPE_INT.clone()), k, m)
        ns.append(n)
        return ns, 'ns/x', [('alias', 0)]
    if k == 'function':
        fn = _apply(_fn('x'), k, m)
        role = g('role')
        fn.is_method = role == 'method'
        fn.is_constructor = role == 'ctor'
        if role == 'method':
            fn.instance_parameter = ast.Parameter('self', ast.Type(target_giname='Foo.Host', ctype='FooHost*'), transfer='none')
        if role == 'top':
            ns.append(fn)
            return ns, 'ns/x', [('function*', 0)]
        host = ast.Record('Host', ctype='FooHost')
        {'method': host.methods, 'ctor': host.constructors, 'static': host.static_methods}[role].append(fn)
        ns.append(host)
        return ns, 'ns/Host/%s:%s' % (role, fn.symbol or fn.name), [('record', 0), ({'method': 'method*', 'ctor': 'constructor', 'static': 'function'}[role], 0)]
    if k in ('vfunc', 'signal', 'property'):
        host = ast.Class('Host', None, ctype='FooHost', gtype_name='FooHost', get_type='foo_host_get_type', c_symbol_prefix='host')
        if k == 'vfunc':
            n = _apply(ast.VFunction('x', _ret(), [], False), k, m)
            host.virtual_methods.append(n)
            tag = 'virtual-method'
        elif k == 'signal':
            n = _apply(ast.Signal('x', _ret(), []), k, m)
            host.signals.append(n)
            tag = 'glib:signal'
        else:
            n = _apply(ast.Property('x', ast.TYPE_INT.clone(), True, False, False, False), k, m)
            host.properties.append(n)
            tag = 'property'
        ns.append(host)
        return ns, 'ns/Host/%s:x' % k, [('class', 0), (tag, 0)]
    if k == 'callback':
        n = _apply(ast.Callback('x', _ret(), [], False), k, m)
        ns.append(n)
        return ns, 'ns/x', [('callback', 0)]
    if k == 'functionmacro':
        n = _apply(ast.FunctionMacro('x', [], 'FOO_X'), k, m)
        ns.append(n)
        return ns, 'ns/x', [('function-macro', 0)]
    if k == 'macroparam':
        p = _apply(ast.Parameter('a', None), k, m)
        ns.append(ast.FunctionMacro('host', [p], 'FOO_HOST'))
        return ns, 'ns/host/param[0]', [('function-macro', 0), ('parameters', 0), ('parameter', 0)]
    if k in ('parameter', 'iparam', 'return'):
        p0 = ast.Parameter('p0', ast.TYPE_ANY.clone(), transfer='none')
        p1 = ast.Parameter('p1', ast.TYPE_ANY.clone(), transfer='none')
        if k == 'parameter':
            p = _apply(ast.Parameter('x', ast.TYPE_INT.clone()), k, m)
            ns.append(host_fn([p0, p1, p]))
            return ns, 'ns/host/param[2]', [('function', 0), ('parameters', 0), ('parameter', 2)]
        if k == 'iparam':
            p = _apply(ast.Parameter('x', ast.Type(target_giname='Foo.Host', ctype='FooHost*')), k, m)
            fn = host_fn([p0, p1])
            fn.is_method = True
            fn.instance_parameter = p
            host = ast.Record('Host', ctype='FooHost')
            host.methods.append(fn)
            ns.append(host)
            return ns, 'ns/Host/method:foo_host/iparam', [('record', 0), ('method', 0), ('parameters', 0), ('instance-parameter', 0)]
        fn = host_fn([p0, p1])
        fn.retval = _apply(ast.Return(ast.TYPE_INT.clone()), k, m)
        ns.append(fn)
        return ns, 'ns/host/ret', [('function', 0), ('return-value', 0)]
    if k in ('type', 'array', 'list', 'map'):
        if k == 'type':
            t = ast.TypeUnknown()
        elif k == 'array':
            t = ast.Array(None, ast.TYPE_INT.clone())
        elif k == 'list':
            t = ast.List(g('name'), ast.TYPE_STRING.clone())
        else:
            vk = g('value_kind')
            vt = {'type': ast.TYPE_INT.clone(), 'array': ast.Array(None, ast.TYPE_STRING.clone()),
                  'list': ast.List('GLib.List', ast.TYPE_STRING.clone())}[vk]
            t = ast.Map(ast.TYPE_STRING.clone(), vt)
        _apply(t, k, m)
        host = g('host') or 'callable'
        if host == 'callable':
            ns.append(host_fn([ast.Parameter('n', ast.TYPE_INT.clone(), transfer='none'), ast.Parameter('x', t, transfer='none')]))
            return ns, 'ns/host/param[1]/type', [('function', 0), ('parameters', 0), ('parameter', 1), ('TYPE', 0)]
        if host == 'elem':
            ns.append(host_fn([ast.Parameter('x', ast.List('GLib.List', t), transfer='none')]))
            return ns, 'ns/host/param[0]/type/elem', [('function', 0), ('parameters', 0), ('parameter', 0), ('TYPE', 0), ('TYPE', 0)]
        if host == 'class':
            c = ast.Class('Host', None, ctype='FooHost', gtype_name='FooHost', get_type='foo_host_get_type', c_symbol_prefix='host')
            c.fields = [ast.Field('n', ast.TYPE_INT.clone(), True, False), ast.Field('x', t, True, False)]
            ns.append(c)
            return ns, 'ns/Host/field[1]/type', [('class', 0), ('field', 1), ('TYPE', 0)]
        rec = ast.Record('Host', ctype='FooHost')
        fields = [ast.Field('n', ast.TYPE_INT.clone(), True, True), ast.Field('x', t, True, True)]
        nfield = 1
        if host == 'compound_after_anon':
            u = ast.Union('u', 'u')
            u.fields = [ast.Field('a', ast.TYPE_INT.clone(), True, True)]
            fields.insert(0, ast.Field('u', None, True, False, anonymous_node=u))
        rec.fields = fields
        ns.append(rec)
        return ns, 'ns/Host/field[%d]/type' % (len(fields) - 1), [('record', 0), ('field', nfield), ('TYPE', 0)]
    if k in ('enum', 'bitfield'):
        cls = ast.Enum if k == 'enum' else ast.Bitfield
        n = cls('x', 'FooX', members=[])
        _apply(n, k, m)
        ns.append(n)
        return ns, 'ns/x', [('enumeration' if k == 'enum' else 'bitfield', 0)]
    if k == 'member':
        mem = _apply(ast.Member('x', 0, 'FOO_X'), k, m)
        ns.append(ast.Enum('Host', 'FooHost', members=[mem]))
        return ns, 'ns/Host/member[0]', [('enumeration', 0), ('member', 0)]
    if k == 'constant':
        n = _apply(ast.Constant('x', ast.TYPE_STRING.clone(), '', 'FOO_X'), k, m)
        ns.append(n)
        return ns, 'ns/x', [('constant', 0)]
    if k == 'docsection':
        n = _apply(ast.DocSection('x'), k, m)
        ns.append(n)
        return ns, 'ns/x', [('docsection', 0)]
    if k == 'class':
        n = _apply(ast.Class('x', None, gtype_name='FooX', get_type='foo_x_get_type', c_symbol_prefix='x'), k, m)
        ns.append(n)
        return ns, 'ns/x', [('class', 0)]
    if k == 'interface':
        n = _apply(ast.Interface('x', None, gtype_name='FooX', get_type='foo_x_get_type', c_symbol_prefix='x'), k, m)
        ns.append(n)
        return ns, 'ns/x', [('interface', 0)]
    if k == 'boxed':
        n = _apply(ast.Boxed('x', gtype_name='FooX', get_type='foo_x_get_type', c_symbol_prefix='x'), k, m)
        ns.append(n)
        return ns, 'ns/x', [('glib:boxed', 0)]
    if k in ('record', 'union'):
        cls = ast.Record if k == 'record' else ast.Union
        n = _apply(cls('x', ctype='FooX'), k, m)
        if n.name is None:          # only anonymous members have no name: host it
            host = ast.Record('Host', ctype='FooHost')
            host.fields = [ast.Field(None, None, True, False, anonymous_node=n)]
            ns.append(host)
            return ns, 'ns/Host/field[0]/anon', [('record', 0), (k, 0)]
        ns.append(n)
        return ns, 'ns/x', [(k, 0)]
    if k in ('field', 'cbfield'):
        host = ast.Record('Host', ctype='FooHost')
        if k == 'field':
            f = _apply(ast.Field('x', ast.TYPE_INT.clone(), True, False), k, m)
        else:
            f = _apply(ast.Field('x', None, True, False, anonymous_node=ast.Callback('x', _ret(), [], False, ctype='x')), k, m)
        host.fields = [f]
        ns.append(host)
        return ns, 'ns/Host/field[0]', [('record', 0), ('field', 0)]
    raise ValueError('unknown kind ' + k)


TYPE_TAGS = ('type', 'array', 'varargs')


def locate(tree, locator):
    """girabs tree -> (element, parent) following [(tag, index among same-tag siblings)]; 'TYPE' = type|array|varargs,
    'function*' = function|function-inline, 'method*' = method|method-inline"""
    node, parent = S.namespace_of(tree), tree
    if locator == [('namespace', None)]:
        return tree, None
    for tag, idx in locator:
        tags = TYPE_TAGS if tag == 'TYPE' else (tag[:-1], tag[:-1] + '-inline') if tag.endswith('*') else (tag,)
        cands = [c for c in node['children'] if c['tag'] in tags]
        if idx >= len(cands):
            return None, node
        parent, node = node, cands[idx]
    return node, parent


def project_xml(el, parent, kind, attrs):
    """the attributes / child elements of the vocabulary, copied from the written XML"""
    x = {}
    if el is None:
        return {a: ['n', ''] for a in attrs}
    a_ = el['attrs']
    kids = el['children']

    def kid(tag):
        return S.child(el, tag)
    if kind == 'namespace':
        nsel = S.namespace_of(el)
        for a in attrs:
            if a == '<include>':
                v = ','.join('%s-%s' % (c['attrs'].get('name'), c['attrs'].get('version')) for c in S.children(el, 'include'))
            elif a == '<package>':
                v = ','.join(c['attrs'].get('name') for c in S.children(el, 'package'))
            elif a == '<c:include>':
                v = ','.join(c['attrs'].get('name') for c in S.children(el, 'c:include'))
            elif a == '<doc:format>':
                d = [c for c in el['children'] if c['tag'].endswith('format')]
                v = d[0]['attrs'].get('name') if d else None
            else:
                v = nsel['attrs'].get(a)
            x[a] = enc(v)
        return x
    for a in attrs:
        if a == '<tag>':
            v = el['tag'] + ('@container' if el['tag'] == 'function' and parent is not None and parent['tag'] != 'namespace' else '')
        elif a == '<attribute>':
            v = ';'.join('%s=%s' % (c['attrs'].get('name'), c['attrs'].get('value')) for c in S.children(el, 'attribute')) or None
        elif a == '<children>':
            v = str(len(kids))
        elif a == '<value>':
            v = None
            if len(kids) > 1:
                c = kids[1]
                v = 'array' if c['tag'] == 'array' else 'list' if c['attrs'].get('name') in ('GLib.List', 'GLib.SList') else 'type'
        elif a.startswith('<') and '@' in a:
            tag, attr = a[1:].split('>@')
            c = kid(tag)
            v = None if c is None else c['attrs'].get(attr)
        elif a.startswith('<'):
            tag = a[1:-1]
            cs = S.children(el, tag)
            if tag in ('doc', 'doc-version', 'doc-deprecated', 'doc-stability'):
                v = cs[0]['rawtext'] if cs else None
            elif tag in ('implements', 'prerequisite'):
                v = ','.join(c['attrs'].get('name', '') for c in cs)
            else:
                if tag == 'method':
                    cs = cs + S.children(el, 'method-inline')
                v = str(len(cs))
        else:
            v = a_.get(a)
        x[a] = enc(v)
    return x


def girabs_raw(xml_bytes):
    """like scan.girabs but keeps the unstripped text of leaf elements (documentation is whitespace-exact)"""
    import xml.etree.ElementTree as ET

    def conv(e):
        return dict(tag=S._q(e.tag), attrs={S._q(k): v for k, v in e.attrib.items()}, children=[conv(c) for c in e],
                    rawtext=e.text if len(e) == 0 else None)
    return conv(ET.fromstring(xml_bytes))


def conformance(case, cid, cy):
    """run one channel case on the real pair -> observation for tla/GirIOConf.tla"""
    k = case['k']
    voc = cy.voc[k]
    o = dict(id=cid, rec='chan', k=k, sec=case['sec'], m=case['m'], x={}, r={}, h1='', h2='', err='', found=True)
    try:
        ns, path, locator = instantiate(case)
        x1 = GIRWriter(ns).get_encoded_xml()
        o['h1'] = sha(x1)
        el, parent = locate(girabs_raw(x1), locator)
        o['found'] = el is not None
        o['x'] = project_xml(el, parent, k, voc['attrs'])
        ns2 = read_gir(cy._file(x1))
        back = {p: (kk, obj, ctx) for p, kk, obj, ctx in walk(ns2)}
        if k == 'namespace':
            path = 'ns'
        hit = back.get(path)
        if hit is None and k == 'function':      # keyed by symbol, which may itself be the field under test
            cands = [p for p in back if back[p][0] == 'function' and p.count('/') == path.count('/')]
            hit = back[cands[0]] if cands else None
        if hit is not None:
            p_ = path if path in back else cands[0]
            o['r'] = {f: enc(get_field(hit[1], k, f, p_, hit[2])) for f in voc['fields']}
        else:
            o['r'] = {}
        x2 = GIRWriter(ns2).get_encoded_xml()
        o['h2'] = sha(x2)
    except (Exception, SystemExit) as e:
        o['err'] = _exc(e)
    return o


# ------------------------------------------------------------------------------------------------
# self-contained replay: the concrete scanner input (raw symbols, comment blocks, dump) as JSON
_RS_ATTRS = ('type', 'ident', 'const_int', 'const_string', 'const_double', 'const_boolean', 'source_filename', 'line', 'private')
_RT_ATTRS = ('type', 'name', 'type_qualifier', 'is_bitfield', 'function_specifier', 'storage_class_specifier')


def _dump_sym(s):
    if s is None:
        return None
    if isinstance(s, S.RS):
        d = {a: getattr(s, a) for a in _RS_ATTRS}
        d['base_type'] = _dump_sym(s.base_type)
        d['_'] = 'S'
        return d
    d = {a: getattr(s, a) for a in _RT_ATTRS}
    d['base_type'] = _dump_sym(s.base_type)
    d['child_list'] = [_dump_sym(c) for c in s.child_list]
    d['_'] = 'T'
    return d


def _load_sym(d):
    if d is None:
        return None
    if d['_'] == 'S':
        s = S.RS(d['type'], d['ident'])
        for a in _RS_ATTRS:
            setattr(s, a, d[a])
        s.base_type = _load_sym(d['base_type'])
        return s
    t = S.RT(d['type'])
    for a in _RT_ATTRS:
        setattr(t, a, d[a])
    t.base_type = _load_sym(d['base_type'])
    t.child_list = [_load_sym(c) for c in d['child_list']]
    return t


def dump_spec(spec):
    return dict(symbols=[_dump_sym(s) for s in spec['symbols']], comments=[list(c) for c in spec['comments']],
                dump_xml=spec['dump_xml'], options=spec['options'])


def load_spec(d):
    return dict(symbols=[_load_sym(s) for s in d['symbols']], comments=[tuple(c) for c in d['comments']],
                dump_xml=d['dump_xml'], options=d['options'])

"""C01 helper: abstract case (schema of tla/Annotate.tla) -> symgen symbols + GTK-Doc comment text,
and GIR -> projected observation.  No decisions are taken here: rendering and projection only.

Abstract case (JSON, identical to the records TLC enumerates in tla/AnnotateCases.tla):
  {"id": str, "kind": "function"|"method"|"callback", "throws": bool,
   "ret": VALUE, "params": [VALUE, ...]}
  VALUE = {"ck": ckind, "ptr": int (number of '*' in the C declaration), "const": bool,
           "ud": bool (parameter name ends in "data"), "ann": ANN}
  ANN   = {"transfer": ""|"none"|"container"|"full"|"floating",
           "dir": ""|"in"|"out"|"inout"|"outcaller"|"outcallee",
           "nullable": bool, "optional": bool, "allownone": bool, "notn": ""|"nullable"|"optional",
           "skip": bool, "array": bool, "alen": int (0 = none, k = k-th C parameter of the case),
           "afixed": int (-1 = none), "azt": ""|"bare"|"0"|"1", "et": [spelling, ...], "type": ""|spelling,
           "scope": ""|"call"|"async"|"notified"|"forever", "closure": int (-1 none, 0 bare, k = k-th parameter),
           "destroy": int (0 none, k), "attrs": ""|"kv"|"k"}
Parameter k of the case is called p<k> (p<k>_data when "ud"); methods get an additional leading
`FooObj *self`, throwing callables a trailing `GError **error`; neither is part of "params".

Declaration shapes that the scanner emits TWICE (kind "method", extra fields "shape" and "copy"):
  shape "movedto": `foo_recs_c<N>(FooRec *self, ...)` -- starts with the type prefix foo_rec but not with foo_rec_, so
      the scanner keeps the <function> (copy 2: self is its parameter 0) and adds a <method moved-to=...> to FooRec
      (copy 1: self is the instance parameter);
  shape "vfunc":   the slot `(*c<N>)(FooObj *self, ...)` of the class structure _FooObjClass, documented by the block
      FooObjClass::c<N> -- emitted as <virtual-method> of FooObj (copy 1) and as <field><callback> of the class
      structure (copy 2: self is parameter 0).
An index attribute (closure, destroy, array length) counts positions among the <parameter>s of THAT element.
"""
import re

from . import scan as S

CK_BASE = {
    'void': 'void', 'int': 'int', 'bool': 'gboolean', 'double': 'double', 'char': 'char', 'gpointer': 'gpointer',
    'enumT': 'FooEnum', 'flagsT': 'FooFlags', 'recordT': 'FooRec', 'boxedT': 'FooBox', 'unionT': 'FooUni',
    'objectT': 'FooObj', 'ifaceT': 'FooIface', 'callbackT': 'FooCallback', 'GList': 'GList', 'GSList': 'GSList',
    'GHashTable': 'GHashTable', 'GArray': 'GArray', 'GPtrArray': 'GPtrArray', 'GByteArray': 'GByteArray',
    'aliasT': 'FooInt', 'gvariant': 'GVariant', 'gclosure': 'GClosure', 'destroyNotify': 'GDestroyNotify',
    'asyncReady': 'GAsyncReadyCallback', 'unknownT': 'FooUnknown', 'cancellable': 'GCancellable',
}
ANN_FIELDS = ['transfer', 'dir', 'nullable', 'optional', 'allownone', 'notn', 'skip', 'array', 'alen', 'afixed',
              'azt', 'et', 'type', 'scope', 'closure', 'destroy', 'attrs']
EMPTY_ANN = dict(transfer='', dir='', nullable=False, optional=False, allownone=False, notn='', skip=False,
                 array=False, alen=0, afixed=-1, azt='', et=[], type='', scope='', closure=-1, destroy=0, attrs='')
# annotation groups whose "left unchanged" clause needs the same case scanned without them
WO_GROUPS = {
    'transfer': ['transfer'], 'nullable': ['nullable'], 'optional': ['optional'], 'allownone': ['allownone'],
    'scope': ['scope'], 'closure': ['closure'], 'destroy': ['destroy'], 'et': ['et'],
}
WO_ORDER = ['transfer', 'nullable', 'optional', 'allownone', 'scope', 'closure', 'destroy', 'et']


def ann(**kw):
    a = dict(EMPTY_ANN)
    a['et'] = []
    a.update(kw)
    return a


def value(ck, ptr=0, const=False, ud=False, **kw):
    return dict(ck=ck, ptr=ptr, const=const, ud=ud, ann=ann(**kw))


def normalize(case):
    """fill defaults so that hand-written / replayed cases have every field"""
    def nv(v):
        a = dict(EMPTY_ANN)
        a['et'] = []
        a.update(v.get('ann', {}))
        a['et'] = list(a['et'])
        return dict(ck=v['ck'], ptr=int(v.get('ptr', 0)), const=bool(v.get('const', False)), ud=bool(v.get('ud', False)), ann=a)
    return dict(id=case['id'], kind=case['kind'], throws=bool(case.get('throws', False)),
                ret=nv(case['ret']), params=[nv(p) for p in case['params']],
                shape=case.get('shape', 'plain'), copy=int(case.get('copy', 1)))


def pname(case, k):
    return 'p%d%s' % (k, '_data' if case['params'][k - 1]['ud'] else '')


def ctext(v):
    return ('const ' if v['const'] else '') + CK_BASE[v['ck']] + ' ' + '*' * v['ptr']


def ann_text(case, a):
    out = []
    if a['type']:
        out.append('(type %s)' % a['type'])
    if a['dir']:
        out.append({'in': '(in)', 'out': '(out)', 'inout': '(inout)', 'outcaller': '(out caller-allocates)',
                    'outcallee': '(out callee-allocates)'}[a['dir']])
    if a['transfer']:
        out.append('(transfer %s)' % a['transfer'])
    if a['array'] or a['alen'] or a['afixed'] >= 0 or a['azt']:
        opts = []
        if a['alen']:
            opts.append('length=%s' % pname(case, a['alen']))
        if a['afixed'] >= 0:
            opts.append('fixed-size=%d' % a['afixed'])
        if a['azt']:
            opts.append('zero-terminated' if a['azt'] == 'bare' else 'zero-terminated=%s' % a['azt'])
        out.append('(array%s)' % ''.join(' ' + o for o in opts))
    if a['et']:
        out.append('(element-type %s)' % ' '.join(a['et']))
    if a['nullable']:
        out.append('(nullable)')
    if a['optional']:
        out.append('(optional)')
    if a['allownone']:
        out.append('(allow-none)')
    if a['notn']:
        out.append('(not %s)' % a['notn'])
    if a['skip']:
        out.append('(skip)')
    if a['scope']:
        out.append('(scope %s)' % a['scope'])
    if a['closure'] == 0:
        out.append('(closure)')
    elif a['closure'] > 0:
        out.append('(closure %s)' % pname(case, a['closure']))
    if a['destroy'] > 0:
        out.append('(destroy %s)' % pname(case, a['destroy']))
    if a['attrs'] == 'kv':
        out.append('(attributes c01.key=val c01.other=x)')
    elif a['attrs'] == 'k':
        out.append('(attributes c01.key)')
    return ' '.join(out)


LINES_PER_CALLABLE = 40
CFILE = '/src/foo.c'


def symbol_name(case, n):
    """key of the emitted element in index_callables()"""
    shape = case.get('shape', 'plain')
    if shape == 'movedto':
        return ('M:foo_recs_c%d' if case.get('copy', 1) == 1 else 'foo_recs_c%d') % n
    if shape == 'vfunc':
        return ('V:c%d' if case.get('copy', 1) == 1 else 'F:c%d') % n
    return {'function': 'foo_c%d', 'method': 'foo_obj_c%d', 'callback': 'FooC%d'}[case['kind']] % n


def is_member(case):
    return case.get('shape', 'plain') == 'vfunc'


def render(case, n):
    """-> (symbol, (comment text, file, line), {value index (0 = return): comment line})"""
    shape = case.get('shape', 'plain')
    name = {'movedto': 'foo_recs_c%d' % n, 'vfunc': 'FooObjClass::c%d' % n}.get(shape) or symbol_name(case, n)
    params = []
    if case['kind'] == 'method':
        params.append(('FooRec *' if shape == 'movedto' else 'FooObj *', 'self'))
    for k, p in enumerate(case['params'], 1):
        params.append((ctext(p), pname(case, k)))
    if case['throws']:
        params.append(('GError **', 'error'))
    line0 = n * LINES_PER_CALLABLE + 1
    if shape == 'vfunc':          # a member of struct _FooObjClass (see prelude)
        sym = S.member(S.funcptr(ctext(case['ret']), params), 'c%d' % n)
    elif case['kind'] == 'callback':
        sym = S.callback(name, ctext(case['ret']), params, line=line0)
    else:
        sym = S.function(name, ctext(case['ret']), params, line=line0)
    lines = ['/**', ' * %s:' % name]
    where = {}
    if case['kind'] == 'method':
        lines.append(' * @self: the instance')
    for k, p in enumerate(case['params'], 1):
        where[k] = line0 + len(lines)
        t = ann_text(case, p['ann'])
        lines.append(' * @%s: %sparameter %d' % (pname(case, k), t + ': ' if t else '', k))
    if case['throws']:
        lines.append(' * @error: error location')
    lines.append(' *')
    lines.append(' * Description.')
    t = ann_text(case, case['ret']['ann'])
    if case['ret']['ck'] != 'void' or t:
        lines.append(' *')
        where[0] = line0 + len(lines)
        lines.append(' * Returns: %sthe result' % (t + ': ' if t else ''))
    lines.append(' */')
    assert len(lines) < LINES_PER_CALLABLE
    return sym, ('\n'.join(lines), CFILE, line0), where


def prelude(slots=()):
    """slots: members (virtual slots) of the class structure of FooObj"""
    return [
        S.typedef_struct('FooObj', '_FooObj'), S.struct_def('_FooObj', [('GObject', 'parent_instance')]),
        S.typedef_struct('FooObjClass', '_FooObjClass'),
        S.struct_def('_FooObjClass', [('GObjectClass', 'parent_class')] + list(slots)),
        S.function('foo_obj_get_type', 'GType', []),
        S.typedef_struct('FooIface', '_FooIface'),
        S.typedef_struct('FooIfaceInterface', '_FooIfaceInterface'),
        S.struct_def('_FooIfaceInterface', [('GTypeInterface', 'g_iface')]),
        S.function('foo_iface_get_type', 'GType', []),
        S.typedef_struct('FooBox', '_FooBox'), S.struct_def('_FooBox', [('int', 'x')]),
        S.function('foo_box_get_type', 'GType', []),
        S.typedef_struct('FooRec', '_FooRec'), S.struct_def('_FooRec', [('int', 'x')]),
        S.typedef_struct('FooUni', '_FooUni', union=True), S.struct_def('_FooUni', [('int', 'x'), ('double', 'y')], union=True),
        S.typedef_enum('FooEnum', [('FOO_ENUM_A', 0), ('FOO_ENUM_B', 1)]),
        S.typedef_enum('FooFlags', [('FOO_FLAGS_A', 1), ('FOO_FLAGS_B', 2)], bitfield=True),
        S.callback('FooCallback', 'void', [('int', 'x'), ('gpointer', 'user_data')]),
        S.alias('FooInt', 'int'),
    ]


DUMP = ('<?xml version="1.0"?><dump>'
        '<class name="FooObj" get-type="foo_obj_get_type" parents="GObject"></class>'
        '<interface name="FooIface" get-type="foo_iface_get_type"></interface>'
        '<boxed name="FooBox" get-type="foo_box_get_type"/>'
        '</dump>')

WARN_PATTERNS = [
    (re.compile(r'invalid "([\w-]+)" annotation'), None),
    (re.compile(r'"(element-type)" annotation for'), None),
    (re.compile(r'for (element-type) annotation'), None),
    (re.compile(r'invalid \((element-type)\)'), None),
    (re.compile(r'unexpected annotation: ([\w-]+)'), None),
    (re.compile(r'unknown annotation: ([\w-]+)'), None),
    (re.compile(r'invalid (return) annotation'), None),
    (re.compile(r'(Unknown type):'), 'unknown-type'),
    (re.compile(r'cannot have (both)'), 'conflict'),
    (re.compile(r'"([\w-]+)" annotation (?:needs|takes)'), None),
]


def warned_names(texts):
    out = set()
    for t in texts:
        for rx, fixed in WARN_PATTERNS:
            m = rx.search(t)
            if m:
                out.add(fixed or m.group(1))
    return sorted(out)


def _tyname(node):
    if node['tag'] == 'array':
        return 'array'
    if node['tag'] == 'varargs':
        return 'varargs'
    return node['attrs'].get('name', '')


ABSENT_OUT = dict(present=False, idx=-1, transfer='', direction='in', callerAllocates='', nullable=False,
                  allowNone=False, optional=False, skip=False, scope='', closure=-1, destroy=-1, tkind='missing',
                  tname='', alen=-1, afixed=-1, azt='', elems=[], attrs=[])


def project_value(node, idx):
    """<parameter>/<instance-parameter>/<return-value> element (girabs dict) -> out record"""
    a = node['attrs']
    o = dict(ABSENT_OUT)
    o.update(present=True, idx=idx, transfer=a.get('transfer-ownership', ''), direction=a.get('direction', 'in'),
             callerAllocates=a.get('caller-allocates', ''), nullable=a.get('nullable') == '1',
             allowNone=a.get('allow-none') == '1', optional=a.get('optional') == '1', skip=a.get('skip') == '1',
             scope=a.get('scope', ''), closure=int(a.get('closure', '-1')), destroy=int(a.get('destroy', '-1')))
    o['attrs'] = sorted([c['attrs'].get('name', ''), c['attrs'].get('value', '')]
                        for c in node['children'] if c['tag'] == 'attribute')
    ty = [c for c in node['children'] if c['tag'] in ('type', 'array', 'varargs')]
    o['elems'] = []
    if ty:
        t = ty[0]
        o['tkind'] = t['tag']
        o['tname'] = t['attrs'].get('name', '')
        if t['tag'] == 'array':
            o['alen'] = int(t['attrs'].get('length', '-1'))
            o['afixed'] = int(t['attrs'].get('fixed-size', '-1'))
            o['azt'] = t['attrs'].get('zero-terminated', '')
        o['elems'] = [_tyname(c) for c in t['children'] if c['tag'] in ('type', 'array')]
    return o


def index_callables(tree):
    """GIR tree -> {c identifier / c:type: element} for function, method, callback elements"""
    out = {}

    def walk(n, owner):
        if n['tag'] in ('function', 'method', 'constructor'):
            cid = n['attrs'].get('c:identifier')
            if cid and n['attrs'].get('moved-to'):
                out.setdefault('M:' + cid, n)     # the compatibility method next to the function it was made from
            elif cid:
                out.setdefault(cid, n)
        elif n['tag'] == 'virtual-method':
            out.setdefault('V:' + n['attrs'].get('name', ''), n)
        elif n['tag'] == 'callback':
            ct = n['attrs'].get('c:type')
            if ct:
                out.setdefault(ct, n)
            elif owner is not None and owner['tag'] == 'field':
                out.setdefault('F:' + owner['attrs'].get('name', ''), n)     # slot of a (class) structure
        for c in n['children']:
            walk(c, n)
    walk(tree, None)
    return out


def project_callable(case, el):
    """-> (list of out records: index 0 = return, k = parameter k; callable-level info)"""
    outs = [dict(ABSENT_OUT, elems=[], attrs=[]) for _ in range(len(case['params']) + 1)]
    info = dict(found=el is not None, tag='', introspectable=True, throws=False, nparams=0, instance=False)
    if el is None:
        return outs, info
    info.update(tag=el['tag'], introspectable=el['attrs'].get('introspectable', '1') != '0',
                throws=el['attrs'].get('throws') == '1')
    rv = S.child(el, 'return-value')
    if rv is not None:
        outs[0] = project_value(rv, -1)
    ps = S.child(el, 'parameters')
    byname = {}
    if ps is not None:
        i = 0
        for c in ps['children']:
            if c['tag'] == 'instance-parameter':
                info['instance'] = True
                byname[c['attrs'].get('name')] = (c, -1)
            elif c['tag'] == 'parameter':
                byname[c['attrs'].get('name')] = (c, i)
                i += 1
        info['nparams'] = i
    for k in range(1, len(case['params']) + 1):
        hit = byname.get(pname(case, k))
        if hit:
            outs[k] = project_value(hit[0], hit[1])
    info['errorEmitted'] = 'error' in byname
    info['selfEmitted'] = 'self' in byname and byname['self'][1] >= 0
    return outs, info

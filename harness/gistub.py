"""Import giscanner from /repo's working tree without the compiled C lexer extension.

giscanner._giscanner (flex/bison/GLib) cannot be built in this sandbox.  Everything the Python
pipeline needs from it is the SourceScanner class object (never instantiated by the harness);
Transformer.parse() is fed SourceSymbol wrappers around plain Python objects (see symgen.py).
"""
import builtins, os, sys, types

from .common import REPO


def install(disable_cache=True):
    if REPO not in sys.path:
        sys.path.insert(0, REPO)
    if 'giscanner._giscanner' not in sys.modules:
        m = types.ModuleType('giscanner._giscanner')
        m.SourceScanner = type('SourceScanner', (), {})
        sys.modules['giscanner._giscanner'] = m
    if disable_cache:
        os.environ['GI_SCANNER_DISABLE_CACHE'] = '1'
    else:
        os.environ.pop('GI_SCANNER_DISABLE_CACHE', None)
    builtins.__dict__.setdefault('DATADIR', '/nonexistent-datadir')
    builtins.__dict__.setdefault('GIR_DIR', '/nonexistent-girdir')

"""tlcases -- turns the abstract cases TLC exports (tla/TypelibCases.tla) and seeded random cases of the same
schema into abstract GIR documents (harness/tlgir.py).  Names inside TLC's cases are placeholders; every case gets
unique names here.  No oracle lives here: documents in, documents out."""
import copy

from . import tlgir as T


def _int_of(v):
    n = sum(l << (16 * k) for k, l in enumerate(v['l']))
    return -n if v['neg'] else n


def _filler_args():
    return [T.mk_arg('user_data', type=T.basic('gpointer')), T.mk_arg('n', type=T.INT32)]


def _base_doc(extra=()):
    d = T.new_doc()
    d['entries'] = T.env_entries() + list(extra)
    return d


def _support_entries():
    """entries the header-level cases refer to"""
    base = T.mk_class('Base')
    ocl = T.mk_struct('record', 'OClass', gtype_struct_for='Base')
    iif = T.mk_struct('record', 'IIface', gtype_struct_for='I0')
    return [base, ocl, iif] + [T.mk_iface('I%d' % k) for k in range(4)]


def chunks(seq, n):
    for i in range(0, len(seq), n):
        yield i // n, seq[i:i + n]


def docs_from_cases(cases, chunk=300, families=None):
    """-> list of (docid, doc, meta) ; meta = {'family':..., 'cases': n, 'types': bool}"""
    out = []
    fam = lambda f: families is None or f in families

    if fam('arg'):
        for ci, part in chunks(cases['arg'], chunk):
            d = _base_doc()
            for i, g in enumerate(part):
                a = dict(g)
                d['entries'].append(T.mk_function('function', 'fa%d' % i, [a] + _filler_args()))
            out.append(('arg%d' % ci, d, dict(family='arg', cases=len(part), types=False, focus=dict(kinds=['arg'], names=['a']))))

    if fam('type'):
        for ci, part in chunks(cases['type'], chunk):
            d = _base_doc()
            for i, c in enumerate(part):
                t, ctx = c['type'], c['ctx']
                if ctx['field']:
                    r = T.mk_struct('record', 'Rt%d' % i)
                    r['fields'] = [T.mk_field('n0'), T.mk_field('n1'), T.mk_field('n2'), T.mk_field('t', type=t)]
                    d['entries'].append(r)
                else:
                    a = T.mk_arg('t', dir='out' if ctx['out'] else '', type=t, transfer='none')
                    d['entries'].append(T.mk_function('function', 'ft%d' % i, [T.mk_arg('n0'), T.mk_arg('n1'), T.mk_arg('n2'), a]))
            out.append(('type%d' % ci, d, dict(family='type', cases=len(part), types=True, focus=dict(kinds=['type', 'arg', 'field'], names=['t']))))

    if fam('sig'):
        for ci, part in chunks(cases['sig'], chunk):
            rec = T.mk_struct('record', 'SigRec')
            obj = T.mk_class('SigObj')
            d = _base_doc([rec, obj])
            for i, g in enumerate(part):
                args = [T.mk_arg(n) for n in g['params']]
                kw = dict(transfer=g['transfer'], nullable=g['nullable'], allow_none=g['allow_none'], skip=g['skip'], inst=g['inst'],
                          rtype=g['rtype'])
                k = g['ckind']
                if k == 'function':
                    d['entries'].append(T.mk_function('function', 'fs%d' % i, args, throws=g['throws'], **kw))
                elif k in ('method', 'constructor'):
                    rec['methods'].append(T.mk_function(k, 'ms%d' % i, args, throws=g['throws'], **kw))
                elif k == 'callback':
                    kw.pop('inst')
                    d['entries'].append(T.mk_callback('Cs%d' % i, args, throws=g['throws'], **kw))
                elif k == 'signal':
                    obj['signals'].append(T.mk_signal('ss%d' % i, args, **kw))
                elif k == 'vfunc':
                    obj['vfuncs'].append(T.mk_vfunc('vs%d' % i, args, throws=g['throws'], **kw))
            out.append(('sig%d' % ci, d, dict(family='sig', cases=len(part), types=False, focus=dict(kinds=['sig']))))

    if fam('function'):
        for ci, part in chunks(cases['function'], chunk):
            obj = T.mk_class('FnObj')
            obj['properties'] = [T.mk_property(n) for n in ('pa', 'pb', 'pc')]
            d = _base_doc([obj])
            for i, g in enumerate(part):
                f = T.mk_function(g['ckind'], 'f%d' % i, [], cid='tst_f%d' % i, shadows=('g%d' % i) if g['shadows'] else '',
                                  deprecated=g['deprecated'], throws=g['throws'], setprop=g['setprop'], getprop=g['getprop'],
                                  rtype=T.ref('', 'FnObj') if g['ckind'] == 'constructor' else None,
                                  transfer='full' if g['ckind'] == 'constructor' else 'none')
                obj['methods'].append(f)
            out.append(('fn%d' % ci, d, dict(family='function', cases=len(part), types=False, focus=dict(kinds=['function', 'object']))))

    if fam('property'):
        for ci, part in chunks(cases['property'], chunk):
            obj = T.mk_class('PrObj')
            obj['methods'] = [T.mk_function('method', n) for n in ('ma', 'mb', 'mc')]
            d = _base_doc([obj])
            for i, g in enumerate(part):
                p = T.mk_property('p%d' % i, type=g['type'], **{k: g[k] for k in ('readable', 'writable', 'construct', 'construct_only',
                                                                               'transfer', 'setter', 'getter', 'deprecated')})
                obj['properties'].append(p)
            out.append(('prop%d' % ci, d, dict(family='property', cases=len(part), types=False, focus=dict(kinds=['property', 'object']))))

    if fam('signal'):
        for ci, part in chunks(cases['signal'], chunk):
            obj = T.mk_class('SgObj')
            d = _base_doc([obj])
            for i, g in enumerate(part):
                obj['signals'].append(T.mk_signal('s%d' % i, [], **{k: g[k] for k in ('when', 'no_recurse', 'detailed', 'action',
                                                                                  'no_hooks', 'deprecated')}))
            out.append(('signal%d' % ci, d, dict(family='signal', cases=len(part), types=False, focus=dict(kinds=['signal', 'object']))))

    if fam('vfunc'):
        obj = T.mk_class('VfObj')
        obj['methods'] = [T.mk_function('method', n) for n in ('ma', 'mb', 'mc')]
        d = _base_doc([obj])
        for i, g in enumerate(cases['vfunc']):
            obj['vfuncs'].append(T.mk_vfunc('v%d' % i, [], invoker=g['invoker'], offset=g['offset'], throws=g['throws']))
        out.append(('vfunc0', d, dict(family='vfunc', cases=len(cases['vfunc']), types=False, focus=dict(kinds=['vfunc', 'object']))))

    if fam('field'):
        for ci, part in chunks(cases['field'], 120):
            rec = T.mk_struct('record', 'FlRec')
            obj = T.mk_class('FlObj')
            d = _base_doc([rec, obj])
            for i, g in enumerate(part):
                tgt = rec if i % 2 == 0 else obj
                cb = T.mk_callback('f%d' % i, [T.mk_arg('x')]) if g['cb'] else None
                f = T.mk_field('f%d' % i, type=g['type'], callback=cb, readable=g['readable'], writable=g['writable'], bits=g['bits'],
                               intro=g['intro'])
                tgt['fields'].append(f)
            out.append(('field%d' % ci, d, dict(family='field', cases=len(part), types=False, focus=dict(kinds=['field', 'struct', 'object', 'callback']))))

    if fam('value'):
        en = T.mk_enum('enumeration', 'ValEn')
        fl = T.mk_enum('bitfield', 'ValFl', gtype_name='TstValFl', gtype_init='tst_val_fl_get_type')
        d = _base_doc([en, fl])
        for i, g in enumerate(cases['value']):
            for tgt in (en, fl):
                tgt['values'].append(T.mk_value('v%d' % i, _int_of(g['v']), deprecated=g['deprecated'], cid='TST_V%d' % i))
        out.append(('value0', d, dict(family='value', cases=2 * len(cases['value']), types=False, focus=dict(kinds=['value', 'enum']))))

    if fam('object'):
        for ci, part in chunks(cases['object'], chunk):
            d = _base_doc(_support_entries())
            for i, g in enumerate(part):
                kw = {k: copy.deepcopy(g[k]) for k in g if k not in ('name', 'gtype_name', 'gtype_init')}
                d['entries'].append(T.mk_class('O%d' % i, **kw))
            out.append(('object%d' % ci, d, dict(family='object', cases=len(part), types=False, focus=dict(kinds=['object']))))

    if fam('interface'):
        d = _base_doc(_support_entries())
        for i, g in enumerate(cases['interface']):
            kw = {k: copy.deepcopy(g[k]) for k in g if k not in ('name', 'gtype_name', 'gtype_init')}
            d['entries'].append(T.mk_iface('If%d' % i, **kw))
        out.append(('iface0', d, dict(family='interface', cases=len(cases['interface']), types=False, focus=dict(kinds=['interface']))))

    if fam('struct'):
        d = _base_doc(_support_entries())
        for i, g in enumerate(cases['struct']):
            kw = {k: g[k] for k in g if k not in ('name', 'tag', 'gtype_name', 'gtype_init')}
            if g['gtype_name']:
                kw.update(gtype_name='TstS%d' % i, gtype_init='tst_s%d_get_type' % i)
            d['entries'].append(T.mk_struct(g['tag'], 'S%d' % i, **kw))
        out.append(('struct0', d, dict(family='struct', cases=len(cases['struct']), types=False, focus=dict(kinds=['struct']))))

    if fam('enum'):
        d = _base_doc()
        for i, g in enumerate(cases['enum']):
            kw = {k: g[k] for k in g if k not in ('name', 'tag', 'gtype_name', 'gtype_init')}
            if g['gtype_name']:
                kw.update(gtype_name='TstE%d' % i, gtype_init='tst_e%d_get_type' % i)
            e = T.mk_enum(g['tag'], 'E%d' % i, **kw)
            e['values'].append(T.mk_value('one', 1, cid='TST_E%d_ONE' % i))
            d['entries'].append(e)
        for i, g in enumerate(cases['callback']):
            d['entries'].append(T.mk_callback('Cb%d' % i, [], deprecated=g['deprecated']))
        out.append(('enum0', d, dict(family='enum', cases=len(cases['enum']) + len(cases['callback']), types=False, focus=dict(kinds=['enum', 'callback']))))

    if fam('constant'):
        d = _base_doc()
        obj = T.mk_class('CoObj')
        ifc = T.mk_iface('CoIf')
        d['entries'] += [obj, ifc]
        for i, g in enumerate(cases['constant']):
            t = T.basic(g['t'])
            d['entries'].append(T.mk_constant('C%d' % i, t, g['text'], deprecated='1' if i % 7 == 3 else ''))
            (obj if i % 2 else ifc)['constants'].append(T.mk_constant('K%d' % i, t, g['text']))
        out.append(('const0', d, dict(family='constant', cases=2 * len(cases['constant']), types=True, focus=dict(kinds=['constant', 'type']))))

    if fam('doc'):
        for i, g in enumerate(cases['doc']):
            d = T.new_doc(version=g['version'], shlib=g['shlib'], cprefix=g['cprefix'], includes=g['includes'])
            incs = [n for n, _ in g['includes']]
            d['entries'].append(T.mk_function('function', 'f', [T.mk_arg('a')]))
            if 'GLib' in incs:
                d['entries'].append(T.mk_function('function', 'gb', [T.mk_arg('b', type=T.ref('GLib', 'Bytes'))]))
            if 'GObject' in incs:
                d['entries'].append(T.mk_class('Obj', parent=dict(ns='GObject', n='Object')))
                d['entries'].append(T.mk_function('function', 'gv', [T.mk_arg('v', type=T.ref('GObject', 'Value')),
                                                                    T.mk_arg('q', type=T.ref('GLib', 'Quark', 0))]))
            out.append(('doc%d' % i, d, dict(family='doc', cases=1, types=False)))
    return out


# ----------------------------------------------------------------------------- container shapes
def shape_entry(kind, c, name):
    """one container with the member counts of shape c = [ni, cbs, np, nm, ns, nv, nc, nvals]; members are written
    interleaved (round robin over the sections) so that the compiler's grouping by kind is exercised"""
    secs = {}
    if kind == 'enum':
        e = T.mk_enum('enumeration' if len(name) % 2 else 'bitfield', name)
        e['values'] = [T.mk_value('v%d' % i, i + 1, cid='TST_%s_V%d' % (name.upper(), i)) for i in range(c['nvals'])]
        e['methods'] = [T.mk_function('function', 'm%d' % i, cid='tst_%s_m%d' % (name.lower(), i)) for i in range(c['nm'])]
        return e
    if kind in ('struct', 'union'):
        e = T.mk_struct('record' if kind == 'struct' else 'union', name)
    elif kind == 'object':
        e = T.mk_class(name, interfaces=[dict(ns='', n='J%d' % i) for i in range(c['ni'])])
    else:
        e = T.mk_iface(name, prerequisites=[dict(ns='', n='J%d' % i) for i in range(c['ni'])])
    if kind != 'interface':
        for i, cb in enumerate(c['cbs']):
            e['fields'].append(T.mk_field('f%d' % i, callback=T.mk_callback('f%d' % i, [T.mk_arg('x')]) if cb else None))
    e['methods'] = [T.mk_function('method', 'm%d' % i, cid='tst_%s_m%d' % (name.lower(), i)) for i in range(c['nm'])]
    if kind in ('object', 'interface'):
        e['properties'] = [T.mk_property('p%d' % i) for i in range(c['np'])]
        e['signals'] = [T.mk_signal('s%d' % i, [T.mk_arg('x')]) for i in range(c['ns'])]
        e['vfuncs'] = [T.mk_vfunc('v%d' % i) for i in range(c['nv'])]
        e['constants'] = [T.mk_constant('K%d' % i, T.INT32, str(i)) for i in range(c['nc'])]
    order = []
    names = [s for s in ('constants', 'vfuncs', 'signals', 'methods', 'properties', 'fields') if e.get(s)]
    k = 0
    while any(k < len(e[s]) for s in names):
        for s in names:
            if k < len(e[s]):
                order.append((s, k))
        k += 1
    e['order'] = order
    return e


def random_shapes(rng, n, maxcnt=3):
    """seeded container shapes beyond the exhaustive bound, same schema as TypelibMC!Shapes"""
    out = dict(object=[], interface=[], struct=[], union=[], enum=[])
    for _ in range(n):
        k = rng.choice(['object', 'object', 'object', 'interface', 'interface', 'struct', 'union', 'enum'])
        c = dict(ni=0, cbs=[], np=0, nm=0, ns=0, nv=0, nc=0, nvals=0)
        cnt = lambda: rng.randint(0, maxcnt)
        if k in ('object', 'interface'):
            c.update(ni=cnt(), np=cnt(), nm=cnt(), ns=cnt(), nv=cnt(), nc=cnt())
        if k in ('object', 'struct', 'union'):
            c['cbs'] = [rng.random() < 0.4 for _ in range(cnt())]
        if k in ('struct', 'union'):
            c['nm'] = cnt()
        if k == 'enum':
            c.update(nvals=cnt(), nm=cnt())
        out[k].append(c)
    return out


def docs_from_shapes(shapes, chunk=400, prefix='shape'):
    out = []
    allsh = [(k, c) for k in ('object', 'interface', 'struct', 'union', 'enum') for c in shapes.get(k, [])]
    for ci, part in chunks(allsh, chunk):
        d = _base_doc([T.mk_iface('J%d' % k) for k in range(4)])
        for i, (k, c) in enumerate(part):
            d['entries'].append(shape_entry(k, c, 'Sh%s%d' % (k[0].upper(), i)))
        out.append(('%s%d' % (prefix, ci), d, dict(family='shape', cases=len(part), types=False,
                                          focus=dict(kinds=['object', 'interface', 'struct', 'enum', 'field', 'callback']))))
    return out


# ----------------------------------------------------------------------------- seeded random documents
BASIC_NAMES = ['none', 'gpointer', 'gboolean', 'gint8', 'guint8', 'gint16', 'guint16', 'gint32', 'guint32', 'gint64', 'guint64',
               'gfloat', 'gdouble', 'GType', 'utf8', 'filename', 'gunichar', 'gchar', 'guchar', 'gshort', 'gushort', 'gint', 'guint',
               'glong', 'gulong', 'gssize', 'gsize', 'gintptr', 'guintptr']


class RandomDocs(object):
    def __init__(self, rng):
        self.r = rng
        self.n = 0

    def uid(self, p):
        self.n += 1
        return '%s%d' % (p, self.n)

    def tri(self, p=0.3):
        x = self.r.random()
        return '1' if x < p else ('0' if x < p + 0.1 else '')

    def attrs(self, p=0.35):
        out = []
        if self.r.random() < p:
            for k in range(self.r.choice([1, 1, 2, 3])):
                out.append(dict(name='tst.%s%d' % (self.r.choice(['a', 'b', 'org.x', 'k']), k),
                                value=self.r.choice(['v', '', 'x y', '<&">', 'café', '1'])))
        return out

    def rtype(self, depth=0, refs=(), allow_none=False):
        r = self.r
        x = r.random()
        if depth >= 3 or x < 0.45:
            n = r.choice(BASIC_NAMES[(0 if allow_none else 1):])
            return T.basic(n)
        if x < 0.65 and refs:
            ns, n, stars = r.choice(refs)
            return T.ref(ns, n, stars)
        if x < 0.8:
            kind = r.choice(['', '', 'Array', 'PtrArray', 'ByteArray'])
            if kind == 'ByteArray':
                return T.array(T.basic('guint8'), 'ByteArray')
            if kind:
                return T.array(self.rtype(depth + 1, refs), kind)
            mode = r.choice(['zt', 'len', 'fixed', 'none', 'len+zt'])
            return T.array(self.rtype(depth + 1, refs), '', zt={'zt': '1', 'none': '0', 'len+zt': '1'}.get(mode, ''),
                           length=r.choice([0, 1]) if 'len' in mode else -1, fsize=r.choice([1, 4, 65535]) if mode == 'fixed' else -1)
        if x < 0.9:
            # (an untyped container nested in another one makes the compiler abort: only at the top level)
            return T.glist(r.choice(['glist', 'gslist']), self.rtype(depth + 1, refs) if (depth > 0 or r.random() < 0.8) else None)
        if x < 0.97:
            if depth > 0 or r.random() < 0.8:
                return T.ghash(T.basic('utf8'), self.rtype(depth + 1, refs))
            return T.ghash(None, None)
        return list(T.ERROR_T)

    def arg(self, name, refs):
        r = self.r
        d = r.choice(['', '', 'in', 'out', 'inout'])
        return dict(g=T.mk_arg(name, dir=d, ca=self.tri() if d == 'out' else '', allow_none=self.tri(0.2), nullable=self.tri(0.2),
                               optional=self.tri(0.2) if d in ('out', 'inout') else '', transfer=r.choice(['none', 'container', 'full']),
                               scope=r.choice(['', '', '', 'call', 'async', 'notified', 'forever']), skip=self.tri(0.1),
                               type=self.rtype(0, refs)),
                    attrs=self.attrs(0.2), attrs_after_type=False)

    def callable(self, c, refs, nmax=5):
        r = self.r
        n = r.choice([0, 1, 2, 3, nmax])
        c['args'] = [self.arg('a%d' % i, refs) for i in range(n)]
        for a in c['args']:
            if n >= 2 and r.random() < 0.2:
                a['g']['closure'] = r.randrange(n)
            if n >= 2 and r.random() < 0.1:
                a['g']['destroy'] = r.randrange(n)
        sg = c['sig']
        sg['transfer'] = r.choice(['none', 'container', 'full'])
        sg['nullable'] = self.tri(0.3)
        sg['skip'] = self.tri(0.1)
        sg['rtype'] = self.rtype(0, refs, allow_none=True)
        c['rattrs'] = self.attrs(0.15)
        c['attrs'] = self.attrs(0.3)
        return c

    def function(self, kind, name, refs, cidp, owner=None):
        f = T.mk_function(kind, name, cid='%s_%s' % (cidp, name), deprecated=self.tri(0.15), throws=self.tri(0.2))
        f['sig']['throws'] = f['fn']['throws']
        if kind == 'method' and self.r.random() < 0.5:
            f['sig']['inst'] = self.r.choice(['none', 'full'])
        self.callable(f, refs)
        if kind == 'constructor':        # a constructor returns its container (the compiler's validator insists)
            f['sig']['rtype'] = T.ref('', owner)
            f['sig']['transfer'] = 'full'
        return f

    def doc(self, n_entries=40, n_methods=None, ns='Tst'):
        r = self.r
        d = T.new_doc(ns=ns)
        d['entries'] = T.env_entries()
        d['attrs'] = []
        refs = [('', 'Rec', 1), ('', 'En', 0), ('', 'Dis', 0), ('GLib', 'Bytes', 1), ('GObject', 'Object', 1), ('', 'AInt', 0),
                ('', 'ARec', 1), ('GLib', 'Quark', 0), ('GObject', 'Value', 1)]
        ifaces = []
        classes = []
        for k in range(n_entries):
            x = r.random()
            nm = n_methods if n_methods is not None else r.choice([0, 1, 2, 5])
            if x < 0.2:
                e = self.function('function', self.uid('fn'), refs, 'tst')
                if r.random() < 0.1:
                    e['intro'] = False
                if r.random() < 0.08:
                    e['shadowed_by'] = 'other'
            elif x < 0.3:
                e = self.callable(T.mk_callback(self.uid('Cb'), deprecated=self.tri(0.1), throws=self.tri(0.2)), refs)
                refs.append(('', e['g']['name'], 0))
            elif x < 0.42:
                name = self.uid('Rc')
                e = T.mk_struct(r.choice(['record', 'record', 'union', 'boxed']), name, deprecated=self.tri(0.1))
                if e['tag'] != 'boxed' and r.random() < 0.5:
                    e['g'].update(gtype_name='Tst' + name, gtype_init='tst_%s_get_type' % name.lower())
                if e['tag'] != 'boxed' and r.random() < 0.3:
                    e['g'].update(copy_func='tst_%s_copy' % name.lower(), free_func='tst_%s_free' % name.lower())
                for i in range(r.choice([0, 1, 3, 6])):
                    cb = None
                    if e['tag'] == 'record' and r.random() < 0.3:
                        cb = self.callable(T.mk_callback('f%d' % i), refs, 2)
                    e['fields'].append(T.mk_field('f%d' % i, type=self.rtype(1, refs), callback=cb, writable=self.tri(0.4),
                                                  attrs=self.attrs(0.15)))
                e['methods'] = [self.function(r.choice(['method', 'method', 'constructor', 'function']), 'm%d' % i, refs,
                                              'tst_' + name.lower(), owner=name) for i in range(nm)]
                e['attrs'] = self.attrs()
                refs.append(('', name, 1))
            elif x < 0.54:
                name = self.uid('En')
                e = T.mk_enum(r.choice(['enumeration', 'bitfield']), name, deprecated=self.tri(0.1),
                              error_domain=('tst-%s-quark' % name.lower()) if r.random() < 0.3 else '')
                if r.random() < 0.6:
                    e['g'].update(gtype_name='Tst' + name, gtype_init='tst_%s_get_type' % name.lower())
                for i in range(r.choice([1, 2, 5, 40])):
                    v = r.choice([i, -i - 1, 1 << (i % 31), 2 ** 31 - 1 - i, -2 ** 31 + i, 2 ** 31 + i, 2 ** 32 - 1 - i])
                    e['values'].append(T.mk_value('v%d' % i, v, deprecated=self.tri(0.1), cid='TST_%s_V%d' % (name.upper(), i),
                                                  attrs=self.attrs(0.1)))
                e['methods'] = [self.function('function', 'm%d' % i, refs, 'tst_' + name.lower()) for i in range(min(nm, 3))]
                e['attrs'] = self.attrs()
                refs.append(('', name, 0))
            elif x < 0.62:
                tn = r.choice(['gint32', 'guint8', 'gint64', 'guint64', 'gdouble', 'utf8', 'gboolean', 'gint', 'gsize'])
                lo, hi = T.INT_RANGE.get(tn, (0, 0))
                text = (str(r.choice([lo, hi, 0, hi // 3])) if tn in T.INT_RANGE else
                        r.choice(['1.5', '-0.125', '6.02e23']) if tn == 'gdouble' else
                        r.choice(['true', 'false']) if tn == 'gboolean' else r.choice(['', 'x', 'héllo wörld €', 'a"b<c>&d']))
                e = T.mk_constant(self.uid('CO'), T.basic(tn), text, deprecated=self.tri(0.1), attrs=self.attrs())
            elif x < 0.74:
                name = self.uid('If')
                e = T.mk_iface(name, deprecated=self.tri(0.1))
                pre = [dict(ns='GObject', n='Object')] if r.random() < 0.5 else []
                pre += [dict(ns='', n=i) for i in r.sample(ifaces, min(len(ifaces), r.choice([0, 1, 2])))]
                r.shuffle(pre)
                e['g']['prerequisites'] = pre
                self.fill_members(e, name, refs, nm)
                ifaces.append(name)
                refs.append(('', name, 1))
            else:
                name = self.uid('Ob')
                par = r.choice([dict(T.NOREF), dict(ns='GObject', n='Object'), dict(ns='GObject', n='InitiallyUnowned')] +
                               [dict(ns='', n=c) for c in classes[-2:]])
                e = T.mk_class(name, deprecated=self.tri(0.1), abstract=self.tri(0.2), final=self.tri(0.1), parent=par)
                impl = [dict(ns='', n=i) for i in r.sample(ifaces, min(len(ifaces), r.choice([0, 1, 2, 3])))]
                if r.random() < 0.2:
                    impl.append(dict(ns='GObject', n='TypePlugin'))
                r.shuffle(impl)
                e['g']['interfaces'] = impl
                if r.random() < 0.15:
                    e['g'].update(fundamental='1', ref_func='tst_%s_ref' % name.lower(), unref_func='tst_%s_unref' % name.lower())
                for i in range(r.choice([0, 1, 2, 4])):
                    cb = self.callable(T.mk_callback('f%d' % i), refs, 2) if r.random() < 0.35 else None
                    e['fields'].append(T.mk_field('f%d' % i, type=self.rtype(1, refs), callback=cb, writable=self.tri(0.3),
                                                  attrs=self.attrs(0.15)))
                self.fill_members(e, name, refs, nm)
                classes.append(name)
                refs.append(('', name, 1))
            d['entries'].append(e)
        return d

    def fill_members(self, e, name, refs, nm):
        r = self.r
        lname = name.lower()
        e['methods'] = [self.function(r.choice(['method', 'method', 'function'] + (['constructor'] if e['tag'] == 'class' else [])),
                                      'm%d' % i, refs, 'tst_' + lname, owner=name) for i in range(nm)]
        mnames = [T.final_name(m) for m in e['methods'] if m['fn']['ckind'] == 'method']
        for i in range(r.choice([0, 1, 2, 4])):
            p = T.mk_property('p%d' % i, type=self.rtype(1, refs), readable=self.tri(0.5), writable=self.tri(0.5),
                              construct=self.tri(0.2), construct_only=self.tri(0.1), transfer=r.choice(['', 'none', 'container', 'full']),
                              attrs=self.attrs(0.15))
            if mnames and r.random() < 0.4:
                p['g']['setter'] = r.choice(mnames)
            if mnames and r.random() < 0.4:
                p['g']['getter'] = r.choice(mnames)
            e['properties'].append(p)
        pnames = [p['g']['name'] for p in e['properties']]
        for m in e['methods']:
            if m['fn']['ckind'] == 'method' and pnames and r.random() < 0.3:
                m['fn'][r.choice(['setprop', 'getprop'])] = r.choice(pnames)
        for i in range(r.choice([0, 1, 3])):
            s = self.callable(T.mk_signal('sig-%d' % i, when=r.choice(['', 'first', 'last', 'cleanup']), no_recurse=self.tri(0.2),
                                          detailed=self.tri(0.2), action=self.tri(0.2), no_hooks=self.tri(0.2),
                                          deprecated=self.tri(0.1)), refs, 3)
            e['signals'].append(s)
        for i in range(r.choice([0, 1, 3])):
            v = self.callable(T.mk_vfunc('vf%d' % i, invoker=r.choice(mnames) if mnames and r.random() < 0.5 else '',
                                         offset=r.choice([-1, 0, 8, 136]), throws=self.tri(0.2)), refs, 3)
            v['sig']['throws'] = v['g']['throws']
            if r.random() < 0.5:
                v['sig']['inst'] = r.choice(['none', 'full'])
            e['vfuncs'].append(v)
        for i in range(r.choice([0, 0, 1, 2])):
            e['constants'].append(T.mk_constant('K%d' % i, T.INT32, str(r.randrange(-5, 1000)), attrs=self.attrs(0.15)))
        e['attrs'] = self.attrs()
        order = [(s, i) for s in ('fields', 'properties', 'methods', 'signals', 'vfuncs', 'constants') for i in range(len(e.get(s, [])))]
        # keep fields in relative order (position has meaning) but interleave everything
        r.shuffle(order)
        for s in ('fields', 'properties', 'methods', 'signals', 'vfuncs', 'constants'):
            idx = [k for k, (ss, _) in enumerate(order) if ss == s]
            for n, k in enumerate(idx):
                order[k] = (s, n)
        e['order'] = order


def boundary_doc(n, what='methods'):
    """a namespace with one class of n methods / properties / ... (10-bit index fields, 16-bit counts)"""
    d = T.new_doc()
    d['entries'] = T.env_entries()
    obj = T.mk_class('Big')
    if what == 'methods':
        obj['methods'] = [T.mk_function('method', 'm%d' % i, cid='tst_big_m%d' % i) for i in range(n)]
        # the last method is the setter/getter/invoker: its index needs all the bits
        last = 'm%d' % (n - 1)
        obj['properties'] = [T.mk_property('plast', setter=last, getter=last, writable='1'), T.mk_property('pfirst', getter='m0')]
        obj['vfuncs'] = [T.mk_vfunc('vlast', invoker=last), T.mk_vfunc('vfirst', invoker='m0')]
    elif what == 'properties':
        obj['properties'] = [T.mk_property('p%d' % i) for i in range(n)]
        obj['methods'] = [T.mk_function('method', 'set_last', cid='tst_big_set_last', setprop='p%d' % (n - 1)),
                          T.mk_function('method', 'get_first', cid='tst_big_get_first', getprop='p0')]
    elif what == 'values':
        en = T.mk_enum('enumeration', 'BigEn')
        en['values'] = [T.mk_value('v%d' % i, i, cid='TST_BIG_V%d' % i) for i in range(n)]
        d['entries'].append(en)
    elif what == 'args':
        obj['methods'] = [T.mk_function('method', 'many', [T.mk_arg('a%d' % i) for i in range(n)], cid='tst_big_many')]
    elif what == 'fields':
        obj['fields'] = [T.mk_field('f%d' % i) for i in range(n)]
    d['entries'].append(obj)
    return d

"""C16 runner: executes the REAL scanner pipeline on concrete runs, in its own interpreter.

    PYTHONHASHSEED=<seed> python -m harness.c16run < batch.json > results.ndjson

A batch is {"outdir": dir, "runs": [run, ...]}.  Every run is self-contained (it is also what a
replay file stores):

    run = {rid, ns: {name, version, idp, symp}, includes: ["Gio-2.0", ...] (command-line order),
           girpath: [dirs], pkgs, cincs, roots, symbols: [decl ...] (feed order),
           comments: [[text, filename, line] ...] (feed order), dump: gdump XML or "",
           cache: "off" | <XDG_CACHE_HOME directory>}

The pipeline is the one of giscanner/scannermain.py:scanner_main with the C lexer replaced by symgen
(harness/scan.py): Namespace -> Transformer (own CacheStore) -> register_include() per include (the
REAL _parse_include / CacheStore.load / GIRParser / CacheStore.store) -> GtkDocCommentBlockParser ->
Transformer.parse -> [GDumpParser] -> MainTransformer -> IntrospectablePass -> GIRWriter.

Per run one JSON line: {rid, hashseed, sha (sha256 of the GIR bytes), nbytes, gir (file name under
outdir, content addressed), groups (sibling groups: parent path, tag, kind-ordered children as
[tag, name, qualified name]), decl (declaration-ordered children: fields/members/parameters),
cache: {hits, misses, stores}, diag (diagnostic texts in emission order), dsha (their digest), error}.
Python projects; the verdict is formed by tla/OrderTrace.tla.
"""
import hashlib, io, json, os, sys, traceback
import xml.etree.ElementTree as ET

from . import scan as S

ast = S.ast
message = S.message


def _fields(spec):
    out = []
    for f in spec:
        if f[0] == '@fp':                      # ["@fp", ret, [[type, name]...], name]
            out.append(S.member(S.funcptr(f[1], [tuple(p) for p in f[2]]), f[3]))
        elif len(f) > 2 and f[2] == 'private':
            out.append(S.member(f[0], f[1], private=True))
        else:
            out.append((f[0], f[1]))
    return out


def build_symbol(d):
    k = d['k']
    kw = dict(line=d.get('line', 1), filename=d.get('file', '/src/foo.h'))
    if k == 'typedef_struct':
        return S.typedef_struct(d['name'], d['tag'], union=d.get('union', False), pointer=d.get('pointer', False), **kw)
    if k == 'struct':
        return S.struct_def(d['tag'], _fields(d['fields']), union=d.get('union', False), **kw)
    if k == 'typedef_anon':
        return S.typedef_struct(d['name'], None, fields=_fields(d['fields']), union=d.get('union', False), **kw)
    if k == 'function':
        return S.function(d['name'], d['ret'], [tuple(p) for p in d['params']], varargs=d.get('varargs', False), **kw)
    if k == 'callback':
        return S.callback(d['name'], d['ret'], [tuple(p) for p in d['params']], **kw)
    if k == 'enum':
        return S.typedef_enum(d['name'], [tuple(m) for m in d['members']], bitfield=d.get('bitfield', False), **kw)
    if k == 'alias':
        return S.alias(d['name'], d['target'], **kw)
    if k == 'const_int':
        return S.const_int(d['name'], d['value'], **kw)
    if k == 'const_str':
        return S.const_str(d['name'], d['value'], **kw)
    raise ValueError('unknown declaration kind %r' % k)


class Counter(object):
    def __init__(self):
        self.hits = self.misses = self.stores = 0


def pipeline(run):
    """-> (gir bytes, diagnostics, cache counters).  Mirrors scannermain.scanner_main."""
    from giscanner.transformer import Transformer
    from giscanner.maintransformer import MainTransformer
    from giscanner.introspectablepass import IntrospectablePass
    from giscanner.annotationparser import GtkDocCommentBlockParser
    from giscanner.girwriter import GIRWriter
    from giscanner.gdumpparser import GDumpParser

    if run['cache'] == 'off':
        os.environ['GI_SCANNER_DISABLE_CACHE'] = '1'
        os.environ.pop('XDG_CACHE_HOME', None)
    else:
        os.environ.pop('GI_SCANNER_DISABLE_CACHE', None)
        os.environ['XDG_CACHE_HOME'] = run['cache']
    n = run['ns']
    ns = ast.Namespace(n['name'], n['version'], identifier_prefixes=list(n['idp']), symbol_prefixes=list(n['symp']))
    message.MessageLogger._instance = None
    logger = S.RecordingLogger(ns)
    message.MessageLogger._instance = logger
    logger.enable_warnings(True)
    tr = Transformer(ns)
    cnt = Counter()
    cs = tr._cachestore
    if cs is not None and cs._directory is not None:
        real_load, real_store = cs.load, cs.store

        def load(filename):
            r = real_load(filename)
            if r is None:
                cnt.misses += 1
            else:
                cnt.hits += 1
            return r

        def store(filename, data):
            cnt.stores += 1
            return real_store(filename, data)
        cs.load, cs.store = load, store
    tr.set_include_paths(run['girpath'])
    for inc in run['includes']:
        tr.register_include(ast.Include.from_string(inc))
    packages = set(run['pkgs'])
    packages.update(tr.get_pkgconfig_packages())
    blocks = GtkDocCommentBlockParser().parse_comment_blocks([tuple(c) for c in run['comments']])
    tr.parse([S.SourceSymbol(None, build_symbol(d)) for d in run['symbols']])
    if run.get('dump'):
        gd = GDumpParser(tr)
        gd._execute_binary_get_tree = lambda: ET.ElementTree(ET.fromstring(run['dump']))
        gd.init_parse()
        gd._binary = 'dump'
        gd.parse()
    MainTransformer(tr, blocks).transform()
    IntrospectablePass(tr, blocks).validate()
    ns.shared_libraries = ['libfoo.so.1']
    ns.c_includes = list(run['cincs'])
    ns.exported_packages = list(run['pkgs'])
    data = GIRWriter(ns, list(run['roots'])).get_encoded_xml()
    diag = [r['text'] for r in logger.records]
    message.MessageLogger._instance = None
    return data, diag, cnt


CHILD_TAGS = {'alias', 'function', 'function-inline', 'function-macro', 'enumeration', 'bitfield', 'class', 'interface',
              'callback', 'record', 'union', 'glib:boxed', 'constant', 'docsection', 'constructor', 'method',
              'method-inline', 'virtual-method', 'property', 'glib:signal', 'implements', 'prerequisite',
              'include', 'package', 'c:include', 'field', 'member', 'namespace', 'doc:format'}
GROUP_PARENTS = {'repository', 'namespace', 'class', 'interface', 'record', 'union', 'enumeration', 'bitfield', 'glib:boxed'}
CALLABLES = {'function', 'method', 'constructor', 'callback', 'virtual-method', 'glib:signal', 'function-inline', 'method-inline'}


def project(xml_bytes, nsname):
    """sibling groups (every element that has ordered children of the kinds the writer orders) and
    declaration-ordered lists (fields / enum members / parameters), keyed by C identifier"""
    tree = S.girabs(xml_bytes)
    groups, decl = [], []

    def nm(c):
        a = c['attrs']
        return a.get('name', a.get('glib:name', ''))

    def sortkey(c):
        # the key the writer sorts by: Include -> (name, version); Type (implements/prerequisite) -> qualified
        # GI name; every node -> its name.  Projected to code points so that TLA+ can compare
        a = c['attrs']
        name = nm(c)
        if c['tag'] == 'include':
            return [ord(ch) for ch in name] + [0] + [ord(ch) for ch in a.get('version', '')]
        if c['tag'] in ('implements', 'prerequisite') and '.' not in name:
            name = nsname + '.' + name
        return [ord(ch) for ch in name]

    def walk(node, path):
        tag, a = node['tag'], node['attrs']
        cid = a.get('c:type') or a.get('c:identifier') or a.get('glib:type-name') or ''
        if tag in GROUP_PARENTS:
            items = [dict(tag=c['tag'], name=nm(c), key=sortkey(c)) for c in node['children'] if c['tag'] in CHILD_TAGS]
            groups.append(dict(parent=path or '/', ptag=tag, items=items))
        if cid and tag in ('record', 'union', 'class', 'interface'):
            decl.append(dict(cid=cid, kind='field', names=[nm(c) for c in node['children'] if c['tag'] == 'field']))
        if cid and tag in ('enumeration', 'bitfield'):
            decl.append(dict(cid=cid, kind='member',
                             names=[c['attrs'].get('c:identifier', '') for c in node['children'] if c['tag'] == 'member']))
        if tag in CALLABLES and (cid or path.count('/') <= 2):
            ps = S.child(node, 'parameters')
            decl.append(dict(cid=cid or nm(node), kind='param', names=[nm(c) for c in (ps['children'] if ps else [])]))
        for c in node['children']:
            if c['tag'] in GROUP_PARENTS or c['tag'] in CALLABLES:
                walk(c, path + '/' + c['tag'] + ':' + (c['attrs'].get('c:identifier') or c['attrs'].get('c:type') or nm(c)))
    walk(tree, '')
    return groups, decl


def execute(run, outdir):
    res = dict(rid=run['rid'], hashseed=os.environ.get('PYTHONHASHSEED', ''), sha='', nbytes=0, gir='', groups=[], decl=[],
               cache=dict(hits=0, misses=0, stores=0), diag=[], dsha='', error='')
    try:
        data, diag, cnt = pipeline(run)
    except SystemExit as e:
        res['error'] = 'SystemExit: %s' % (e,)
        return res
    except Exception:
        res['error'] = traceback.format_exc()[-1500:]
        return res
    sha = hashlib.sha256(data).hexdigest()
    res.update(sha=sha, nbytes=len(data), diag=diag[:8], dsha=hashlib.sha256('\n'.join(diag).encode()).hexdigest()[:16], cache=dict(hits=cnt.hits, misses=cnt.misses, stores=cnt.stores))
    if outdir:
        p = os.path.join(outdir, sha + '.gir')
        if not os.path.exists(p):
            tmp = '%s.%d.tmp' % (p, os.getpid())
            with open(tmp, 'wb') as f:
                f.write(data)
            os.replace(tmp, p)
        res['gir'] = sha + '.gir'
        q = os.path.join(outdir, sha + '.proj.json')          # projection, once per distinct output
        if not os.path.exists(q):
            groups, decl = project(data, run['ns']['name'])
            tmp = '%s.%d.tmp' % (q, os.getpid())
            with open(tmp, 'w') as f:
                json.dump(dict(groups=groups, decl=decl), f)
            os.replace(tmp, q)
    else:
        res['groups'], res['decl'] = project(data, run['ns']['name'])
    return res


def main():
    batch = json.load(sys.stdin)
    out = sys.stdout
    real_stderr = sys.stderr
    for run in batch['runs']:
        sys.stderr = io.StringIO()          # the scanner prints diagnostics; they are recorded by the logger
        try:
            r = execute(run, batch.get('outdir'))
        finally:
            sys.stderr = real_stderr
        out.write(json.dumps(r) + '\n')
    out.flush()


if __name__ == '__main__':
    main()

"""Shared by C10 / C11: concretisation of the abstract comment-block cases of tla/CommentBlock.tla
(model + layout as a sequence of line classes) into GTK-Doc comment text, projection of the real
parser's GtkDocCommentBlock into the tree shape of the spec, a recording MessageLogger, the
upstream XML fixtures, and the line-class abstraction of fixture inputs.

Nothing here forms a verdict: expected trees are the TLC-exported model with the opaque ids
(annotation "a","b",..; text (kind, ordinal); names) replaced by the very strings that were written
into the comment text; comparisons are made by tla/CommentBlockTrace.tla.
"""
import io, json, os, re, glob
import xml.etree.ElementTree as etree

from .common import REPO
from . import gistub


def load():
    gistub.install()
    from giscanner import annotationparser as AP, message as MSG
    return AP, MSG


# ------------------------------------------------------------------------------------------------
# projection of the real parser's result

def proj_ann(name, options):
    if isinstance(options, dict) and options:
        return dict(name=name, kind='dict', opts=[str(k) for k in options.keys()],
                    vals=['' if v is None else str(v) for v in options.values()])
    if isinstance(options, (list, tuple)) and options:
        return dict(name=name, kind='list', opts=[str(o) for o in options], vals=[])
    return dict(name=name, kind='none', opts=[], vals=[])      # upstream's tree: falsy options = no options


def proj_anns(annotations):
    return [proj_ann(n, o) for n, o in annotations.items()]


def proj_desc(text):
    """description string -> sequence of [ind, txt]; None and '' -> <<>> (upstream's tree convention)"""
    if not text:
        return []
    out = []
    for line in text.split('\n'):
        rest = line.lstrip(' ')
        out.append(dict(ind=len(line) - len(rest), txt=rest))
    return out


NOTREE = dict(present=False, name='', anns=[], params=[], desc=[], tags=[])


def proj_block(block):
    if block is None:
        return dict(NOTREE)
    return dict(present=True, name=block.name, anns=proj_anns(block.annotations),
                params=[dict(name=k, anns=proj_anns(p.annotations), desc=proj_desc(p.description))
                        for k, p in block.params.items()],
                desc=proj_desc(block.description),
                tags=[dict(name=k, anns=proj_anns(t.annotations), val=t.value or '', desc=proj_desc(t.description))
                      for k, t in block.tags.items()])


# ------------------------------------------------------------------------------------------------
# recording logger (display suppressed: enable_warnings(False), output to a private buffer)

KINDS = [
    ('unexpected parentheses', 'paren_unexp'), ('unbalanced parentheses', 'paren_unbal'),
    ('missing ":" at column', 'nocolon'), ('multiple "@', 'dupparam'), ('" tags for identifier', 'duptag'),
    ('encountered multiple', 'returns2'), ('parameter unexpected at this location', 'paramlate'),
    ('tag unexpected at this location', 'tagunexpected'), ('invalid comment text', 'pretext'),
    ('should not be preceded by code', 'codebefore'), ('not be followed by comment text', 'opentext'),
    ('Skipping invalid GTK-Doc comment block', 'oneline'), ('not be followed by code', 'codeafter'),
    ('not be preceded by comment text', 'closetext'), ('identifier not found', 'noident'),
    ('please use annotations on the identifier', 'deprecated_tag'), ('GTK-Doc tag "Description:" has been deprecated', 'deprecated_desc'),
    ('malformed "Attributes:"', 'attrs'), ('Duplicate "Attributes:"', 'attrs_dup'),
    ('expected a "list" but', 'kv'), ('unknown annotation', 'unknown'), ('unexpected annotation', 'unexpected_ann'),
    ('annotation has been deprecated', 'depann'), ('malformed "(attribute)"', 'attribute_malformed'),
    ('annotations not supported for tag', 'annsontag'), ('" annotations:', 'dupann'),
    ('unrecoverable parse error', 'internal'), ('multiple comment blocks documenting', 'dupblock'),
    ('parameter is deprecated, please use "@..."', 'varargs'), ('" annotation ', 'validate'),
    ('cannot have both', 'validate'), ('annotation option', 'validate'),
]


def kind_of(text):
    for pat, k in KINDS:
        if pat in text:
            return k
    return 'other'


def make_logger(MSG):
    class RecLogger(MSG.MessageLogger):
        def __init__(self):
            MSG.MessageLogger.__init__(self, namespace=None, output=io.StringIO())
            self.calls = []

        def log(self, log_type, text, positions=None, prefix=None, marker_pos=None, marker_line=None):
            self.calls.append((log_type, text, positions, marker_pos, marker_line))
            return MSG.MessageLogger.log(self, log_type, text, positions, prefix, marker_pos, marker_line)

    lg = RecLogger()
    lg.enable_warnings(False)
    MSG.MessageLogger._instance = lg
    return lg


def proj_calls(MSG, calls):
    out = []
    for log_type, text, positions, mpos, mline in calls:
        p = positions
        if isinstance(p, (set, list, tuple)):
            p = sorted(p)[-1] if p else None
        fn = getattr(p, 'filename', None) if p is not None else None
        ln = getattr(p, 'line', None) if p is not None else None
        out.append(dict(type={MSG.WARNING: 'warning', MSG.ERROR: 'error', MSG.FATAL: 'fatal'}.get(log_type, 'other'),
                        kind=kind_of(text), text=text[:120],
                        hasfile=isinstance(fn, str), file=fn if isinstance(fn, str) else '',
                        hasline=isinstance(ln, int), line=ln if isinstance(ln, int) else -1,
                        hasmarker=(mpos is not None and mline is not None),
                        mpos=mpos if isinstance(mpos, int) else -1,
                        mline=mline if isinstance(mline, str) else ''))
    return out


# ------------------------------------------------------------------------------------------------
# vocabulary

WORDS = ['alpha', 'beta', 'gamma', 'the', 'widget', 'value', 'returned', 'number', 'of', 'items', 'café', 'größe',
         '中文', 'naïve', '%NULL', '#GObject', 'foo()', 'a:b', 'x=1', 'see', '@other', 'e.g.', '<literal>x</literal>', '|[', ']|',
         'http://example.org/a?b=c', "it's", '"quoted"', '1.5', 'end.']
FIRST_WORDS = ['alpha', 'The', 'widget', 'A', 'café', '中文', 'some', '%TRUE', '#Foo', 'whether', 'an']
LIST_TOKENS = ['full', 'none', 'container', 'async', 'call', 'utf8', 'GLib.List(utf8)', 'guint8', '1', 'foo_bar', 'callee-allocates',
               'a.b-c', 'Gtk.Widget', 'GLib.HashTable(utf8,gint)', 'nullable', 'x']
DICT_KEYS = ['length', 'fixed-size', 'zero-terminated', 'k', 'my.key', 'key2']
DICT_VALS = ['n_items', '3', '1', 'val', 'some.value', 'a-b']
UNKNOWN_NAMES = ['frobnicate', 'x-custom', 'future-ann', 'nullableish', 'foo2']
PARAM_NAMES = ['widget', 'n_items', 'user-data', '...', 'self', 'x', 'out_value', 'p1']
SYMBOLS = ['foo_bar', 'gtk_widget_show', 'G_CONSTANT', 'FooBar', 'foo-bar', 'x1']
CLASSES = ['GtkWidget', 'Foo', 'GObject', 'My_Class']
MEMBERS = ['visible', 'some-prop', 'notify-me', 'parent', 'x', 'clicked']
ACTIONS = ['win.close', 'app.quit', 'my-group.do-it']
SECTIONS = ['gtkwidget', 'foo-bar', 'my_section', 'ab']
VERSIONS = ['2.4', '0.10.1', '3', '1.0']
STABILITY = ['Stable', 'unstable', 'Private', 'internal', 'STABLE']
TAG_SPELL = dict(returns=['Returns', 'returns', 'Return value', 'Returns value', 'Return', 'RETURNS'],
                 since=['Since', 'since', 'SINCE'], deprecated=['Deprecated', 'deprecated'],
                 stability=['Stability', 'stability'])

# diagnostic-free vocabulary for C11 (valid for the part, valid options): (name, kind, opts, vals)
SAFE = dict(
    id=[('skip', []), ('rename-to', ['foo_bar2']), ('constructor', []), ('method', []), ('transfer', ['full']),
        ('virtual', ['slot']), ('get-value-func', ['f']), ('value', ['3']), ('foreign', []),
        ('set-value-func', ['g']), ('ref-func', ['r']), ('unref-func', ['u'])],
    param=[('transfer', ['full']), ('transfer', ['none']), ('nullable', []), ('optional', []), ('out', []),
           ('out', ['caller-allocates']), ('in', []), ('inout', []), ('array', {'length': 'n'}), ('array', {}),
           ('element-type', ['utf8']), ('scope', ['call']), ('closure', []), ('closure', ['data']), ('destroy', ['notify']),
           ('skip', []), ('allow-none', [])],
    tag=[('transfer', ['full']), ('transfer', ['container']), ('nullable', []), ('array', {'zero-terminated': '1'}),
         ('element-type', ['utf8']), ('skip', []), ('allow-none', [])])


# annotations that may be given twice with different options: (name, options of "a", options of "a~"), all valid for the part
DUPABLE = dict(
    id=[('attributes', {'org.demo.owner': 'core'}, {'org.demo.leak': '1'}), ('attributes', {'k': 'v', 'k2': 'w'}, {'k': 'other'}),
        ('transfer', ['full'], ['none']), ('value', ['3'], ['4']), ('rename-to', ['foo_x'], ['foo_y'])],
    param=[('attributes', {'org.demo.owner': 'core'}, {'org.demo.leak': '1'}), ('attributes', {'k': 'v'}, {'k': 'other', 'z': None}),
           ('array', {'length': 'n'}, {'fixed-size': '3'}), ('element-type', ['utf8'], ['gint']), ('transfer', ['full'], ['none']),
           ('scope', ['call'], ['async'])],
    tag=[('attributes', {'org.demo.owner': 'core'}, {'org.demo.leak': '1'}), ('array', {'zero-terminated': '1'}, {'fixed-size': '2'}),
         ('element-type', ['utf8'], ['gint']), ('transfer', ['full'], ['container'])])
DUP_ID = 'a~'


def ann_text(name, opts):
    if isinstance(opts, dict):
        o = ' '.join(k if v is None else '%s=%s' % (k, v) for k, v in opts.items())
    else:
        o = ' '.join(opts)
    return '(%s %s)' % (name, o) if o else '(%s)' % name


class Sub:
    """substitution of the opaque ids of one abstract case, drawn from a seeded rng.
    mode 'full': the whole annotation vocabulary of annotationparser (known, deprecated, unknown names;
    list / key=value / no options) -- syntactically well-formed, not necessarily valid for the part;
    mode 'safe': only annotations that are valid for the part with valid options (no diagnostics)."""

    def __init__(self, AP, rng, case, mode, uniq=''):
        self.AP, self.rng, self.mode = AP, rng, mode
        self.anns = {}          # (part, id) -> (source text, expected projection, normalised name)
        self.used = {}          # part -> set of normalised names
        self.texts = {}         # (t, n, scope) -> str
        form = None
        for l in case['lines']:
            if l['k'] == 'ident':
                form = l['form']
                break
        form = form or case['model'].get('name') or 'symbol'
        self.form = form
        r = rng
        cls, mem = r.choice(CLASSES), r.choice(MEMBERS)
        if form == 'symbol':
            src = r.choice(SYMBOLS) + uniq
            exp = src
        elif form == 'prop':
            src = '%s:%s%s' % (cls, mem, uniq)
            exp = src
        elif form == 'signal':
            src = '%s::%s%s' % (cls, mem, uniq)
            exp = src
        elif form == 'field':
            src = '%s.%s%s' % (cls, mem.replace('-', '_'), uniq)
            exp = src
        elif form == 'section':
            nm = r.choice(SECTIONS) + uniq
            src = r.choice(['SECTION:%s', 'SECTION: %s', 'SECTION:%s']) % nm
            exp = 'SECTION:%s' % nm
        elif form == 'action':
            act = r.choice(ACTIONS) + uniq
            src = '%s|%s' % (cls, act)
            exp = 'ACTION:%s:%s' % (cls, act)
        else:
            raise ValueError(form)
        self.ident_src, self.ident_exp = src, exp
        # parts whose first annotation is repeated (fault "dupparen") draw it from DUPABLE
        self.dups = {}
        part = 'id'
        for l in case['lines']:
            if l['k'] == 'ident':
                part = 'id'
            elif l['k'] in ('param', 'tag') and l['name'] not in ('attributes', 'renameto'):
                part = l['name']
            if DUP_ID in l['anns'] and part not in self.dups:
                self.dups[part] = r.choice(DUPABLE['id' if part == 'id' else 'tag' if part == 'returns' else 'param'])
        names = list(PARAM_NAMES)
        r.shuffle(names)
        self.pnames = {'p1': names[0], 'p2': names[1], 'p3': names[2], 'returns': r.choice(['returns', 'Returns', 'RETURNS'])}
        self.tagspell = {t: r.choice(v) for t, v in TAG_SPELL.items()}
        self.vals = dict(since=r.choice(VERSIONS), deprecated=r.choice(VERSIONS), stability=r.choice(STABILITY))

    # -------- names
    def pname_exp(self, p):
        return 'returns' if p == 'returns' else self.pnames[p]

    def val_exp(self, tag):
        v = self.vals[tag]
        return v.capitalize() if tag == 'stability' else v

    # -------- annotations
    def _draw_full(self, part):
        AP, r = self.AP, self.rng
        used = self.used.setdefault(part, set())
        for _ in range(200):
            x = r.random()
            if x < 0.72:
                name = r.choice(AP.GI_ANNS)
            elif x < 0.82:
                name = r.choice(AP.DEPRECATED_GI_ANNS)
            else:
                name = r.choice(UNKNOWN_NAMES)
            norm = {'in-out': 'inout', 'attribute': 'attributes'}.get(name, name)
            if norm in used:
                continue
            used.add(norm)
            break
        else:
            raise RuntimeError('vocabulary exhausted')
        if name == 'attribute':
            k = r.choice(DICT_KEYS)
            if r.random() < 0.7:
                v = r.choice(DICT_VALS)
                return '(attribute %s %s)' % (k, v), dict(name='attributes', kind='dict', opts=[k], vals=[v]), norm
            return '(attribute %s)' % k, dict(name='attributes', kind='dict', opts=[k], vals=['']), norm
        if name in AP.DICT_ANNOTATIONS:
            keys = r.sample(DICT_KEYS, r.choice([0, 1, 1, 2, 3]))
            d = {k: (r.choice(DICT_VALS) if r.random() < 0.6 else None) for k in keys}
            return ann_text(name, d), proj_ann(norm, d), norm
        if name in AP.LIST_ANNOTATIONS:
            toks = [r.choice(LIST_TOKENS) for _ in range(r.choice([0, 0, 1, 1, 2, 3]))]
            return ann_text(name, toks), proj_ann(norm, toks), norm
        # unknown name: options are one free-form string
        if r.random() < 0.5:
            return '(%s)' % name, proj_ann(norm, None), norm
        free = ' '.join(r.choice(LIST_TOKENS + ['k=v', 'a=b']) for _ in range(r.choice([1, 2, 3])))
        return '(%s %s)' % (name, free), proj_ann(norm, [free]), norm

    def _draw_safe(self, part):
        r = self.rng
        used = self.used.setdefault(part, set())
        if part in self.dups:
            used.add(self.dups[part][0])
        pool = SAFE['id' if part == 'id' else 'tag' if part == 'returns' else 'param']
        cands = [c for c in pool if c[0] not in used and not (c[0] == 'allow-none' and 'nullable' in used)
                 and not (c[0] == 'nullable' and 'allow-none' in used)
                 and not (c[0] in ('in', 'out', 'inout') and used & {'in', 'out', 'inout'})]
        name, opts = r.choice(cands)
        used.add(name)
        return ann_text(name, opts), proj_ann(name, opts), name

    def ann(self, part, aid):
        key = (part, aid)
        if key not in self.anns:
            if part in self.dups and aid in ('a', DUP_ID):
                name, o1, o2 = self.dups[part]
                opts = o1 if aid == 'a' else o2
                self.used.setdefault(part, set()).add(name)
                self.anns[key] = (ann_text(name, opts), proj_ann(name, opts), name)
            else:
                self.anns[key] = self._draw_full(part) if self.mode == 'full' else self._draw_safe(part)
        return self.anns[key]

    # -------- texts
    def text(self, t, n, scope):
        key = (t, n, scope)
        if key in self.texts:
            return self.texts[key]
        r = self.rng
        words = [r.choice(FIRST_WORDS)] + [r.choice(WORDS) for _ in range(r.choice([0, 1, 2, 4, 7]))]
        body = ' '.join(words)
        if t == 'plain':
            s = body
        elif t == 'paren':
            # (in 'safe' mode no real annotation names: after a planted fault such a line may be read as annotations)
            s = r.choice(['(see below) ', '(nullable) ', '(transfer full): ', '(a) (b) ', '(note: x) '] if self.mode == 'full'
                         else ['(see below) ', '(cf. above) ', '(a) (b) ', '(note: x) ']) + body
        elif t == 'taglike':
            s = r.choice(['Since: 2.0 ', 'Returns: ', 'Deprecated: 1.2: ', 'Stability: stable ', 'returns: ']) + body
        else:
            raise ValueError(t)
        self.texts[key] = s
        return s


# ------------------------------------------------------------------------------------------------
# rendering: abstract lines -> comment text

PRE_INDENTS = ['', ' ', '\t', '   ']


def default_layout():
    return dict(pre=' ', eol='\n', trail=0, tabs=False, sp=1, open_pre='', seed=0)


def draw_layout(rng, i):
    pre = PRE_INDENTS[i % 4]
    return dict(pre=pre, eol='\r\n' if (i // 4) % 2 else '\n', trail=rng.choice([0, 0, 1, 2]),
                tabs=rng.random() < 0.3, sp=rng.choice([1, 1, 1, 0, 2]),
                open_pre=rng.choice([pre[:-1], pre, '']), seed=rng.randrange(1 << 30))


class Rendered:
    pass


def render(case, sub, lay, lineno=1, fault_text=True):
    """-> Rendered(text, src (list of source lines without terminators), rel (abstract line index -> 0-based index into src))"""
    import random
    lr = random.Random(lay['seed'])
    pre, sp = lay['pre'], ' ' * lay['sp']
    tight = lay['sp'] == 0
    out = []
    opening = lay['open_pre'] + '/**'
    if case['open'] == 'codebefore':
        opening = 'static int x = 1; ' + '/**'
    elif case['open'] == 'opentext':
        opening = lay['open_pre'] + '/** some leading text'
    if case['open'] == 'oneline':
        src = [lay['open_pre'] + '/** %s: one line */' % sub.ident_src]
        R = Rendered()
        R.text, R.src, R.rel = src[0], src, []
        return R
    out.append(opening)
    part, phase, scope = 'id', 'open', 'noid'
    rel = []
    for l in case['lines']:
        k = l['k']
        if k == 'ident':
            part, phase, scope = 'id', 'ident', 'id'
        elif k in ('param', 'tag') and l['name'] not in ('attributes', 'renameto'):     # (deprecated tag-style annotations do not open a part)
            part, phase, scope = l['name'], k, l['name']
        elif k == 'empty' and phase in ('ident', 'param'):
            phase, scope = 'desc', 'desc'
        anns = [sub.ann(part, a)[0] for a in l['anns']]
        af = l['af']
        if af != 'none' and anns:
            j = len(anns) - 1
            if af == 'unbal':
                anns[j] = anns[j][:-1]
            elif af == 'dbl':
                anns[j] = '(' + anns[j]
            elif af == 'empty':
                anns.append('()')
            elif af == 'stray':
                anns[j] = anns[j] + ')'
            elif af == 'kv':
                anns[j] = '(type k=v)'
            elif af == 'unknown':
                anns[j] = '(frobnicate)'
            elif af == 'depann':
                anns[j] = '(attribute dk dv)'
        atext = ' '.join(anns)
        txt = sub.text(l['t'], l['n'], scope) if l['t'] not in ('none', 'raw') else ''
        if scope == 'noid' and txt:
            txt = 'this is no identifier ' + txt      # (a single word would be a symbol identifier)
        if k == 'empty':
            body = None
        elif k == 'ident':
            s = sub.ident_src
            if l['colon']:
                s += ('' if lr.random() < 0.85 else ' ') + ':'
            if atext:
                s += (sp if (l['colon'] or not tight) else ' ') + atext
                if l['acolon']:
                    s += ':'
            body = s
        elif k == 'param':
            s = '@' + sub.pnames[l['name']] + ':'
            s = _fields(s, atext, l['acolon'], '', False, txt, sp)
            body = s
        elif k == 'tag':
            if l['name'] == 'attributes':
                body = 'Attributes: (a b c)'
            elif l['name'] == 'renameto':
                body = lr.choice(['Rename to: new_name_x', 'Transfer: full', 'Type: Foo.Bar', 'Value: 3'])
            else:
                s = sub.tagspell[l['name']] + ':'
                val = sub.vals[l['name']] if l['val'] else ''
                body = _fields(s, atext, l['acolon'], val, l['vcolon'], txt, sp)
        else:   # text
            if atext:
                s = atext + (':' if l['acolon'] else '')
                if txt:
                    s += (sp or (' ' if not l['acolon'] else '')) + txt
                body = s
            else:
                body = txt
        ind = l['ind']
        if body is None:
            line = pre + '*' + (' ' if lr.random() < 0.3 else '')
        else:
            if lay['tabs'] and ind == 2 and (k != 'text' or l['anns']):
                indent = '\t'
            else:
                indent = ' ' * ind
            sep = '\t' if (lay['tabs'] and lr.random() < 0.3) else ' '
            line = pre + ('junk ' if l['pre'] else '') + '*' + sep + indent + body
            if lay['trail'] and lr.random() < 0.5:
                line += ' ' * lay['trail'] if lr.random() < 0.8 else '\t'
        rel.append(len(out))
        out.append(line)
    closing = pre + '*/'
    if case['close'] == 'codeafter':
        closing += ' int y;'
    out.append(closing)
    R = Rendered()
    R.src, R.rel = out, rel
    R.text = lay['eol'].join(out)
    return R


def _fields(s, atext, acolon, val, vcolon, txt, sp):
    """'<name>:' [annotations][:] [value][:] [text] with the layout's spacing"""
    need_space = False
    if atext:
        s += sp + atext
        if acolon:
            s += ':'
        else:
            need_space = True
    if val:
        s += (sp or (' ' if need_space else '')) + val
        need_space = True
        if vcolon:
            s += ':'
            need_space = False
    if txt:
        s += (sp or (' ' if need_space else '')) + txt
    return s


# ------------------------------------------------------------------------------------------------
# the model (what the text means) with the opaque ids replaced by the strings that were written

def _exp_desc(sub, d, scope):
    return [dict(ind=0, txt='') if x['t'] == '' else dict(ind=x['ind'], txt=sub.text(x['t'], x['n'], scope)) for x in d]


def expected_tree(case, sub):
    m = case['model']
    return dict(present=True, name=sub.ident_exp,
                anns=[sub.ann('id', a)[1] for a in m['anns']],
                params=[dict(name=sub.pname_exp(p['name']), anns=[sub.ann(p['name'], a)[1] for a in p['anns']],
                             desc=_exp_desc(sub, p['desc'], p['name'])) for p in m['params']],
                desc=_exp_desc(sub, m['desc'], 'desc'),
                tags=[dict(name=t['name'], anns=[sub.ann(t['name'], a)[1] for a in t['anns']],
                           val=sub.val_exp(t['name']) if t['val'] else '',
                           desc=_exp_desc(sub, t['desc'], t['name'])) for t in m['tags']])


# ------------------------------------------------------------------------------------------------
# running the real parser / writer

class Runner:
    def __init__(self):
        self.AP, self.MSG = load()

    def parse(self, text, filename='test.c', lineno=1):
        """-> (block or None, exception text or '', projected diagnostics, warning count)"""
        lg = make_logger(self.MSG)
        exc = ''
        block = None
        try:
            block = self.AP.GtkDocCommentBlockParser().parse_comment_block(text, filename, lineno)
        except Exception as e:       # observation, judged by TLC
            exc = '%s: %s' % (type(e).__name__, e)
        return block, exc, proj_calls(self.MSG, lg.calls), lg.get_warning_count()

    def parse_many(self, comments):
        """comments: [(text, filename, lineno)] -> (dict name -> block, exception text, diags, count, suppressed output)"""
        lg = make_logger(self.MSG)
        exc = ''
        blocks = {}
        try:
            blocks = self.AP.GtkDocCommentBlockParser().parse_comment_blocks(comments)
        except Exception as e:
            exc = '%s: %s' % (type(e).__name__, e)
        return blocks, exc, proj_calls(self.MSG, lg.calls), lg.get_warning_count(), lg._output.getvalue()

    def write(self, block, indent=True):
        """-> (text, exception text)"""
        try:
            return self.AP.GtkDocCommentBlockWriter(indent=indent).write(block), ''
        except Exception as e:
            return '', '%s: %s' % (type(e).__name__, e)

    def roundtrip(self, block, indent=True):
        """parse(write(block)) projected; -> (tree, ok, written text)"""
        lg_keep = self.MSG.MessageLogger._instance
        text, exc = self.write(block, indent)
        if exc:
            return dict(NOTREE), False, exc
        # the written text ends with a line terminator behind the end token; the comment proper (what the C
        # lexer hands to the parser) ends with the end token
        b2, exc2, _, _ = self.parse(text[:-1] if text.endswith('\n') else text, 'written.c', 1)
        self.MSG.MessageLogger._instance = lg_keep
        if exc2:
            return dict(NOTREE), False, text
        return proj_block(b2), True, text


# ------------------------------------------------------------------------------------------------
# upstream fixtures: tests/scanner/annotationparser/**/*.xml (schema: test_parser.py)

XML_NS = 'http://schemas.gnome.org/gobject-introspection/2013/test'


def _ns(x):
    return x.replace('{}', '{%s}' % XML_NS)


def _fix_cdata(t):
    return t.replace('{{?', '<!').replace('}}', '>') if t else t


def _x_anns(node):
    out = []
    if node is None:
        return out
    for a in node.findall(_ns('{}annotation')):
        name = a.find(_ns('{}name')).text
        opts, vals, anyval = [], [], False
        for o in a.findall(_ns('{}options/{}option')):
            n = o.find(_ns('{}name'))
            v = o.find(_ns('{}value'))
            opts.append(n.text if n is not None and n.text else '')
            vals.append(v.text if v is not None and v.text else '')
            anyval = anyval or (v is not None)
        if not opts:
            out.append(dict(name=name, kind='none', opts=[], vals=[]))
        else:
            out.append(dict(name=name, kind='?', opts=opts, vals=vals))    # list or dict: decided against the observed kind
    return out


def fixtures():
    """-> list of dict(id, input, exp (tree; annotation kind '?' = list-or-dict), messages [str], output (str or None))"""
    base = os.path.join(REPO, 'tests', 'scanner', 'annotationparser')
    out = []
    for path in sorted(glob.glob(os.path.join(base, '**', '*.xml'), recursive=True)):
        try:
            root = etree.parse(path).getroot()
        except etree.ParseError:
            continue
        for i, test in enumerate(root.findall(_ns('{}test'))):
            inp = test.find(_ns('{}input'))
            if inp is None or inp.text is None:
                continue
            db = test.find(_ns('{}parser/{}docblock'))
            if db is None:
                exp = dict(NOTREE)
            else:
                d = db.find(_ns('{}description'))
                exp = dict(present=True, name=db.find(_ns('{}identifier/{}name')).text or '',
                           anns=_x_anns(db.find(_ns('{}identifier/{}annotations'))),
                           params=[dict(name=p.find(_ns('{}name')).text, anns=_x_anns(p.find(_ns('{}annotations'))),
                                        desc=proj_desc(_fix_cdata(p.find(_ns('{}description')).text) if p.find(_ns('{}description')) is not None else None))
                                   for p in db.findall(_ns('{}parameters/{}parameter'))],
                           desc=proj_desc(_fix_cdata(d.text) if d is not None else None),
                           tags=[dict(name=t.find(_ns('{}name')).text, anns=_x_anns(t.find(_ns('{}annotations'))),
                                      val=(t.find(_ns('{}value')).text or '') if t.find(_ns('{}value')) is not None else '',
                                      desc=proj_desc(_fix_cdata(t.find(_ns('{}description')).text) if t.find(_ns('{}description')) is not None else None))
                                 for t in db.findall(_ns('{}tags/{}tag'))])
            msgs = [m.text.strip() for m in test.findall(_ns('{}parser/{}messages/{}message')) if m.text]
            o = test.find(_ns('{}output'))
            out.append(dict(id='%s#%03d' % (os.path.relpath(path, base), i + 1), input=_fix_cdata(inp.text), exp=exp,
                            messages=msgs, output=_fix_cdata(o.text) if o is not None else None))
    return out


def settle_kinds(exp, got):
    """The XML schema does not say whether options are a list or key=value pairs (<value> is optional):
    where an expected annotation has no <value> at all, adopt the observed kind (list vs dict) so that the
    comparison is on names and values only."""
    def fix(es, gs):
        for i, e in enumerate(es):
            if e['kind'] == '?':
                g = gs[i] if i < len(gs) else None
                if g is not None and g['kind'] == 'dict':
                    e['kind'] = 'dict'
                elif any(e['vals']):
                    e['kind'] = 'dict'
                else:
                    e['kind'] = 'list'
                    e['vals'] = []
    fix(exp['anns'], got['anns'])
    for i, p in enumerate(exp['params']):
        fix(p['anns'], got['params'][i]['anns'] if i < len(got['params']) else [])
    for i, t in enumerate(exp['tags']):
        fix(t['anns'], got['tags'][i]['anns'] if i < len(got['tags']) else [])
    return exp


# ------------------------------------------------------------------------------------------------
def parallel_verdict(ck, module, obs, per=1500, threads=None):
    """ck.tlc_verdict on slices of obs in parallel TLC processes (each slice is a complete batch for the
    trace module; every record is judged exactly once).  Returns the rejected triples."""
    import copy
    from concurrent.futures import ThreadPoolExecutor
    from .common import NCPU
    threads = threads or max(1, NCPU // 2)
    slices = [obs[k:k + per] for k in range(0, len(obs), per)]

    def one(i):
        c2 = copy.copy(ck)                      # shares cov / notes with ck; private scratch dir
        c2.tmp = os.path.join(ck.tmp, 'v%d' % i)
        os.makedirs(c2.tmp, exist_ok=True)
        rej, _ = c2.tlc_verdict(module, slices[i], chunk=per, timeout=7500)
        return rej
    rejected = []
    with ThreadPoolExecutor(max_workers=threads) as ex:
        for rej in ex.map(one, range(len(slices))):
            rejected += rej
    return rejected


# ------------------------------------------------------------------------------------------------
# line-class abstraction of a concrete comment text (for the upstream fixtures): text -> the Line
# records of tla/CommentBlock.tla, expected tree -> abstract tree over the same opaque ids.
# Returns None where the text is outside the vocabulary of the spec (deprecated tags, odd asterisks, ...);
# used only for DRIFT notes (spec's own parser vs upstream's expected tree), never for a verdict.

_RET = r'returns\s+value|return\s+value|returns|return'
_TAG = re.compile(r'^\s*(%s|since|deprecated|stability)\s*:\s*(.*?)\s*$' % _RET, re.I)
_OTHERTAG = re.compile(r'^\s*(description|attributes|get\s+value\s+func|ref\s+func|rename\s+to|set\s+value\s+func|transfer|type|unref\s+func|value|virtual)\s*:', re.I)
_PARAM = re.compile(r'^\s*@([\w-]*\w|.*?\.\.\.)\s*:\s*(.*?)\s*$')
_LINE0 = dict(k='text', form='', name='', ind=0, colon=False, anns=[], acolon=False, val='', vcolon=False, t='none', n=0, af='none', pre=False)


def _split_anns(fields):
    """'(a b) (c): text' -> ([ann texts], colon?, rest) ; None if not cleanly a sequence of annotations"""
    anns, i, n = [], 0, len(fields)
    while i < n:
        if fields[i].isspace():
            i += 1
            continue
        if fields[i] != '(':
            break
        depth, j = 0, i
        while j < n:
            if fields[j] == '(':
                depth += 1
            elif fields[j] == ')':
                depth -= 1
                if depth == 0:
                    break
            j += 1
        if j >= n:
            return None
        body = fields[i + 1:j].strip()
        if not body or '(' + body == fields[i:j] and body.startswith('('):
            return None
        anns.append(body)
        i = j + 1
    rest = fields[i:].strip()
    colon = rest.startswith(':')
    if colon:
        rest = rest[1:].strip()
    return anns, colon, rest


def _ann_name(body):
    nm = body.split(' ', 1)[0].lower()
    return {'in-out': 'inout', 'attribute': 'attributes'}.get(nm, nm)


def abstract_fixture(text, exp):
    src = re.split(r'\r\n|\r|\n', text)
    if len(src) < 3 or not re.match(r'^\s*/\*\*\s*$', src[0]) or not re.match(r'^\s*\*+/\s*$', src[-1]) or not exp['present']:
        return None
    texts = {}

    def tid(s):
        s = s.strip()
        if s not in texts:
            texts[s] = len(texts) + 1
        return ('paren' if s.startswith('(') else 'plain'), texts[s]

    lines, partanns, part, raw = [], {}, None, {}
    ids = 'abcdefghijklmnop'

    def take(part, bodies):
        lst = partanns.setdefault(part, [])
        out = []
        for b in bodies:
            out.append(ids[len(lst)])
            lst.append(_ann_name(b))
        return out

    for li, sl in enumerate(src[1:-1]):
        m = re.match(r'^\s*\*\s?(.*)$', sl)
        if not m:
            return None
        body = m.group(1)
        ws = len(body) - len(body.lstrip())
        ind = len(body[:ws].replace('\t', '  '))
        l = dict(_LINE0, ind=ind)
        b = body.strip()
        if li == 0:
            mm = None
            for form, rx in (('section', r'^SECTION\s*(:?)\s*(\w\S+?)\s*(:?)$'), ('prop', r'^\w+\s*:\s*[\w-]*\w\s*(:?)\s*(.*)$'),
                             ('signal', r'^\w+\s*::\s*[\w-]*\w\s*(:?)\s*(.*)$'), ('action', r'^\w+\s*\|\s*[\w-]+\.[\w-]+\s*(:?)\s*(.*)$'),
                             ('field', r'^\w+\s*\.\s*[\w-]*\w\s*(:?)\s*(.*)$'), ('symbol', r'^[\w-]*\w\s*(:?)\s*(.*)$')):
                mm = re.match(rx, b)
                if mm:
                    break
            if not mm:
                return None
            part = 'id'
            l.update(k='ident', form=form)
            if form == 'section':
                l['colon'] = bool(mm.group(1))
            else:
                l['colon'] = bool(mm.group(1))
                sp = _split_anns(mm.group(2))
                if sp is None or sp[2] or form == 'action' and sp[0]:
                    return None
                l['anns'] = take('id', sp[0])
                l['acolon'] = sp[1]
        elif _PARAM.match(body):
            mm = _PARAM.match(body)
            name = mm.group(1)
            if name.lower() == 'returns':
                name = 'returns'
            elif name == 'Varargs' or (name.endswith('...') and name != '...'):
                return None
            part = name
            sp = _split_anns(mm.group(2))
            if sp is None:
                return None
            l.update(k='param', name=name, anns=take(part, sp[0]), acolon=sp[1] and bool(sp[0]))
            if sp[1] and not sp[0]:
                return None
            if sp[2]:
                l['t'], l['n'] = tid(sp[2])
        elif b == '':
            l.update(k='empty', ind=0)
        elif _OTHERTAG.match(body):
            return None
        elif _TAG.match(body):
            mm = _TAG.match(body)
            nm = mm.group(1).lower()
            nm = 'returns' if nm.startswith('return') else nm
            sp = _split_anns(mm.group(2))
            if sp is None or (sp[1] and not sp[0]):
                return None
            l.update(k='tag', name=nm)
            rest = sp[2]
            if nm == 'returns':
                l.update(anns=sp[0], acolon=sp[1])
            elif sp[0]:
                return None
            else:
                vm = re.match(r'^([0-9.]*)\s*(:?)\s*(.*)$', rest) if nm != 'stability' else \
                    re.match(r'^((?:stable|unstable|private|internal)?)\s*(:?)\s*(.*)$', rest, re.I)
                if vm.group(1):
                    l.update(val='v', vcolon=bool(vm.group(2)))
                    rest = vm.group(3)
                elif vm.group(2):
                    return None
            if rest:
                l['t'], l['n'] = tid(rest)
            raw[b] = l['n']
            l['_part'] = nm
        elif b.startswith('('):
            sp = _split_anns(b)
            if sp is None or not sp[0]:
                return None
            l.update(anns=['?'] * len(sp[0]), acolon=sp[1])
            l['_bodies'] = sp[0]
            if sp[2]:
                l['t'], l['n'] = tid(sp[2])
            raw[b] = l['n']
        else:
            l['t'], l['n'] = tid(b)
        lines.append(l)
    # annotation ids of tag lines / continuation lines need the part the spec's parser would be in: approximate
    # by "last part line seen" (identifier before any @param / tag line)
    part = 'id'
    for l in lines:
        if l['k'] == 'ident':
            part = 'id'
        elif l['k'] == 'param':
            part = l['name']
        elif l['k'] == 'tag':
            part = l.pop('_part')
            if l['anns']:
                l['anns'] = take(part, l['anns'])
        elif '_bodies' in l:
            l['anns'] = take(part, l.pop('_bodies'))

    def a_anns(part, eanns):
        have = partanns.get(part, [])
        out = []
        for e in eanns:
            if e['name'] not in have:
                raise KeyError(e['name'])
            out.append(ids[have.index(e['name'])])
        return out

    def a_desc(d):
        out = []
        for x in d:
            if x['txt'] == '' and x['ind'] == 0:
                out.append(dict(ind=0, t='', n=0))
            elif x['txt'].strip() in raw:
                out.append(dict(ind=x['ind'], t='raw', n=raw[x['txt'].strip()]))     # Img(l) of a tag-like / annotation-like line
            elif x['txt'].strip() in texts:
                out.append(dict(ind=x['ind'], t='paren' if x['txt'].startswith('(') else 'plain', n=texts[x['txt'].strip()]))
            else:
                raise KeyError(x['txt'])
        return out
    try:
        model = dict(present=True, name=lines[0]['form'], anns=a_anns('id', exp['anns']),
                     params=[dict(name=p['name'], anns=a_anns(p['name'], p['anns']), desc=a_desc(p['desc'])) for p in exp['params']],
                     desc=a_desc(exp['desc']),
                     tags=[dict(name=t['name'], anns=a_anns(t['name'], t['anns']), val='v' if t['val'] else '', desc=a_desc(t['desc']))
                           for t in exp['tags']])
    except KeyError:
        return None
    return lines, model

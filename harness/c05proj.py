"""C05 helper: (a) GIR XML -> flat observation for tla/IntrospectTrace.tla, (b) abstract graph case ->
real scanner input (symbols, comment blocks, GType dump).

An index record carries, next to the index and the number of parameters (fields), the name found at that position
(`pname`, "" when out of range) and `want`: the name the generating annotation named ("" = unknown; filled by the
check for the inputs it rendered itself, see extra_wants).

(a) is a dumb structural flattening of `girabs` trees: it copies tags, attribute values, attribute
presence, child counts and positions into flat records.  It never decides whether a name is
fundamental, resolves, is introspectable, is a callback...: all of that is judged by TLC
(tla/IntrospectProp.tla).  The only string surgery is syntactic: a name without '.' is prefixed
with the namespace of the file it occurs in (`q`), and the part before the '.' is `tns`.
"""
import glob, os

from .scan import girabs, namespace_of

TYPE_DEFINING = ('alias', 'callback', 'record', 'union', 'class', 'interface', 'enumeration', 'bitfield',
                 'glib:boxed')
CALLABLES = ('function', 'function-inline', 'method', 'method-inline', 'constructor', 'virtual-method',
             'glib:signal', 'callback')
CONTAINERS = ('record', 'union', 'class', 'interface', 'enumeration', 'bitfield', 'glib:boxed')
TYPE_TAGS = ('type', 'array', 'varargs')


def _qual(ns, name):
    if not name:
        return '', ''
    if '.' in name:
        return name, name.split('.', 1)[0]
    return ns + '.' + name, ns


def _name_of(e):
    return e['attrs'].get('name') or e['attrs'].get('glib:name') or ''


def defs_of(tree, complete=True):
    """{qualified name: {kind, intro, target}} for the type-defining top-level elements of a GIR tree."""
    ns = namespace_of(tree)
    if ns is None:
        return None, {}
    nsname = ns['attrs'].get('name', '')
    out = {}
    for c in ns['children']:
        if c['tag'] not in TYPE_DEFINING:
            continue
        n = _name_of(c)
        if not n:
            continue
        target = ''
        if c['tag'] == 'alias':
            for t in c['children']:
                if t['tag'] in TYPE_TAGS:
                    target = _qual(nsname, t['attrs'].get('name', ''))[0]
                    break
        out[nsname + '.' + n] = dict(kind=c['tag'], intro=c['attrs'].get('introspectable') != '0', target=target)
    return nsname, out


def includes_of(tree):
    return [c['attrs'].get('name', '') for c in tree['children'] if c['tag'] == 'include']


def included_closure(tree, by_ns):
    """names of the namespaces transitively included by `tree` for which a GIR is available
    (by_ns: {nsname: tree})"""
    seen, todo = [], list(includes_of(tree))
    while todo:
        n = todo.pop(0)
        if n in seen or n not in by_ns:
            continue
        seen.append(n)
        todo += includes_of(by_ns[n])
    return seen


def project(tree, oid, others=(), partial=(), inferred=False):
    """tree: girabs() of the GIR under judgement; others: [(nsname, defs)] of the (transitively)
    included namespaces that are available for cross-namespace resolution; partial: names of
    available namespaces whose GIR is known to be incomplete (the harness' synthetic GLib/GObject/Gio);
    inferred: the input is known to carry no (setter)/(getter)/(set-property)/(get-property) annotation."""
    nsname, defs = defs_of(tree)
    ns = namespace_of(tree)
    avail = [nsname]
    for on, od in others:
        if on and on != nsname:
            avail.append(on)
            for k, v in od.items():
                defs.setdefault(k, v)
    defs['~'] = dict(kind='none', intro=True, target='')          # never empty
    uses, idx, pairs = [], [], []

    def name_at(names, i):
        return names[i] if 0 <= i < len(names) else ''

    def emit_types(holder, path, okind, site, marked, nparams, nfields, names=()):
        a = holder['attrs']
        for t in holder['children']:
            if t['tag'] in TYPE_TAGS:
                emit_type(t, path, okind, site, marked, 0, 'transfer-ownership' in a, 'scope' in a,
                          a.get('skip') == '1', nparams, nfields, names)

    def emit_type(t, path, okind, site, marked, depth, has_xfer, has_scope, vskip, nparams, nfields, names=()):
        kids = [k for k in t['children'] if k['tag'] in TYPE_TAGS]
        name = t['attrs'].get('name', '')
        q, tns = _qual(nsname, name)
        uses.append(dict(id=path, okind=okind, site=site if depth == 0 else 'element', marked=marked, tag=t['tag'],
                         name=name, q=q, tns=tns, depth=depth, nkids=len(kids),
                         kid1=kids[0]['attrs'].get('name', '') if kids else '',
                         hasXfer=has_xfer, hasScope=has_scope, vskip=vskip))
        if t['tag'] == 'array' and 'length' in t['attrs']:
            idx.append(dict(id=path, kind='length', idx=_int(t['attrs']['length']),
                            n=nparams if nparams >= 0 else nfields, marked=marked,
                            pname=name_at(names, _int(t['attrs']['length'])), want=''))
        for k in kids:
            emit_type(k, path, okind, site, marked, depth + 1, has_xfer, has_scope, vskip, nparams, nfields, names)

    def callable_(e, path, marked, scope_path):
        tag = e['tag']
        marked = marked or e['attrs'].get('introspectable') == '0'
        params = []
        for c in e['children']:
            if c['tag'] == 'parameters':
                params = c['children']
        plain = [p for p in params if p['tag'] == 'parameter']
        n = len(plain)
        pnames = [p['attrs'].get('name', '') for p in plain]
        for c in e['children']:
            if c['tag'] == 'return-value':
                emit_types(c, path + '/return', tag, 'return', marked, n, -1, pnames)
        for p in params:
            if p['tag'] == 'instance-parameter':
                emit_types(p, path + '/instance', tag, 'instance', marked, n, -1)
            elif p['tag'] == 'parameter':
                pp = path + '/param:' + p['attrs'].get('name', '')
                emit_types(p, pp, tag, 'param', marked, n, -1, pnames)
                for k in ('closure', 'destroy'):
                    if k in p['attrs']:
                        idx.append(dict(id=pp, kind=k, idx=_int(p['attrs'][k]), n=n, marked=marked,
                                        pname=name_at(pnames, _int(p['attrs'][k])), want=''))
        a = e['attrs']
        nm = _name_of(e)
        if tag in ('function', 'function-inline', 'method', 'method-inline', 'constructor'):
            fk = 'method' if tag.startswith('method') else tag.replace('-inline', '')
            pairs.append(dict(kind='fn', scope=scope_path, name=nm, attr=fk, value=''))
            for k in ('shadows', 'shadowed-by'):
                if k in a:
                    pairs.append(dict(kind='fn', scope=scope_path, name=nm, attr=k, value=a[k]))
            for k in ('glib:set-property', 'glib:get-property'):
                if k in a:
                    pairs.append(dict(kind='fn', scope=scope_path, name=nm, attr=k[5:], value=a[k]))
        if tag == 'virtual-method' and 'invoker' in a:
            pairs.append(dict(kind='vfunc', scope=scope_path, name=nm, attr='invoker', value=a['invoker']))

    def compound(e, path, marked, toplevel):
        marked = marked or e['attrs'].get('introspectable') == '0'
        a = e['attrs']
        nm = _name_of(e)
        if toplevel:
            for k in ('glib:type-struct', 'glib:is-gtype-struct-for'):
                if k in a:
                    pairs.append(dict(kind='typestruct', scope=nsname, name=nm, attr=k[5:], value=a[k]))
        members = [c for c in e['children'] if c['tag'] in ('field', 'record', 'union')]
        nfields = len(members)
        fnames = [_name_of(m) for m in members]
        for c in e['children']:
            t = c['tag']
            cn = _name_of(c)
            if t in CALLABLES:
                callable_(c, '%s/%s:%s' % (path, t, cn), marked, path)
            elif t == 'field':
                fm = marked or c['attrs'].get('introspectable') == '0'
                fp = '%s/field:%s' % (path, cn)
                emit_types(c, fp, 'field', 'field', fm, -1, nfields, fnames)
                for k in c['children']:
                    if k['tag'] == 'callback':
                        callable_(k, fp + '/callback:' + _name_of(k), fm, fp)
            elif t == 'property':
                pm = marked or c['attrs'].get('introspectable') == '0'
                emit_types(c, '%s/property:%s' % (path, cn), 'property', 'property', pm, -1, -1)
                pairs.append(dict(kind='prop', scope=path, name=cn, attr='property', value=''))
                for k in ('setter', 'getter'):
                    if k in c['attrs']:
                        pairs.append(dict(kind='prop', scope=path, name=cn, attr=k, value=c['attrs'][k]))
            elif t in ('record', 'union'):
                compound(c, '%s/%s:%s' % (path, t, cn), marked, False)

    for c in (ns['children'] if ns else []):
        t = c['tag']
        n = _name_of(c)
        path = '%s.%s' % (nsname, n)
        marked = c['attrs'].get('introspectable') == '0'
        if t == 'alias':
            emit_types(c, path, 'alias', 'target', marked, -1, -1)
        elif t == 'constant':
            emit_types(c, path, 'constant', 'constant', marked, -1, -1)
        elif t in CALLABLES:
            callable_(c, path, False, nsname)
        elif t in CONTAINERS:
            compound(c, path, False, True)
    return dict(id=oid, ns=nsname, avail=sorted(set(avail)), partial=sorted(set(partial) & set(avail)),
                inferred=bool(inferred), defs=defs,
                uses=uses, idx=idx, pairs=pairs)


def _int(s):
    try:
        return int(s)
    except (TypeError, ValueError):
        return -1


def load_gir_dirs(dirs, patterns=('*.gir', '*.gir.in')):
    """[(path, tree, nsname, defs)] for every parsable GIR file in dirs."""
    out = []
    for d in dirs:
        for pat in patterns:
            for f in sorted(glob.glob(os.path.join(d, pat))):
                try:
                    tree = girabs(open(f, 'rb').read())
                except Exception:
                    continue
                nsname, defs = defs_of(tree)
                if nsname:
                    out.append((f, tree, nsname, defs))
    return out


# ====================================================================== (b) abstract case -> scanner input
# case = {"nodes": [NodeRec...], "order": [ids]}   (schema of tla/IntrospectWalks.tla)
PREFIX = {'alias': 'A', 'callback': 'Cb', 'function': 'f', 'record': 'R', 'enum': 'E', 'class': 'K'}


def gi_name(i, kind):
    return '%s%d' % (PREFIX[kind], i)


def c_name(i, kind):
    return 'foo_f%d' % i if kind == 'function' else 'Foo' + gi_name(i, kind)


def render(case, S):
    """-> dict(symbols, comments, dump_xml, names[per node: qualified GIR name], realizable)
    S = harness.scan (symgen).  The symbols are emitted in case['order']; GType-dump classes are
    appended by the scanner after everything else (the model orders them last as well)."""
    nodes = case['nodes']
    kind = {i + 1: n['kind'] for i, n in enumerate(nodes)}

    def ctype(s, by_value=False):
        if s['cont'] == 'list':
            return 'GList *'
        tk = s['tk']
        if tk == 'node':
            k = kind[s['tgt']]
            cn = c_name(s['tgt'], k)
            return cn + ' *' if k in ('record', 'class') and not by_value else cn
        return {'fund': 'int', 'valist': 'va_list', 'longlong': 'long long', 'longdouble': 'long double',
                'unres': 'BarUnknown' if by_value else 'BarUnknown *', 'foreign': 'GBytes' if by_value else 'GBytes *',
                'any': 'gpointer'}[tk]

    def elem(s):
        if s['tk'] == 'node':
            return c_name(s['tgt'], kind[s['tgt']])
        return {'fund': 'gint', 'unres': 'BarUnknown'}[s['tk']]

    def value_ann(s):
        a = []
        if s['vskip']:
            a.append('(skip)')
        if s['role'] == 'return' and s['xfer'] and (s['cont'] == 'list' or s['tk'] == 'node'):
            a.append('(transfer none)')
        if s['cont'] == 'list' and s['tk'] != 'any':
            a.append('(element-type %s)' % elem(s))
        return a

    def callable_parts(s, allow_scope_ann):
        """-> (ret ctype, params[(ctype,name)], varargs, param annotations, return annotations)"""
        if s['role'] == 'return':
            return ctype(s), [], False, [], value_ann(s)
        if s['tk'] == 'varargs':
            return 'void', [('int', 'n')], True, (['(skip)'] if s['vskip'] else []), []
        pa = value_ann(s)
        params = [(ctype(s), 'x')]
        if s['scope']:
            if allow_scope_ann:
                pa.append('(scope call)')
            else:
                params.append(('GDestroyNotify', 'destroy'))    # scope notified through the heuristic
        return 'void', params, False, pa, []

    def block(ident, node_ann, pname, pann, rann, line):
        t = ['/**', ' * %s:%s' % (ident, (' ' + ' '.join(node_ann)) if node_ann else '')]
        if pann:
            t.append(' * @%s: %s: p' % (pname, ' '.join(pann)))
        if rann:
            t += [' *', ' * Returns: %s: r' % ' '.join(rann)]
        t.append(' */')
        return ('\n'.join(t), '/src/foo.c', line)

    symbols, comments, dump, names = [], [], [], {}
    moved_host = [i for i in case['order'] if kind[i] in ('record', 'enum')]
    for n in nodes:
        n.setdefault('ren', 0)
        n.setdefault('host', 0)
    for pos, i in enumerate(case['order']):
        n = nodes[i - 1]
        k = n['kind']
        s = n['site']
        cn = c_name(i, k)
        line = 10 * (pos + 1)
        nann = ['(skip)'] if n['nskip'] else []
        names[i] = 'Foo.' + gi_name(i, k)
        if k == 'alias':
            symbols.append(S.alias(cn, ctype(s, by_value=True), line=line))
            if nann:
                comments.append(block(cn, nann, None, [], [], line))
        elif k in ('callback', 'function'):
            ret, params, va, pann, rann = callable_parts(s, k == 'function')
            pname = '...' if va else 'x'
            if k == 'callback':
                symbols.append(S.callback(cn, ret, params, varargs=va, line=line))
            elif n['host'] and kind[n['host']] == 'record':      # a method of that record: first parameter = the record
                h = n['host']
                cn = 'foo_r%d_f%d' % (h, i)
                names[i] = 'Foo.%s/method:f%d' % (gi_name(h, 'record'), i)
                symbols.append(S.function(cn, ret, [(c_name(h, 'record') + ' *', 'self')] + params, varargs=va, line=line))
            else:
                # (a function whose first parameter is the host record would become a method, not a static copy)
                hosts = [h for h in moved_host if not (s['role'] == 'param' and s['tk'] == 'node' and s['tgt'] == h)]
                if n.get('moved') and hosts:
                    h = hosts[0]
                    cn = 'foo_%s%d_fn%d' % (PREFIX[kind[h]].lower(), h, i)
                    names[i] = 'Foo.%s%d_fn%d' % (PREFIX[kind[h]].lower(), h, i)
                symbols.append(S.function(cn, ret, params, varargs=va, line=line))
                if n['ren']:        # (rename-to <method set_p of class ren>): a target in another container
                    nann = nann + ['(rename-to foo_k%d_set_p)' % n['ren']]
            if nann or pann or rann:
                comments.append(block(cn, nann, pname, pann, rann, line))
        elif k == 'record':
            symbols.append(S.typedef_struct(cn, '_' + cn, line=line))
            symbols.append(S.struct_def('_' + cn, [(ctype(s), 'f')], line=line + 1))
            fa = value_ann(s)
            if nann or fa:
                comments.append(block(cn, nann, 'f', fa, [], line))
        elif k == 'enum':
            symbols.append(S.typedef_enum(cn, [('FOO_E%d_A' % i, 0), ('FOO_E%d_B' % i, 1)], line=line))
            if nann:
                comments.append(block(cn, nann, None, [], [], line))
        elif k == 'class':
            lc = 'foo_k%d' % i
            ret, params, va, pann, rann = callable_parts(s, True)
            symbols.append(S.typedef_struct(cn, '_' + cn, line=line))
            symbols.append(S.typedef_struct(cn + 'Class', '_' + cn + 'Class', line=line))
            symbols.append(S.struct_def('_' + cn, [('GObject', 'parent_instance')], line=line + 1))
            symbols.append(S.struct_def('_' + cn + 'Class', [
                ('GObjectClass', 'parent_class'),
                S.member(S.funcptr('void', [(cn + ' *', 'self')] + params, varargs=va), 'set_p')], line=line + 2))
            symbols.append(S.function(lc + '_get_type', 'GType', [], line=line + 3))
            symbols.append(S.function(lc + '_set_p', 'void', [(cn + ' *', 'self')] + params, varargs=va, line=line + 4))
            if pann:
                comments.append(block(lc + '_set_p', [], '...' if va else 'x', pann, [], line + 4))
            if nann:
                comments.append(block(cn, nann, None, [], [], line))

            def gtn(st_):
                if st_['tk'] == 'node':
                    return c_name(st_['tgt'], kind[st_['tgt']])
                return {'fund': 'gint', 'unres': 'BarNope'}.get(st_['tk'], 'gint')
            dump.append('<class name="%s" get-type="%s_get_type" parents="GObject">'
                        '<property name="p" type="%s" flags="3"/>'
                        '<signal name="sig" return="void"><param type="%s"/><param type="%s"/></signal></class>'
                        % (cn, lc, gtn(n['psite']), cn, gtn(n['ssite'])))
    line = 10 * (len(case['order']) + 2)
    for xi, x in enumerate(case.get('extras', [])):
        line = render_extra(S, xi + 1, x, kind, symbols, comments, dump, line)
    dump_xml = ('<?xml version="1.0"?><dump>%s</dump>' % ''.join(dump)) if dump else None
    return dict(symbols=symbols, comments=comments, dump_xml=dump_xml,
                names=[names[i + 1] for i in range(len(nodes))])


# ---------------------------------------------------------------------- extras: cross-reference features
# An extra is a leaf declaration appended after the graph nodes (nothing refers to it, the implementation-
# shaped layer does not predict it; its GIR is judged by Closed like everything else).  Abstract form:
#   {"kind": K, "v": variant, "tgt": node id or 0 (type slot filled from the graph), "host": record id or 0
#    (declare the callable as a method of that record: indices then count without the instance parameter)}
#   arrlen    v in in|out|ret|late            array parameter / return value with a length parameter
#   fieldarr  v in after|before               record field array whose length is another field
#   clos      v in heur|ann|call|async|destroyonly|noscope|cbdata    callback + user_data + GDestroyNotify
#   shadow    v in pair|dangling|chain|self|cross    (rename-to) -> shadows / shadowed-by
#   klass     v = "<flags>:<methods>:<vfunc>"  GObject class: boolean property `active` (GParamFlags value),
#             accessor methods out of s(et_active) g(et_active) i(s_active), vfunc `changed` with its invoker
#             found by name (n), by (virtual) annotation (a) or absent (-)
#   cont      v = "<container>:<element>:<site>"  GList GSList GPtrArray GArray GHashTable carray x
#             none|utf8|int|unres|node x param|return|field
#   exotic    v in ulonglong-ret|longdouble-param|valist-param|longlong-field|varargs|ulonglong-alias
EXTRA_VARIANTS = {
    'arrlen': ['in', 'out', 'ret', 'late'],
    'fieldarr': ['after', 'before'],
    'clos': ['heur', 'ann', 'call', 'async', 'destroyonly', 'noscope', 'cbdata'],
    'shadow': ['pair', 'dangling', 'chain', 'self', 'cross'],
    'klass': ['%d:%s:%s' % (f, m, vf) for f in (1, 2, 3, 11) for m in ('sg', 'sgi', 'gi', 's', 'i', '') for vf in ('n', 'a', '-')],
    'cont': ['%s:%s:%s' % (c, e, st) for c in ('GList', 'GSList', 'GPtrArray', 'GArray', 'GHashTable', 'carray')
             for e in ('none', 'utf8', 'int', 'unres', 'node') for st in ('param', 'return', 'field')],
    'exotic': ['ulonglong-ret', 'longdouble-param', 'valist-param', 'longlong-field', 'varargs', 'ulonglong-alias'],
    'movedm': ['ret-last', 'ret-mid', 'param', 'param-late', 'clos', 'clos-ann'],
    'vslot': ['ret-last', 'ret-mid', 'param', 'param-late', 'clos', 'clos-ann'],
}
NEEDS_RECORD = ('movedm', )


def _sig(v, cbt):
    """(return ctype, params, param annotations, return annotations) shared by movedm / vslot variants"""
    if v == 'ret-last':
        return 'int *', [('int', 'flags'), ('gsize *', 'n_data')], [('n_data', ['(out)'])], ['(array length=n_data)', '(transfer full)']
    if v == 'ret-mid':
        return 'int *', [('gsize *', 'n_data'), ('int', 'flags')], [('n_data', ['(out)'])], ['(array length=n_data)', '(transfer full)']
    if v == 'param':
        return 'void', [('const int *', 'data'), ('gsize', 'n_data')], [('data', ['(array length=n_data)'])], []
    if v == 'param-late':
        return 'void', [('gsize', 'n_data'), ('int', 'flags'), ('const int *', 'data')], [('data', ['(array length=n_data)'])], []
    if v == 'clos':
        return 'void', [(cbt, 'cb'), ('gpointer', 'user_data'), ('GDestroyNotify', 'notify')], [], []
    return 'void', [('int', 'flags'), ('GDestroyNotify', 'notify'), ('gpointer', 'user_data'), (cbt, 'cb')], \
        [('cb', ['(scope notified)', '(closure user_data)', '(destroy notify)'])], []


def extra_wants(x):
    """{(index kind, leaf of the owner's path): name the annotation (or the heuristic on the conventional parameter
    names) points at} for the declarations render_extra() makes of extra x - what the input says, not a judgement"""
    k, v = x['kind'], x['v']
    if k == 'arrlen':
        return {('length', 'return' if v == 'ret' else 'param:data'): 'n_data'}
    if k == 'fieldarr':
        return {('length', 'field:items'): 'n_items'}
    if k == 'clos':
        return {'heur': {('closure', 'param:cb'): 'user_data', ('destroy', 'param:cb'): 'notify'},
                'ann': {('closure', 'param:cb'): 'ctx', ('destroy', 'param:cb'): 'dn'},
                'call': {('closure', 'param:cb'): 'user_data'},
                'async': {('closure', 'param:callback'): 'user_data'}}.get(v, {})
    if k in ('movedm', 'vslot'):
        if v.startswith('ret'):
            return {('length', 'return'): 'n_data'}
        if v.startswith('param'):
            return {('length', 'param:data'): 'n_data'}
        return {('closure', 'param:cb'): 'user_data', ('destroy', 'param:cb'): 'notify'}
    return {}


def render_extra(S, n, x, kind, symbols, comments, dump, line):
    k, v, tgt, host = x['kind'], x['v'], x.get('tgt', 0), x.get('host', 0)
    if k in NEEDS_RECORD and not (host and kind.get(host) == 'record'):
        recs = [i for i in sorted(kind) if kind[i] == 'record']
        host = recs[0] if recs else 0
    hostrec = host and kind.get(host) == 'record'
    pfx = ('foo_r%d_x%d' % (host, n)) if hostrec else 'foo_x%d' % n
    selfp = [(c_name(host, 'record') + ' *', 'self')] if hostrec else []

    def doc(ident, node_ann=(), params=(), ret=()):
        t = ['/**', ' * %s:%s' % (ident, (' ' + ' '.join(node_ann)) if node_ann else '')]
        for pn, pa in params:
            t.append(' * @%s: %s%sp' % (pn, ' '.join(pa), ': ' if pa else ''))
        if ret:
            t += [' *', ' * Returns: %s: r' % ' '.join(ret)]
        t.append(' */')
        comments.append(('\n'.join(t), '/src/foo.c', line))

    def tgt_ctype(default):
        if tgt and kind.get(tgt) in ('alias', 'callback', 'enum'):
            return c_name(tgt, kind[tgt])
        if tgt and kind.get(tgt) in ('record', 'class'):
            return c_name(tgt, kind[tgt]) + ' *'
        return default

    if k == 'arrlen':
        el = tgt_ctype('int')
        if v == 'in':
            symbols.append(S.function(pfx + '_arr', 'void', selfp + [('const ' + el + ' *', 'data'), ('gsize', 'n_data')], line=line))
            doc(pfx + '_arr', params=[('data', ['(array length=n_data)']), ('n_data', [])])
        elif v == 'late':
            symbols.append(S.function(pfx + '_arr', 'void', selfp + [('gsize', 'n_data'), ('int', 'flags'), ('const ' + el + ' *', 'data')], line=line))
            doc(pfx + '_arr', params=[('data', ['(array length=n_data)'])])
        elif v == 'out':
            symbols.append(S.function(pfx + '_arr', 'void', selfp + [(el + ' **', 'data'), ('gsize *', 'n_data')], line=line))
            doc(pfx + '_arr', params=[('data', ['(out)', '(array length=n_data)', '(transfer full)']), ('n_data', ['(out)'])])
        else:
            symbols.append(S.function(pfx + '_arr', el + ' *', selfp + [('int', 'flags'), ('gsize *', 'n_data')], line=line))
            doc(pfx + '_arr', params=[('n_data', ['(out)'])], ret=['(array length=n_data)', '(transfer full)'])
    elif k == 'fieldarr':
        cn = 'FooX%d' % n
        fields = [('guint', 'n_items'), ('int *', 'items')]
        if v == 'before':
            fields = [('int', 'pad')] + fields[::-1]
        symbols.append(S.typedef_struct(cn, '_' + cn, line=line))
        symbols.append(S.struct_def('_' + cn, fields, line=line + 1))
        doc(cn, params=[('items', ['(array length=n_items)'])])
    elif k == 'clos':
        cb = 'FooX%dCb' % n
        cbt = cb
        if tgt and kind.get(tgt) in ('alias', 'callback'):
            cbt = c_name(tgt, kind[tgt])
        symbols.append(S.callback(cb, 'void', [('int', 'x'), ('gpointer', 'user_data')], line=line))
        fn = pfx + '_each'
        if v == 'heur':
            symbols.append(S.function(fn, 'void', selfp + [(cbt, 'cb'), ('gpointer', 'user_data'), ('GDestroyNotify', 'notify')], line=line + 1))
        elif v == 'ann':
            symbols.append(S.function(fn, 'void', selfp + [('int', 'flags'), ('GDestroyNotify', 'dn'), ('gpointer', 'ctx'), (cbt, 'cb')], line=line + 1))
            doc(fn, params=[('cb', ['(scope notified)', '(closure ctx)', '(destroy dn)'])])
        elif v == 'call':
            symbols.append(S.function(fn, 'void', selfp + [(cbt, 'cb'), ('gpointer', 'user_data')], line=line + 1))
            doc(fn, params=[('cb', ['(scope call)'])])
        elif v == 'async':
            symbols.append(S.function(fn, 'void', selfp + [('int', 'x'), ('GAsyncReadyCallback', 'callback'), ('gpointer', 'user_data')], line=line + 1))
        elif v == 'destroyonly':
            symbols.append(S.function(fn, 'void', selfp + [('gpointer', 'data'), ('GDestroyNotify', 'free_func')], line=line + 1))
        elif v == 'noscope':
            symbols.append(S.function(fn, 'void', selfp + [(cbt, 'cb')], line=line + 1))
        else:   # cbdata: the callback's own user_data carries (closure)
            symbols.append(S.function(fn, 'void', selfp + [(cbt, 'cb'), ('gpointer', 'user_data')], line=line + 1))
            doc(fn, params=[('cb', ['(scope async)']), ('user_data', ['(closure cb)'])])
    elif k == 'shadow':
        a, b, c = pfx + '_a', pfx + '_a_full', pfx + '_a_fuller'
        symbols.append(S.function(a, 'void', selfp + [('int', 'x')], line=line))
        symbols.append(S.function(b, 'void', selfp + [('int', 'x'), ('int', 'y')], line=line + 1))
        if v == 'pair':
            doc(b, ['(rename-to %s)' % a])
        elif v == 'dangling':
            doc(b, ['(rename-to %s_missing)' % a])
        elif v == 'self':
            doc(b, ['(rename-to %s)' % b])
        elif v == 'chain':
            symbols.append(S.function(c, 'void', selfp + [('int', 'x'), ('int', 'y'), ('int', 'z')], line=line + 2))
            doc(b, ['(rename-to %s)' % a])
            doc(c, ['(rename-to %s)' % b])
        else:   # cross: the renamed function lives in another container than its target
            o = 'foo_x%d_other' % n if hostrec else None
            if o:
                symbols.append(S.function(o, 'void', [('int', 'x'), ('int', 'y'), ('int', 'z')], line=line + 2))
                doc(o, ['(rename-to %s)' % a])
            else:
                doc(b, ['(rename-to %s)' % a])
    elif k == 'klass':
        flags, meths, vf = v.split(':')
        cn, lc = 'FooX%d' % n, 'foo_x%d' % n
        symbols.append(S.typedef_struct(cn, '_' + cn, line=line))
        symbols.append(S.typedef_struct(cn + 'Class', '_' + cn + 'Class', line=line))
        symbols.append(S.struct_def('_' + cn, [('GObject', 'parent_instance')], line=line + 1))
        cfields = [('GObjectClass', 'parent_class')]
        if vf != '-':
            cfields.append(S.member(S.funcptr('void', [(cn + ' *', 'self'), ('int', 'x')]), 'changed'))
        symbols.append(S.struct_def('_' + cn + 'Class', cfields, line=line + 2))
        symbols.append(S.function(lc + '_get_type', 'GType', [], line=line + 3))
        if 's' in meths:
            symbols.append(S.function(lc + '_set_active', 'void', [(cn + ' *', 'self'), ('gboolean', 'active')], line=line + 4))
        if 'g' in meths:
            symbols.append(S.function(lc + '_get_active', 'gboolean', [(cn + ' *', 'self')], line=line + 5))
        if 'i' in meths:
            symbols.append(S.function(lc + '_is_active', 'gboolean', [(cn + ' *', 'self')], line=line + 6))
        if vf == 'n':
            symbols.append(S.function(lc + '_changed', 'void', [(cn + ' *', 'self'), ('int', 'x')], line=line + 7))
        elif vf == 'a':
            symbols.append(S.function(lc + '_emit_changed', 'void', [(cn + ' *', 'self'), ('int', 'x')], line=line + 7))
            doc(lc + '_emit_changed', ['(virtual changed)'])
        dump.append('<class name="%s" get-type="%s_get_type" parents="GObject">'
                    '<property name="active" type="gboolean" flags="%s"/></class>' % (cn, lc, flags))
    elif k == 'cont':
        cont, el, site = v.split(':')
        elc = {'utf8': 'utf8', 'int': 'gint', 'unres': 'BarUnknown'}.get(el)
        if el == 'node':
            elc = c_name(tgt, kind[tgt]) if tgt and kind.get(tgt) in ('alias', 'callback', 'record', 'enum', 'class') else 'gint'
        if cont == 'carray':
            ct = {'utf8': 'char **', 'unres': 'BarUnknown *'}.get(el, 'int *')
            if el == 'node' and elc != 'gint':
                ct = elc + ' *' + (' *' if kind.get(tgt) in ('record', 'class') else '')
            ann = ['(array zero-terminated=1)']
        else:
            ct = cont + ' *'
            ann = []
            if elc:
                ann = ['(element-type %s)' % (elc if cont != 'GHashTable' else 'utf8 ' + elc)]
        if site == 'param':
            symbols.append(S.function(pfx + '_take', 'void', selfp + [(ct, 'items')], line=line))
            doc(pfx + '_take', params=[('items', ann)])
        elif site == 'return':
            symbols.append(S.function(pfx + '_list', ct, selfp + [('int', 'x')], line=line))
            doc(pfx + '_list', ret=ann + ['(transfer container)'])
        else:
            cn = 'FooX%d' % n
            symbols.append(S.typedef_struct(cn, '_' + cn, line=line))
            symbols.append(S.struct_def('_' + cn, [('int', 'pad'), (ct, 'items')], line=line + 1))
            doc(cn, params=[('items', ann)])
    elif k == 'exotic':
        if v == 'ulonglong-ret':
            symbols.append(S.function(pfx + '_big', 'unsigned long long', selfp, line=line))
        elif v == 'longdouble-param':
            symbols.append(S.function(pfx + '_big', 'void', selfp + [('long double', 'x')], line=line))
        elif v == 'valist-param':
            symbols.append(S.function(pfx + '_big', 'void', selfp + [('const char *', 'fmt'), ('va_list', 'args')], line=line))
        elif v == 'varargs':
            symbols.append(S.function(pfx + '_big', 'void', selfp + [('const char *', 'fmt')], varargs=True, line=line))
        elif v == 'longlong-field':
            cn = 'FooX%d' % n
            symbols.append(S.typedef_struct(cn, '_' + cn, line=line))
            symbols.append(S.struct_def('_' + cn, [('int', 'pad'), ('long long', 'big')], line=line + 1))
        else:
            symbols.append(S.alias('FooX%dBig' % n, 'unsigned long long', line=line))
    elif k == 'movedm':
        # foo_r1s_x3_arr(FooR1 *things, ...): starts with the symbol prefix of the record but not with "prefix_" (the
        # g_resources_register() situation): stays a function AND gets a backwards-compatible method copy with moved-to
        cb = 'FooX%dCb' % n
        if v.startswith('clos'):
            symbols.append(S.callback(cb, 'void', [('int', 'x'), ('gpointer', 'user_data')], line=line))
        ret, params, pann, rann = _sig(v, cb)
        if host and kind.get(host) == 'record':
            fn = 'foo_r%ds_x%d_arr' % (host, n)
            params = [(c_name(host, 'record') + ' *', 'things')] + params
        else:
            fn = 'foo_x%d_arr' % n
        symbols.append(S.function(fn, ret, params, line=line + 1))
        doc(fn, params=pann, ret=rann)
    elif k == 'vslot':
        # a class-structure slot and the method that invokes it: <callback> field + <virtual-method> + <method>
        cn, lc = 'FooX%d' % n, 'foo_x%d' % n
        cb = 'FooX%dCb' % n
        if v.startswith('clos'):
            symbols.append(S.callback(cb, 'void', [('int', 'x'), ('gpointer', 'user_data')], line=line))
        ret, params, pann, rann = _sig(v, cb)
        symbols.append(S.typedef_struct(cn, '_' + cn, line=line))
        symbols.append(S.typedef_struct(cn + 'Class', '_' + cn + 'Class', line=line))
        symbols.append(S.struct_def('_' + cn, [('GObject', 'parent_instance')], line=line + 1))
        symbols.append(S.struct_def('_' + cn + 'Class', [
            ('GObjectClass', 'parent_class'),
            S.member(S.funcptr(ret, [(cn + ' *', 'self')] + params), 'get_data')], line=line + 2))
        symbols.append(S.function(lc + '_get_type', 'GType', [], line=line + 3))
        symbols.append(S.function(lc + '_get_data', ret, [(cn + ' *', 'self')] + params, line=line + 4))
        doc(lc + '_get_data', params=pann, ret=rann)
        doc('%sClass::get_data' % cn, params=pann, ret=rann)        # the slot's own block (an annotated return type
        #                                                               keeps the method from being paired as its invoker)
        dump.append('<class name="%s" get-type="%s_get_type" parents="GObject"></class>' % (cn, lc))
    else:
        raise ValueError('unknown extra %r' % (x, ))
    return line + 10


def marks_of(tree):
    """[{q, marked}] for the top-level elements and their direct members (structural)."""
    ns = namespace_of(tree)
    nsname = ns['attrs'].get('name', '')
    out = []
    for c in ns['children']:
        n = _name_of(c)
        if not n:
            continue
        q = '%s.%s' % (nsname, n)
        m = c['attrs'].get('introspectable') == '0'
        out.append(dict(q=q, marked=m))
        for k in c['children']:
            if k['tag'] in ('field', 'property', 'method', 'virtual-method', 'glib:signal', 'function', 'constructor'):
                out.append(dict(q='%s/%s:%s' % (q, k['tag'], _name_of(k)),
                                marked=m or k['attrs'].get('introspectable') == '0'))
    return out

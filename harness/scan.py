"""Shared scanner harness: symgen (abstract C declarations -> the raw symbol/type objects
Transformer consumes), the in-process scan pipeline, synthetic dependency GIRs, and girabs (GIR XML
-> JSON tree, independent of giscanner.girparser).

symgen conventions (read off giscanner/scannerparser.y, sourcescanner.c; listed as assumptions in
the evidence of every check that uses it):
  * `T f(A a, B b);`        -> CSYMBOL_TYPE_FUNCTION, base_type CTYPE_FUNCTION(base_type=T, child_list=[params])
  * parameters              -> CSYMBOL_TYPE_OBJECT ident=name base_type=type; `...` -> CSYMBOL_TYPE_ELLIPSIS
  * `typedef T (*Cb)(..);`  -> CSYMBOL_TYPE_TYPEDEF, base_type CTYPE_POINTER -> CTYPE_FUNCTION
  * `struct _X {..};`       -> CSYMBOL_TYPE_STRUCT ident=_X base_type CTYPE_STRUCT(name=_X, child_list=members)
  * `typedef struct _X X;`  -> CSYMBOL_TYPE_TYPEDEF ident=X base_type CTYPE_STRUCT(name=_X, no children)
  * `typedef struct {..} X;`-> CSYMBOL_TYPE_TYPEDEF ident=X base_type CTYPE_STRUCT(name=None, children)
  * members                 -> CSYMBOL_TYPE_MEMBER (const_int = bit width if any, private flag)
  * `typedef enum {..} E;`  -> CSYMBOL_TYPE_TYPEDEF ident=E base_type CTYPE_ENUM(child_list=enumerators, is_bitfield)
  * enumerators             -> CSYMBOL_TYPE_OBJECT ident, const_int
  * `#define N 5`           -> CSYMBOL_TYPE_CONST const_int (+ base_type for `((T) 5)`), const_string, ...
  * qualifiers: `const char *` = POINTER(BASIC char, const); `char * const` = POINTER(const) -> BASIC
  * multi-word basic types are one CTYPE_BASIC_TYPE with the words joined by a space; names that
    are not C keywords are CTYPE_TYPEDEF (gint, gchar, FooBar ...); `struct _X` -> CTYPE_STRUCT
"""
import io, os, re, sys
import xml.etree.ElementTree as ET

from . import gistub
from .common import REPO, VERIF

gistub.install()
from giscanner import ast, message                                   # noqa: E402
from giscanner.sourcescanner import (                                 # noqa: E402
    SourceSymbol, CSYMBOL_TYPE_ELLIPSIS, CSYMBOL_TYPE_CONST, CSYMBOL_TYPE_OBJECT, CSYMBOL_TYPE_FUNCTION,
    CSYMBOL_TYPE_FUNCTION_MACRO, CSYMBOL_TYPE_STRUCT, CSYMBOL_TYPE_UNION, CSYMBOL_TYPE_ENUM,
    CSYMBOL_TYPE_TYPEDEF, CSYMBOL_TYPE_MEMBER, CTYPE_INVALID, CTYPE_VOID, CTYPE_BASIC_TYPE, CTYPE_TYPEDEF,
    CTYPE_STRUCT, CTYPE_UNION, CTYPE_ENUM, CTYPE_POINTER, CTYPE_ARRAY, CTYPE_FUNCTION,
    TYPE_QUALIFIER_CONST, TYPE_QUALIFIER_VOLATILE, FUNCTION_INLINE)
from giscanner.transformer import Transformer                         # noqa: E402
from giscanner.maintransformer import MainTransformer                 # noqa: E402
from giscanner.introspectablepass import IntrospectablePass           # noqa: E402
from giscanner.annotationparser import GtkDocCommentBlockParser       # noqa: E402
from giscanner.girwriter import GIRWriter                             # noqa: E402
from giscanner.girparser import GIRParser                             # noqa: E402
from giscanner.gdumpparser import GDumpParser                         # noqa: E402

DATA = os.path.join(VERIF, 'harness', 'data')
C_KEYWORDS = {'char', 'short', 'int', 'long', 'float', 'double', 'signed', 'unsigned', '_Bool', '_Complex'}


# ------------------------------------------------------------------ raw objects
class RT(object):
    def __init__(self, type, name=None, base_type=None, qual=0, children=(), is_bitfield=False, fspec=0):
        self.type = type
        self.name = name
        self.base_type = base_type
        self.type_qualifier = qual
        self.child_list = list(children)
        self.is_bitfield = is_bitfield
        self.function_specifier = fspec
        self.storage_class_specifier = 0


class RS(object):
    def __init__(self, type, ident, base_type=None, const_int=None, const_string=None, const_double=None,
                 const_boolean=None, filename='/src/foo.h', line=1, private=False):
        self.type = type
        self.ident = ident
        self.base_type = base_type
        self.const_int = const_int
        self.const_string = const_string
        self.const_double = const_double
        self.const_boolean = const_boolean
        self.source_filename = filename
        self.line = line
        self.private = private


def ctype(spec):
    """'const char *', 'unsigned long', 'FooBar **', 'char * const *', 'struct _Foo *', 'void' -> RT"""
    if isinstance(spec, RT):
        return spec
    toks = re.findall(r'\*|[A-Za-z_][A-Za-z0-9_]*', spec)
    i = 0
    qual = 0
    words = []
    kind = None
    while i < len(toks) and toks[i] != '*':
        t = toks[i]
        if t == 'const':
            qual |= TYPE_QUALIFIER_CONST
        elif t == 'volatile':
            qual |= TYPE_QUALIFIER_VOLATILE
        elif t in ('struct', 'union', 'enum'):
            kind = t
        else:
            words.append(t)
        i += 1
    if kind:
        base = RT({'struct': CTYPE_STRUCT, 'union': CTYPE_UNION, 'enum': CTYPE_ENUM}[kind], words[0], qual=qual)
    elif words == ['void']:
        base = RT(CTYPE_VOID, qual=qual)
    elif all(w in C_KEYWORDS for w in words):
        base = RT(CTYPE_BASIC_TYPE, ' '.join(words), qual=qual)
    else:
        assert len(words) == 1, spec
        base = RT(CTYPE_TYPEDEF, words[0], qual=qual)
    cur = base
    while i < len(toks):
        if toks[i] == '*':
            cur = RT(CTYPE_POINTER, base_type=cur)
        elif toks[i] == 'const':
            cur.type_qualifier |= TYPE_QUALIFIER_CONST
        elif toks[i] == 'volatile':
            cur.type_qualifier |= TYPE_QUALIFIER_VOLATILE
        i += 1
    return cur


def array_of(elem, size=None):
    children = [RS(CSYMBOL_TYPE_CONST, None, const_int=size)] if size is not None else []
    return RT(CTYPE_ARRAY, base_type=ctype(elem), children=children)


def param(t, name):
    return RS(CSYMBOL_TYPE_OBJECT, name, ctype(t))


ELLIPSIS = RS(CSYMBOL_TYPE_ELLIPSIS, None, None)


def _params(params, varargs=False):
    out = [p if isinstance(p, RS) else param(p[0], p[1]) for p in params]
    if varargs:
        out.append(RS(CSYMBOL_TYPE_ELLIPSIS, None, None))
    return out


def function(name, ret, params=(), varargs=False, inline=False, line=1, filename='/src/foo.h'):
    rt = ctype(ret)
    if inline:
        rt.function_specifier |= FUNCTION_INLINE
    return RS(CSYMBOL_TYPE_FUNCTION, name, RT(CTYPE_FUNCTION, base_type=rt, children=_params(params, varargs)),
              line=line, filename=filename)


def funcptr(ret, params=(), varargs=False):
    return RT(CTYPE_POINTER, base_type=RT(CTYPE_FUNCTION, base_type=ctype(ret), children=_params(params, varargs)))


def callback(name, ret, params=(), varargs=False, line=1, filename='/src/foo.h'):
    return RS(CSYMBOL_TYPE_TYPEDEF, name, funcptr(ret, params, varargs), line=line, filename=filename)


def member(t, name, private=False, bits=None):
    return RS(CSYMBOL_TYPE_MEMBER, name, t if isinstance(t, RT) else ctype(t), const_int=bits, private=private)


def _members(fields):
    return [f if isinstance(f, RS) else member(*f) for f in fields]


def struct_def(tag, fields, line=1, filename='/src/foo.h', union=False):
    k, s = (CTYPE_UNION, CSYMBOL_TYPE_UNION) if union else (CTYPE_STRUCT, CSYMBOL_TYPE_STRUCT)
    return RS(s, tag, RT(k, tag, children=_members(fields)), line=line, filename=filename)


def typedef_struct(name, tag=None, fields=None, line=1, filename='/src/foo.h', union=False, pointer=False):
    k = CTYPE_UNION if union else CTYPE_STRUCT
    t = RT(k, tag, children=_members(fields or []))
    if pointer:
        t = RT(CTYPE_POINTER, base_type=t)
    return RS(CSYMBOL_TYPE_TYPEDEF, name, t, line=line, filename=filename)


def typedef_enum(name, members, bitfield=False, line=1, filename='/src/foo.h'):
    kids = [RS(CSYMBOL_TYPE_OBJECT, m[0], const_int=m[1], private=(len(m) > 2 and m[2])) for m in members]
    return RS(CSYMBOL_TYPE_TYPEDEF, name, RT(CTYPE_ENUM, None, children=kids, is_bitfield=bitfield),
              line=line, filename=filename)


def alias(name, target, line=1, filename='/src/foo.h'):
    return RS(CSYMBOL_TYPE_TYPEDEF, name, ctype(target), line=line, filename=filename)


def const_int(name, value, type_=None, line=1, filename='/src/foo.h'):
    return RS(CSYMBOL_TYPE_CONST, name, ctype(type_) if type_ else None, const_int=value, line=line, filename=filename)


def const_str(name, value, line=1, filename='/src/foo.h'):
    return RS(CSYMBOL_TYPE_CONST, name, None, const_string=value, line=line, filename=filename)


def const_double(name, value, line=1, filename='/src/foo.h'):
    return RS(CSYMBOL_TYPE_CONST, name, None, const_double=value, line=line, filename=filename)


def const_bool(name, value, line=1, filename='/src/foo.h'):
    return RS(CSYMBOL_TYPE_CONST, name, None, const_boolean=value, line=line, filename=filename)


# ------------------------------------------------------------------ logger
class RecordingLogger(message.MessageLogger):
    """records every log() call (type, file, line, column, text) whether or not it is displayed"""

    def __init__(self, namespace):
        message.MessageLogger.__init__(self, namespace, output=io.StringIO())
        self.records = []

    def log(self, log_type, text, positions=None, prefix=None, marker_pos=None, marker_line=None):
        pos = None
        if positions:
            try:
                pos = sorted(positions)[-1] if isinstance(positions, set) else (
                    positions[-1] if isinstance(positions, (list, tuple)) else positions)
            except Exception:
                pos = None
        self.records.append(dict(type=int(log_type), text=str(text),
                                 file=getattr(pos, 'filename', None) or '', line=getattr(pos, 'line', None) or 0))
        try:
            return message.MessageLogger.log(self, log_type, text, positions, prefix, marker_pos, marker_line)
        except TypeError:
            return message.MessageLogger.log(self, log_type, text, positions, prefix)


# ------------------------------------------------------------------ dependency namespaces
_dep_cache = {}


def dep_namespaces(names=('GLib', 'GObject', 'Gio')):
    """Synthetic GLib/GObject/Gio GIRs (harness/data/gir/*.gir), parsed once by the real GIRParser."""
    out = {}
    for n in names:
        if n not in _dep_cache:
            p = GIRParser(types_only=True)
            p.parse(os.path.join(DATA, 'gir', '%s-2.0.gir' % n))
            _dep_cache[n] = p.get_namespace()
        out[n] = _dep_cache[n]
    return out


class ScanResult(object):
    pass


def scan(symbols, comments=(), name='Foo', version='1.0', idp=('Foo',), symp=('foo',), deps=('GLib', 'GObject', 'Gio'),
         dump_xml=None, accept_unprefixed=False, c_includes=(), warnings=True, shared_libraries=(),
         blocks=None, passes=True, extra_includes=None):
    """Run the real pipeline: comment parser -> Transformer -> [GDumpParser] -> MainTransformer ->
    IntrospectablePass -> GIRWriter.  `comments` = [(text, filename, lineno)].  Returns ScanResult
    with .xml (str), .log (list of dict), .ns, .transformer, .warning_count."""
    ns = ast.Namespace(name, version, identifier_prefixes=list(idp), symbol_prefixes=list(symp))
    message.MessageLogger._instance = None
    logger = RecordingLogger(ns)
    message.MessageLogger._instance = logger
    logger.enable_warnings(warnings)
    tr = Transformer(ns, accept_unprefixed=accept_unprefixed)
    depns = dep_namespaces(deps)
    if extra_includes:
        depns.update(extra_includes)
    for dn, dns in depns.items():
        ns.includes.add(ast.Include(dn, dns.version))
        tr._parsed_includes[dn] = dns
    if blocks is None:
        blocks = GtkDocCommentBlockParser().parse_comment_blocks(list(comments))
    tr.parse([SourceSymbol(None, s) for s in symbols])
    if dump_xml is not None:
        gdump = GDumpParser(tr)
        gdump._execute_binary_get_tree = lambda: ET.ElementTree(ET.fromstring(dump_xml))
        gdump.init_parse()
        gdump._binary = 'dump'      # anything non-None
        gdump.parse()
    if passes:
        MainTransformer(tr, blocks).transform()
        IntrospectablePass(tr, blocks).validate()
    ns.shared_libraries = list(shared_libraries)
    ns.c_includes = list(c_includes)
    r = ScanResult()
    r.xml = GIRWriter(ns, ['/src']).get_encoded_xml().decode('utf-8')
    r.log = logger.records
    r.ns = ns
    r.transformer = tr
    r.warning_count = logger.get_warning_count()
    message.MessageLogger._instance = None
    return r


# ------------------------------------------------------------------ girabs
CORE = 'http://www.gtk.org/introspection/core/1.0'
CNS = 'http://www.gtk.org/introspection/c/1.0'
GLIBNS = 'http://www.gtk.org/introspection/glib/1.0'
_PFX = {CORE: '', CNS: 'c:', GLIBNS: 'glib:', 'http://www.w3.org/XML/1998/namespace': 'xml:'}


def _q(tag):
    if tag.startswith('{'):
        uri, _, local = tag[1:].partition('}')
        return _PFX.get(uri, uri + ':') + local
    return tag


def girabs(xml_text):
    """GIR XML -> nested dict(tag, attrs{qualified name: value}, children[], text) using ElementTree only."""
    def conv(e):
        return dict(tag=_q(e.tag), attrs={_q(k): v for k, v in e.attrib.items()},
                    children=[conv(c) for c in e], text=(e.text or '').strip() if len(e) == 0 else '')
    root = ET.fromstring(xml_text.encode('utf-8') if isinstance(xml_text, str) else xml_text)
    return conv(root)


def find_all(tree, tag, acc=None):
    acc = [] if acc is None else acc
    if tree['tag'] == tag:
        acc.append(tree)
    for c in tree['children']:
        find_all(c, tag, acc)
    return acc


def namespace_of(tree):
    for c in tree['children']:
        if c['tag'] == 'namespace':
            return c
    return None


def child(node, tag):
    for c in node['children']:
        if c['tag'] == tag:
            return c
    return None


def children(node, tag):
    return [c for c in node['children'] if c['tag'] == tag]

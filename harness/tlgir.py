"""tlgir -- shared helper of C06 / C09 (tla/Typelib*.tla).

* abstract GIR documents (the vocabulary of tla/Typelib.tla: attribute values are the strings
  written in the file, "" = attribute absent, integers -1 = absent) and a small hand-written
  renderer to GIR XML (NOT giscanner's GIRWriter: C06 must not depend on C07);
* wrapping of the element cases TLC enumerates (tla/TypelibCases.tla) into documents;
* seeded random documents in the same schema for sizes beyond the exhaustive bound;
* running REPO's g-ir-compiler and projecting the typelib decoded by harness/tlabs.py into the
  `b` records the clauses of Typelib.tla speak about.

Python only renders inputs and projects outputs; every verdict is formed by TLC (TypelibTrace).
"""
import hashlib, json, os, shutil, struct, subprocess
from xml.sax.saxutils import quoteattr

from . import tlabs

NS = 'Tst'
HDR = ('<?xml version="1.0"?>\n<repository version="1.2" xmlns="http://www.gtk.org/introspection/core/1.0" '
       'xmlns:c="http://www.gtk.org/introspection/c/1.0" xmlns:glib="http://www.gtk.org/introspection/glib/1.0">\n')

# blob types (gitypelib-internal.h GTypelibBlobType)
BT = dict(function=1, callback=2, record=3, boxed=4, enumeration=5, bitfield=6, **{'class': 7}, interface=8, constant=9, union=11)

# ----------------------------------------------------------------------------- include namespaces
# two tiny dependency namespaces written next to every generated document (cross-namespace types,
# aliases defined in an included namespace, parents/interfaces/prerequisites in another namespace)
GLIB_GIR = HDR + '''<namespace name="GLib" version="2.0" c:identifier-prefixes="G" c:symbol-prefixes="g" shared-library="libglib-2.0.so.0">
<alias name="Quark" c:type="GQuark"><type name="guint32" c:type="guint32"/></alias>
<record name="Bytes" c:type="GBytes" glib:type-name="GBytes" glib:get-type="g_bytes_get_type"></record>
<record name="Error" c:type="GError" glib:type-name="GError" glib:get-type="g_error_get_type"></record>
<record name="Variant" c:type="GVariant"></record>
<callback name="DestroyNotify" c:type="GDestroyNotify"><return-value transfer-ownership="none"><type name="none" c:type="void"/></return-value>
<parameters><parameter name="data" transfer-ownership="none"><type name="gpointer" c:type="gpointer"/></parameter></parameters></callback>
</namespace></repository>
'''
GOBJECT_GIR = HDR + '''<include name="GLib" version="2.0"/>
<namespace name="GObject" version="2.0" c:identifier-prefixes="G" c:symbol-prefixes="g" shared-library="libgobject-2.0.so.0">
<record name="ObjectClass" c:type="GObjectClass" glib:is-gtype-struct-for="Object"></record>
<class name="Object" c:type="GObject" glib:type-name="GObject" glib:get-type="g_object_get_type" glib:type-struct="ObjectClass"></class>
<class name="InitiallyUnowned" c:type="GInitiallyUnowned" parent="Object" glib:type-name="GInitiallyUnowned" glib:get-type="g_initially_unowned_get_type"></class>
<interface name="TypePlugin" c:type="GTypePlugin" glib:type-name="GTypePlugin" glib:get-type="g_type_plugin_get_type"></interface>
<record name="Value" c:type="GValue" glib:type-name="GValue" glib:get-type="g_value_get_type"></record>
</namespace></repository>
'''
INCLUDE_ENV_ALIASES = [dict(ns='GLib', name='Quark', tbasic='guint32', tns='', tname='')]


def write_includes(d):
    os.makedirs(d, exist_ok=True)
    with open(os.path.join(d, 'GLib-2.0.gir'), 'w') as f:
        f.write(GLIB_GIR)
    with open(os.path.join(d, 'GObject-2.0.gir'), 'w') as f:
        f.write(GOBJECT_GIR)


# ----------------------------------------------------------------------------- type nodes
def leaf(k, rns, rname, hasct=False, stars=0, gptr=False):
    return dict(k=k, rns=rns, rname=rname, hasct=hasct, stars=stars, gptr=gptr, zt='', len=-1, fsize=-1, nchild=0)


def basic(name, hasct=True, stars=None, gptr=None):
    if stars is None:
        stars = 1 if name in ('utf8', 'filename') else 0
    if gptr is None:
        gptr = name == 'gpointer'
    return [leaf('basic', '', name, hasct, stars, gptr)]


def ref(rns, rname, stars=1, hasct=True):
    return [leaf('ref', rns, rname, hasct, stars, False)]


def array(elem, rname='', zt='', length=-1, fsize=-1, hasct=False):
    h = dict(k='array', rns='', rname=rname, hasct=hasct, stars=0, gptr=False, zt=zt, len=length, fsize=fsize, nchild=1 if elem else 0)
    return [h] + list(elem or [])


def glist(kind, elem):
    h = dict(k=kind, rns='GLib', rname='', hasct=True, stars=1, gptr=False, zt='', len=-1, fsize=-1, nchild=1 if elem else 0)
    return [h] + list(elem or [])


def ghash(k, v):
    h = dict(k='ghash', rns='GLib', rname='', hasct=True, stars=1, gptr=False, zt='', len=-1, fsize=-1, nchild=2 if k else 0)
    return [h] + list(k or []) + list(v or [])


ERROR_T = [leaf('error', 'GLib', 'Error', True, 1, False)]
INT32 = [leaf('basic', '', 'gint32', False, 0, False)]
NONE_T = [leaf('basic', '', 'none', False, 0, False)]
UTF8 = [leaf('basic', '', 'utf8', True, 1, False)]

_CNAME = dict(none='void', utf8='char', filename='char', gpointer='gpointer')


def _ctype(nd):
    if not nd['hasct']:
        return None
    if nd['gptr']:
        base = 'gpointer'
    elif nd['k'] == 'basic':
        base = _CNAME.get(nd['rname'], nd['rname'])
        if base == 'gpointer':          # "gpointer" without the gptr flag would start with the magic prefix
            base = 'void'
    elif nd['k'] == 'ref':
        base = 'Tst' + nd['rname'] if not nd['rns'] else nd['rns'][0] + nd['rname']
    elif nd['k'] == 'glist':
        base = 'GList'
    elif nd['k'] == 'gslist':
        base = 'GSList'
    elif nd['k'] == 'ghash':
        base = 'GHashTable'
    elif nd['k'] == 'error':
        base = 'GError'
    else:
        base = 'void'
    return base + '*' * nd['stars']


def render_type(nodes, pos=0):
    """pre-order node list -> (xml, next position)"""
    nd = nodes[pos]
    k = nd['k']
    pos += 1
    kids = []
    for _ in range(nd['nchild']):
        x, pos = render_type(nodes, pos)
        kids.append(x)
    a = []
    if k == 'array':
        if nd['rname']:
            a.append(('name', 'GLib.' + nd['rname']))
        if nd['zt'] != '':
            a.append(('zero-terminated', nd['zt']))
        if nd['len'] >= 0:
            a.append(('length', str(nd['len'])))
        if nd['fsize'] >= 0:
            a.append(('fixed-size', str(nd['fsize'])))
        ct = _ctype(nd)
        if ct:
            a.append(('c:type', ct))
        tag = 'array'
    else:
        if k == 'basic':
            name = nd['rname']
        elif k == 'ref':
            name = (nd['rns'] + '.' if nd['rns'] else '') + nd['rname']
        elif k == 'glist':
            name = 'GLib.List'
        elif k == 'gslist':
            name = 'GLib.SList'
        elif k == 'ghash':
            name = 'GLib.HashTable'
        elif k == 'error':
            name = 'GLib.Error'
        else:
            raise ValueError(k)
        a.append(('name', name))
        ct = _ctype(nd)
        if ct:
            a.append(('c:type', ct))
        tag = 'type'
    s = '<%s%s' % (tag, _attrs(a))
    if kids:
        s += '>' + ''.join(kids) + '</%s>' % tag
    else:
        s += '/>'
    return s, pos


def _attrs(pairs):
    return ''.join(' %s=%s' % (k, quoteattr(str(v))) for k, v in pairs if v is not None)


def _opt(pairs, name, v):
    """append attribute when written (abstract value != '')"""
    if v != '' and v is not None:
        pairs.append((name, v))


def _attr_elems(attrs):
    return ''.join('<attribute name=%s value=%s/>' % (quoteattr(a['name']), quoteattr(a['value'])) for a in attrs or ())


# ----------------------------------------------------------------------------- callables
def render_param(g, attrs=(), attrs_after_type=False):
    a = [('name', g['name'])]
    _opt(a, 'direction', g['dir'])
    _opt(a, 'caller-allocates', g['ca'])
    _opt(a, 'allow-none', g['allow_none'])
    _opt(a, 'nullable', g['nullable'])
    _opt(a, 'optional', g['optional'])
    _opt(a, 'transfer-ownership', g['transfer'])
    _opt(a, 'scope', g['scope'])
    if g['closure'] >= 0:
        a.append(('closure', g['closure']))
    if g['destroy'] >= 0:
        a.append(('destroy', g['destroy']))
    _opt(a, 'skip', g['skip'])
    _opt(a, 'retval', g['retval'])
    t = render_type(g['type'])[0]
    at = _attr_elems(attrs)
    return '<parameter%s>%s</parameter>' % (_attrs(a), (t + at) if attrs_after_type else (at + t))


def render_callable_body(c, self_type=None):
    """c = {sig, args:[{g, attrs}], rattrs}"""
    sg = c['sig']
    a = []
    _opt(a, 'transfer-ownership', sg['transfer'])
    _opt(a, 'nullable', sg['nullable'])
    _opt(a, 'allow-none', sg['allow_none'])
    _opt(a, 'skip', sg['skip'])
    s = '<return-value%s>%s%s</return-value>' % (_attrs(a), _attr_elems(c.get('rattrs')), render_type(sg['rtype'])[0])
    ps = ''
    if sg['inst'] != '':
        ps += ('<instance-parameter name="self" transfer-ownership=%s><type name=%s c:type=%s/></instance-parameter>'
               % (quoteattr(sg['inst']), quoteattr(self_type or 'Rec'), quoteattr('Tst%s*' % (self_type or 'Rec'))))
    for p in c['args']:
        ps += render_param(p['g'], p.get('attrs'), p.get('attrs_after_type', False))
    if ps:
        s += '<parameters>' + ps + '</parameters>'
    return s


def render_function(f, self_type=None):
    """f = {fn: FnCase, sig.., args.., attrs, intro, shadowed_by, extra (raw extra xml attributes)}"""
    g = f['fn']
    tag = g['ckind']                   # function | method | constructor
    a = [('name', g['name']), ('c:identifier', g['cid'])]
    _opt(a, 'shadows', g['shadows'])
    _opt(a, 'deprecated', g['deprecated'])
    _opt(a, 'throws', g['throws'])
    _opt(a, 'glib:set-property', g['setprop'])
    _opt(a, 'glib:get-property', g['getprop'])
    if not f.get('intro', True):
        a.append(('introspectable', '0'))
    _opt(a, 'shadowed-by', f.get('shadowed_by', ''))
    for k, v in f.get('extra', ()):
        a.append((k, v))
    return '<%s%s>%s%s</%s>' % (tag, _attrs(a), _attr_elems(f.get('attrs')), render_callable_body(f, self_type), tag)


def render_callback(cb):
    """cb = {g:{name, deprecated}, sig, args, attrs}"""
    g = cb['g']
    a = [('name', g['name']), ('c:type', 'Tst' + g['name'])]
    _opt(a, 'deprecated', g['deprecated'])
    _opt(a, 'throws', cb['sig']['throws'])
    if not cb.get('intro', True):
        a.append(('introspectable', '0'))
    return '<callback%s>%s%s</callback>' % (_attrs(a), _attr_elems(cb.get('attrs')), render_callable_body(cb))


def render_signal(s):
    g = s['g']
    a = [('name', g['name'])]
    _opt(a, 'when', g['when'])
    _opt(a, 'no-recurse', g['no_recurse'])
    _opt(a, 'detailed', g['detailed'])
    _opt(a, 'action', g['action'])
    _opt(a, 'no-hooks', g['no_hooks'])
    _opt(a, 'deprecated', g['deprecated'])
    if not s.get('intro', True):
        a.append(('introspectable', '0'))
    return '<glib:signal%s>%s%s</glib:signal>' % (_attrs(a), _attr_elems(s.get('attrs')), render_callable_body(s))


def render_vfunc(v, self_type=None):
    g = v['g']
    a = [('name', g['name'])]
    _opt(a, 'invoker', g['invoker'])
    if g['offset'] >= 0:
        a.append(('offset', g['offset']))
    _opt(a, 'throws', g['throws'])
    if not v.get('intro', True):
        a.append(('introspectable', '0'))
    return '<virtual-method%s>%s%s</virtual-method>' % (_attrs(a), _attr_elems(v.get('attrs')), render_callable_body(v, self_type))


def render_property(p):
    g = p['g']
    a = [('name', g['name'])]
    _opt(a, 'readable', g['readable'])
    _opt(a, 'writable', g['writable'])
    _opt(a, 'construct', g['construct'])
    _opt(a, 'construct-only', g['construct_only'])
    _opt(a, 'transfer-ownership', g['transfer'])
    _opt(a, 'setter', g['setter'])
    _opt(a, 'getter', g['getter'])
    _opt(a, 'deprecated', g['deprecated'])
    if not p.get('intro', True):
        a.append(('introspectable', '0'))
    return '<property%s>%s%s</property>' % (_attrs(a), _attr_elems(p.get('attrs')), render_type(g['type'])[0])


def render_field(f):
    g = f['g']
    a = [('name', g['name'])]
    _opt(a, 'readable', g['readable'])
    _opt(a, 'writable', g['writable'])
    if g['bits'] >= 0:
        a.append(('bits', g['bits']))
    if not g['intro']:
        a.append(('introspectable', '0'))
    if g['cb']:
        body = render_callback(f['callback'])
    else:
        body = render_type(g['type'])[0]
    return '<field%s>%s%s</field>' % (_attrs(a), _attr_elems(f.get('attrs')), body)


def render_constant(c):
    g = c['g']
    a = [('name', g['name']), ('value', c['text']), ('c:type', 'TST_' + g['name'].upper())]
    _opt(a, 'deprecated', g['deprecated'])
    if not c.get('intro', True):
        a.append(('introspectable', '0'))
    return '<constant%s>%s%s</constant>' % (_attrs(a), _attr_elems(c.get('attrs')), render_type(g['type'])[0])


def render_value(v):
    g = v['g']
    a = [('name', g['name']), ('value', str(v['int'])), ('c:identifier', g['cid'])]
    _opt(a, 'deprecated', g['deprecated'])
    at = _attr_elems(v.get('attrs'))
    return '<member%s>%s</member>' % (_attrs(a), at) if at else '<member%s/>' % _attrs(a)


def _refname(r):
    return (r['ns'] + '.' if r['ns'] else '') + r['n']


def _members_xml(e, order_key='order'):
    """children of a container in the requested document order: e['order'] = [(section, index)] or
    the default grouping"""
    parts = []
    order = e.get('order')
    if order is None:
        order = [(sec, i) for sec in ('fields', 'properties', 'methods', 'signals', 'vfuncs', 'constants')
                 for i in range(len(e.get(sec, ())))]
    name = e['g']['name']
    for sec, i in order:
        m = e[sec][i]
        if sec == 'fields':
            parts.append(render_field(m))
        elif sec == 'properties':
            parts.append(render_property(m))
        elif sec == 'methods':
            parts.append(render_function(m, name))
        elif sec == 'signals':
            parts.append(render_signal(m))
        elif sec == 'vfuncs':
            parts.append(render_vfunc(m, name))
        elif sec == 'constants':
            parts.append(render_constant(m))
    return ''.join(parts)


def render_entry(e):
    tag = e['tag']
    intro = [] if e.get('intro', True) else [('introspectable', '0')]
    if tag in ('function',):
        f = dict(e)
        if not e.get('intro', True):
            f['intro'] = False
        return render_function(f)
    if tag == 'callback':
        return render_callback(e)
    if tag == 'constant':
        return render_constant(e)
    if tag == 'alias':
        return '<alias name=%s c:type=%s>%s</alias>' % (quoteattr(e['name']), quoteattr('Tst' + e['name']), render_type(e['type'])[0])
    g = e['g']
    at = _attr_elems(e.get('attrs'))
    if tag in ('record', 'union'):
        a = [('name', g['name']), ('c:type', 'Tst' + g['name'])]
        _opt(a, 'deprecated', g['deprecated'])
        _opt(a, 'glib:type-name', g['gtype_name'])
        _opt(a, 'glib:get-type', g['gtype_init'])
        if tag == 'record':
            _opt(a, 'glib:is-gtype-struct-for', g['gtype_struct_for'])
            _opt(a, 'foreign', g['foreign'])
            _opt(a, 'disguised', e.get('disguised', ''))
            _opt(a, 'pointer', e.get('pointer', ''))
        _opt(a, 'copy-function', g['copy_func'])
        _opt(a, 'free-function', g['free_func'])
        return '<%s%s>%s%s</%s>' % (tag, _attrs(a + intro), at, _members_xml(e), tag)
    if tag == 'boxed':
        a = [('glib:name', g['name']), ('c:symbol-prefix', g['name'].lower()), ('glib:type-name', g['gtype_name']), ('glib:get-type', g['gtype_init'])]
        _opt(a, 'deprecated', g['deprecated'])
        return '<glib:boxed%s>%s%s</glib:boxed>' % (_attrs(a + intro), at, _members_xml(e))
    if tag in ('enumeration', 'bitfield'):
        a = [('name', g['name']), ('c:type', 'Tst' + g['name'])]
        _opt(a, 'deprecated', g['deprecated'])
        _opt(a, 'glib:type-name', g['gtype_name'])
        _opt(a, 'glib:get-type', g['gtype_init'])
        _opt(a, 'glib:error-domain', g['error_domain'])
        body = ''.join(render_value(v) for v in e['values']) + ''.join(render_function(m) for m in e['methods'])
        return '<%s%s>%s%s</%s>' % (tag, _attrs(a + intro), at, body, tag)
    if tag == 'class':
        a = [('name', g['name']), ('c:type', 'Tst' + g['name'])]
        if g['parent']['n']:
            a.append(('parent', _refname(g['parent'])))
        if g['gtype_struct']['n']:
            a.append(('glib:type-struct', _refname(g['gtype_struct'])))
        a += [('glib:type-name', g['gtype_name']), ('glib:get-type', g['gtype_init'])]
        _opt(a, 'deprecated', g['deprecated'])
        _opt(a, 'abstract', g['abstract'])
        _opt(a, 'final', g['final'])
        _opt(a, 'glib:fundamental', g['fundamental'])
        _opt(a, 'glib:ref-func', g['ref_func'])
        _opt(a, 'glib:unref-func', g['unref_func'])
        _opt(a, 'glib:set-value-func', g['set_value_func'])
        _opt(a, 'glib:get-value-func', g['get_value_func'])
        impl = ''.join('<implements name=%s/>' % quoteattr(_refname(r)) for r in g['interfaces'])
        return '<class%s>%s%s%s</class>' % (_attrs(a + intro), at, impl, _members_xml(e))
    if tag == 'interface':
        a = [('name', g['name']), ('c:type', 'Tst' + g['name'])]
        if g['gtype_struct']['n']:
            a.append(('glib:type-struct', _refname(g['gtype_struct'])))
        a += [('glib:type-name', g['gtype_name']), ('glib:get-type', g['gtype_init'])]
        _opt(a, 'deprecated', g['deprecated'])
        pre = ''.join('<prerequisite name=%s/>' % quoteattr(_refname(r)) for r in g['prerequisites'])
        return '<interface%s>%s%s%s</interface>' % (_attrs(a + intro), at, pre, _members_xml(e))
    raise ValueError(tag)


def render_doc(doc):
    s = [HDR]
    for n, v in doc['includes']:
        s.append('<include name=%s version=%s/>\n' % (quoteattr(n), quoteattr(v)))
    a = [('name', doc['ns']), ('version', doc['version'])]
    _opt(a, 'shared-library', doc['shlib'])
    _opt(a, 'c:identifier-prefixes', doc['cprefix'])
    a.append(('c:symbol-prefixes', doc['ns'].lower()))
    s.append('<namespace%s>\n' % _attrs(a))
    s.append(_attr_elems(doc.get('attrs')))
    for e in doc['entries']:
        s.append(render_entry(e))
        s.append('\n')
    s.append('</namespace></repository>\n')
    return ''.join(s)


# ----------------------------------------------------------------------------- abstract element builders
def mk_arg(name='a', dir='', ca='', allow_none='', nullable='', optional='', transfer='none', scope='', closure=-1, destroy=-1,
           skip='', retval='', type=None):
    return dict(name=name, dir=dir, ca=ca, allow_none=allow_none, nullable=nullable, optional=optional, transfer=transfer,
                scope=scope, closure=closure, destroy=destroy, skip=skip, retval=retval, type=type or INT32)


def mk_sig(ckind, transfer='none', nullable='', allow_none='', skip='', throws='', inst='', rtype=None):
    return dict(ckind=ckind, transfer=transfer, nullable=nullable, allow_none=allow_none, skip=skip, throws=throws, inst=inst,
                params=[], rtype=rtype or NONE_T)


def mk_fn(ckind, name, cid=None, shadows='', deprecated='', throws='', setprop='', getprop=''):
    return dict(ckind=ckind, name=name, shadows=shadows, cid=cid or 'tst_' + name, deprecated=deprecated, throws=throws,
                setprop=setprop, getprop=getprop, props=[])


def mk_function(ckind, name, args=(), **kw):
    sigkw = {k: kw.pop(k) for k in list(kw) if k in ('transfer', 'nullable', 'allow_none', 'skip', 'inst', 'rtype')}
    fn = mk_fn(ckind, name, **{k: kw.pop(k) for k in list(kw) if k in ('cid', 'shadows', 'deprecated', 'throws', 'setprop', 'getprop')})
    sg = mk_sig(ckind, throws=fn['throws'], **sigkw)
    f = dict(tag='function', fn=fn, sig=sg, args=[dict(g=a) for a in args], attrs=[], rattrs=[], intro=True)
    f.update(kw)
    return f


def mk_struct(tag, name, **kw):
    g = dict(tag=tag, name=name, deprecated='', gtype_name='', gtype_init='', gtype_struct_for='', foreign='', copy_func='',
             free_func='')
    g.update({k: kw.pop(k) for k in list(kw) if k in g})
    if tag == 'boxed' and not g['gtype_name']:
        g['gtype_name'] = 'Tst' + name
        g['gtype_init'] = 'tst_%s_get_type' % name.lower()
    e = dict(tag=tag, g=g, fields=[], methods=[], attrs=[], intro=True)
    e.update(kw)
    return e


def mk_enum(tag, name, **kw):
    g = dict(tag=tag, name=name, deprecated='', gtype_name='', gtype_init='', error_domain='')
    g.update({k: kw.pop(k) for k in list(kw) if k in g})
    e = dict(tag=tag, g=g, values=[], methods=[], attrs=[], intro=True)
    e.update(kw)
    return e


def mk_value(name, v, deprecated='', cid=None, attrs=()):
    return dict(g=dict(name=name, deprecated=deprecated, cid=cid or 'TST_' + name.upper()), int=v, attrs=list(attrs))


NOREF = dict(ns='', n='')


def mk_class(name, **kw):
    g = dict(name=name, deprecated='', abstract='', final='', fundamental='', gtype_name='Tst' + name,
             gtype_init='tst_%s_get_type' % name.lower(), parent=dict(NOREF), gtype_struct=dict(NOREF), ref_func='', unref_func='',
             set_value_func='', get_value_func='', interfaces=[])
    g.update({k: kw.pop(k) for k in list(kw) if k in g})
    e = dict(tag='class', g=g, fields=[], properties=[], methods=[], signals=[], vfuncs=[], constants=[], attrs=[], intro=True)
    e.update(kw)
    return e


def mk_iface(name, **kw):
    g = dict(name=name, deprecated='', gtype_name='Tst' + name, gtype_init='tst_%s_get_type' % name.lower(),
             gtype_struct=dict(NOREF), prerequisites=[])
    g.update({k: kw.pop(k) for k in list(kw) if k in g})
    e = dict(tag='interface', g=g, properties=[], methods=[], signals=[], vfuncs=[], constants=[], attrs=[], intro=True)
    e.update(kw)
    return e


def mk_property(name, type=None, **kw):
    g = dict(name=name, readable='', writable='', construct='', construct_only='', transfer='none', setter='', getter='',
             deprecated='', methods=[], type=type or INT32)
    g.update({k: kw.pop(k) for k in list(kw) if k in g})
    p = dict(g=g, attrs=[], intro=True)
    p.update(kw)
    return p


def mk_signal(name, args=(), **kw):
    g = dict(name=name, when='', no_recurse='', detailed='', action='', no_hooks='', deprecated='')
    g.update({k: kw.pop(k) for k in list(kw) if k in g})
    sigkw = {k: kw.pop(k) for k in list(kw) if k in ('transfer', 'nullable', 'allow_none', 'skip', 'inst', 'rtype')}
    s = dict(g=g, sig=mk_sig('signal', **sigkw), args=[dict(g=a) for a in args], attrs=[], rattrs=[], intro=True)
    s.update(kw)
    return s


def mk_vfunc(name, args=(), **kw):
    g = dict(name=name, invoker='', offset=-1, throws='', methods=[])
    g.update({k: kw.pop(k) for k in list(kw) if k in g})
    sigkw = {k: kw.pop(k) for k in list(kw) if k in ('transfer', 'nullable', 'allow_none', 'skip', 'inst', 'rtype')}
    v = dict(g=g, sig=mk_sig('vfunc', throws=g['throws'], **sigkw), args=[dict(g=a) for a in args], attrs=[], rattrs=[], intro=True)
    v.update(kw)
    return v


def mk_field(name, type=None, callback=None, **kw):
    g = dict(name=name, readable='', writable='', bits=-1, intro=True, cb=callback is not None, type=type or INT32)
    g.update({k: kw.pop(k) for k in list(kw) if k in g})
    f = dict(g=g, callback=callback, attrs=[])
    f.update(kw)
    return f


def mk_callback(name, args=(), deprecated='', **kw):
    sigkw = {k: kw.pop(k) for k in list(kw) if k in ('transfer', 'nullable', 'allow_none', 'skip', 'throws', 'rtype')}
    cb = dict(tag='callback', g=dict(name=name, deprecated=deprecated), sig=mk_sig('callback', **sigkw),
              args=[dict(g=a) for a in args], attrs=[], rattrs=[], intro=True)
    cb.update(kw)
    return cb


def mk_constant(name, type, text, deprecated='', **kw):
    c = dict(tag='constant', g=dict(name=name, deprecated=deprecated, value=const_canon(type, text), type=type), text=text, attrs=[],
             intro=True)
    c.update(kw)
    return c


INT_RANGE = dict(gint8=(-2 ** 7, 2 ** 7 - 1), guint8=(0, 2 ** 8 - 1), gint16=(-2 ** 15, 2 ** 15 - 1), guint16=(0, 2 ** 16 - 1),
                 gint32=(-2 ** 31, 2 ** 31 - 1), guint32=(0, 2 ** 32 - 1), gint64=(-2 ** 63, 2 ** 63 - 1), guint64=(0, 2 ** 64 - 1),
                 gchar=(-128, 127), guchar=(0, 255), gshort=(-2 ** 15, 2 ** 15 - 1), gushort=(0, 2 ** 16 - 1),
                 gint=(-2 ** 31, 2 ** 31 - 1), guint=(0, 2 ** 32 - 1), glong=(-2 ** 63, 2 ** 63 - 1), gulong=(0, 2 ** 64 - 1),
                 gssize=(-2 ** 63, 2 ** 63 - 1), gsize=(0, 2 ** 64 - 1), gintptr=(-2 ** 63, 2 ** 63 - 1), guintptr=(0, 2 ** 64 - 1),
                 gunichar=(0, 2 ** 32 - 1))


def const_canon(type, text):
    """the VALUE a constant literal denotes, as canonical text (integers decimal, booleans 0/1, floating point as the
    shortest repr of the IEEE value of the declared width, strings verbatim)"""
    n = type[0]['rname'] if type[0]['k'] == 'basic' else ''
    if n in INT_RANGE:
        return str(int(text))
    if n == 'gboolean':
        return '1' if text.lower() == 'true' else '0' if text.lower() == 'false' else ('1' if int(text) else '0')
    if n == 'gdouble':
        return repr(float(text))
    if n == 'gfloat':
        return repr(struct.unpack('<f', struct.pack('<f', float(text)))[0])
    return text


def new_doc(ns=NS, version='1.0', shlib='libtst.so.1', cprefix='Tst', includes=(('GLib', '2.0'), ('GObject', '2.0'))):
    return dict(ns=ns, version=version, shlib=shlib, cprefix=cprefix, includes=[list(x) for x in includes], entries=[])


# the fixed environment of the TLC-enumerated type cases (TypelibMC!Env): the entries every case document starts with
def env_entries():
    rec = mk_struct('record', 'Rec', gtype_name='TstRec', gtype_init='tst_rec_get_type')
    dis = mk_struct('record', 'Dis', pointer='1')
    en = mk_enum('enumeration', 'En')
    en['values'].append(mk_value('zero', 0))
    return [dict(tag='alias', name='AInt', type=basic('gint32', True, 0, False)),
            dict(tag='alias', name='ARec', type=ref('', 'Rec', 0)),
            dict(tag='alias', name='AChain', type=ref('', 'ARec', 0)),
            dict(tag='alias', name='AExt', type=ref('GLib', 'Bytes', 0)),
            rec, dis, en]


def doc_env(doc):
    """env record of Typelib.tla for a document: aliases (own and of the included namespaces) and pointer structures"""
    al = []
    ptrs = []
    for e in doc['entries']:
        if e['tag'] == 'alias':
            t = e['type'][0]
            if t['k'] == 'basic':
                al.append(dict(ns=doc['ns'], name=e['name'], tbasic=t['rname'], tns='', tname=''))
            else:
                al.append(dict(ns=doc['ns'], name=e['name'], tbasic='', tns=t['rns'], tname=t['rname']))
        elif e['tag'] == 'record' and (e.get('pointer') == '1' or e.get('disguised') == '1'):
            ptrs.append([doc['ns'], e['g']['name']])
    if any(n == 'GLib' for n, _ in doc['includes']) or any(n == 'GObject' for n, _ in doc['includes']):
        al += INCLUDE_ENV_ALIASES
    return dict(ns=doc['ns'], aliases=al, ptrs=ptrs)


# ----------------------------------------------------------------------------- compile
class Compiled(object):
    pass


def compile_doc(cb, workdir, doc, name=None, twice=True, keep_xml=False):
    """render, write <ns>-<version>.gir into workdir/<name>/, compile (twice) with REPO's g-ir-compiler.
    Returns Compiled: rc, stderr, validated, sha1, sha2, rc2, path, dec (decoded or None), decode_error, xml"""
    d = os.path.join(workdir, name or 'doc')
    os.makedirs(d, exist_ok=True)
    inc = os.path.join(workdir, 'inc')
    if not os.path.exists(os.path.join(inc, 'GLib-2.0.gir')):
        write_includes(inc)
    xml = render_doc(doc)
    gir = os.path.join(d, '%s-%s.gir' % (doc['ns'], doc['version']))
    with open(gir, 'w') as f:
        f.write(xml)
    return compile_gir(cb, gir, inc, twice=twice, xml=xml if keep_xml else None)


def _run_compiler(cb, gir, out, inc):
    """cb: a CBuild, or the path of the g-ir-compiler executable (worker processes)"""
    exe = cb if isinstance(cb, str) else cb.compiler
    return subprocess.run([exe, '--includedir', inc, '-o', out, gir], stdout=subprocess.PIPE, stderr=subprocess.PIPE, text=True,
                          env=dict(os.environ, GI_TYPELIB_PATH='', G_DEBUG=''))


def compile_gir(cb, gir, inc, twice=True, xml=None):
    r = Compiled()
    r.gir = gir
    r.xml = xml
    out = gir[:-4] + '.typelib'
    r.path = out
    for f in (out, out + '.2'):
        if os.path.exists(f):
            os.unlink(f)
    p = _run_compiler(cb, gir, out, inc)
    r.rc = p.returncode
    r.stderr = (p.stderr or '')[-2000:]
    r.validated = p.returncode == 0 and 'Invalid typelib' not in (p.stderr or '')
    r.sha1 = r.sha2 = ''
    r.rc2 = r.rc
    r.dec = None
    r.decode_error = ''
    data = None
    if os.path.exists(out):
        data = open(out, 'rb').read()
        r.sha1 = hashlib.sha256(data).hexdigest()
    if twice:
        p2 = _run_compiler(cb, gir, out + '.2', inc)
        r.rc2 = p2.returncode
        if os.path.exists(out + '.2'):
            r.sha2 = hashlib.sha256(open(out + '.2', 'rb').read()).hexdigest()
            os.unlink(out + '.2')
    else:
        r.sha2 = r.sha1
    if data is not None and r.rc == 0:
        try:
            r.dec = tlabs.decode(data)
        except (tlabs.DecodeError, struct.error, AssertionError, IndexError, UnicodeError) as ex:
            r.decode_error = '%s: %s' % (type(ex).__name__, ex)
    return r


# ----------------------------------------------------------------------------- projection decoded -> b records
def limbs(v, n):
    v &= (1 << (16 * n)) - 1
    return [(v >> (16 * i)) & 0xffff for i in range(n)]


def vrec(v):
    """64-bit value of the GIR as [neg, l<<4 limbs>>]"""
    return dict(neg=v < 0, l=limbs(abs(v), 4))


class Proj(object):
    """projection of one decoded typelib into the abstract vocabulary"""

    def __init__(self, dec):
        self.dec = dec
        self.ns = dec['header']['namespace']
        self.dir = dec['directory']
        self.by_name = {}
        for e in dec['entries']:
            if e.get('kind') != 'xref':
                self.by_name.setdefault(e['name'], e)

    def refof(self, idx):
        """directory index -> [ns, n] ('' '' for 0 / out of range)"""
        if idx <= 0 or idx > len(self.dir):
            return dict(ns='', n='' if idx == 0 else '?%d' % idx)
        e = self.dir[idx - 1]
        return dict(ns=self.ns if e['local'] else e['namespace'], n=e['name'])

    def type(self, t):
        out = []
        for n in tlabs.flatten_type(t):
            r = dict(tag=n['tag'], pointer=n['pointer'], simple=n['simple'], zt=n['zt'], hl=n['hl'], hs=n['hs'], at=n['at'],
                     dim=n['dim'], n=n['n'], rns='', rname='')
            if n['tag'] == tlabs.T_INTERFACE and not n['simple']:
                rf = self.refof(n['iface'])
                r['rns'], r['rname'] = rf['ns'], rf['n']
            out.append(r)
        return out

    def attrs(self, at):
        return [dict(name=n, value=v) for n, v in tlabs.attrs_of(self.dec, at)]

    def arg(self, a):
        r = {k: a[k] for k in ('name', 'in', 'out', 'caller_allocates', 'nullable', 'optional', 'transfer_ownership',
                               'transfer_container_ownership', 'return_value', 'scope', 'skip', 'closure', 'destroy')}
        r['type'] = self.type(a['type'])
        return r

    def sig(self, s):
        r = {k: s[k] for k in ('may_return_null', 'caller_owns_return_value', 'caller_owns_return_container', 'skip_return',
                               'instance_transfer_ownership', 'throws', 'n_arguments')}
        r['arg_names'] = [a['name'] for a in s['args']]
        r['return_type'] = self.type(s['return_type'])
        return r

    def function(self, f, container=None):
        r = {k: f[k] for k in ('name', 'symbol', 'deprecated', 'setter', 'getter', 'constructor', 'wraps_vfunc', 'throws', 'index',
                               'is_static', 'is_async', 'sync_or_async', 'finish')}
        props = (container or {}).get('properties', [])
        r['prop_name'] = props[f['index']]['name'] if f['index'] < len(props) else ''
        return r

    def prop(self, p, container):
        r = {k: p[k] for k in ('name', 'deprecated', 'readable', 'writable', 'construct', 'construct_only', 'transfer_ownership',
                               'transfer_container_ownership', 'setter', 'getter')}
        ms = container.get('methods', [])
        r['setter_name'] = ms[p['setter']]['name'] if p['setter'] < len(ms) else ''
        r['getter_name'] = ms[p['getter']]['name'] if p['getter'] < len(ms) else ''
        r['type'] = self.type(p['type'])
        return r

    def signal(self, s):
        return {k: s[k] for k in ('name', 'deprecated', 'run_first', 'run_last', 'run_cleanup', 'no_recurse', 'detailed', 'action',
                                  'no_hooks')}

    def vfunc(self, v, container):
        r = {k: v[k] for k in ('name', 'invoker', 'struct_offset', 'throws', 'is_async', 'sync_or_async', 'finish')}
        ms = container.get('methods', [])
        r['invoker_name'] = ms[v['invoker']]['name'] if v['invoker'] < len(ms) else ''
        return r

    def field(self, f):
        r = {k: f[k] for k in ('name', 'readable', 'writable', 'bits', 'has_embedded_type')}
        r['type'] = self.type(f['type']) if 'type' in f else []
        return r

    def value(self, v):
        return dict(name=v['name'], value32=limbs(v['value'], 2), unsigned_value=v['unsigned_value'], deprecated=v['deprecated'])

    def constant(self, c):
        return dict(name=c['name'], deprecated=c['deprecated'], value=c['value'], size=c['size'], type=self.type(c['type']))

    def struct(self, s):
        r = {k: s.get(k, 0) for k in ('blob_type', 'name', 'deprecated', 'unregistered', 'gtype_name', 'gtype_init', 'n_fields',
                                      'n_methods', 'copy_func', 'free_func')}
        r['is_gtype_struct'] = s.get('is_gtype_struct', 0)
        r['foreign'] = s.get('foreign', 0)
        r['field_names'] = [f['name'] for f in s['fields']]
        r['method_names'] = [m['name'] for m in s['methods']]
        return r

    def enum(self, e):
        r = {k: e[k] for k in ('blob_type', 'name', 'deprecated', 'unregistered', 'gtype_name', 'gtype_init', 'error_domain',
                               'n_values', 'n_methods')}
        r['value_names'] = [v['name'] for v in e['values']]
        r['method_names'] = [m['name'] for m in e['methods']]
        return r

    def _sections(self, o, r, secs):
        for sec, key in secs:
            r[key + '_names'] = [m['name'] for m in o[sec]]

    def object(self, o):
        r = {k: o[k] for k in ('blob_type', 'name', 'deprecated', 'abstract', 'final', 'fundamental', 'gtype_name', 'gtype_init',
                               'ref_func', 'unref_func', 'set_value_func', 'get_value_func', 'n_interfaces', 'n_fields',
                               'n_properties', 'n_methods', 'n_signals', 'n_vfuncs', 'n_constants', 'n_field_callbacks')}
        r['parent'] = self.refof(o['parent'])
        r['gtype_struct'] = self.refof(o['gtype_struct'])
        r['interfaces'] = [self.refof(i) for i in o['interfaces']]
        self._sections(o, r, (('fields', 'field'), ('properties', 'property'), ('methods', 'method'), ('signals', 'signal'),
                              ('vfuncs', 'vfunc'), ('constants', 'constant')))
        return r

    def interface(self, o):
        r = {k: o[k] for k in ('blob_type', 'name', 'deprecated', 'gtype_name', 'gtype_init', 'n_prerequisites', 'n_properties',
                               'n_methods', 'n_signals', 'n_vfuncs', 'n_constants')}
        r['gtype_struct'] = self.refof(o['gtype_struct'])
        r['prerequisites'] = [self.refof(i) for i in o['prerequisites']]
        self._sections(o, r, (('properties', 'property'), ('methods', 'method'), ('signals', 'signal'), ('vfuncs', 'vfunc'),
                              ('constants', 'constant')))
        return r

    def callback_entry(self, c):
        return dict(blob_type=c['blob_type'], name=c['name'], deprecated=c['deprecated'])

    # ---- document level
    def bdoc(self):
        h = self.dec['header']
        local, nonlocal_ = [], []
        last_local = max([i for i, e in enumerate(self.dir) if e['local']] or [-1])
        for i, e in enumerate(self.dir):
            if e['local']:
                local.append(dict(name=e['name'], bt=e['blob_type']))
            else:
                nonlocal_.append(dict(name=e['name'], ns=e['namespace'], bt=e['blob_type'], after=i > last_local))
        return dict(namespace=h['namespace'], nsversion=h['nsversion'], shared_library=h['shared_library'], c_prefix=h['c_prefix'],
                    deps=h['dependencies'].split('|') if h['dependencies'] else [], n_entries=h['n_entries'],
                    n_local_entries=h['n_local_entries'], local=local, nonlocal_=nonlocal_)

    def layout(self):
        h = self.dec['header']
        sizes = {k: h[k] for k in h if k.endswith('_blob_size')}
        return dict(size=self.dec['size'], hsize=h['size'], sizes=sizes, directory=h['directory'], attributes=h['attributes'],
                    ext=[dict(at=e['at'], size=e['size'], what=e['what']) for e in self.dec['extents']],
                    attr_offsets=[a['offset'] for a in self.dec['attributes']])

    def container(self, b):
        """reader-view record of a container blob: where the decoder's sequential walk met every member"""
        kind = {'struct': 'struct', 'boxed': 'struct', 'union': 'union', 'enum': 'enum', 'flags': 'enum', 'object': 'object',
                'interface': 'interface'}[b['kind']]
        cbs = [bool(f['has_embedded_type']) for f in b.get('fields', [])]
        counts = dict(ni=b.get('n_interfaces', b.get('n_prerequisites', 0)), cbs=cbs, np=b.get('n_properties', 0),
                      nm=b.get('n_methods', 0), ns=b.get('n_signals', 0), nv=b.get('n_vfuncs', 0), nc=b.get('n_constants', 0),
                      nvals=b.get('n_values', 0))
        members = []
        for sec in ('fields', 'properties', 'methods', 'signals', 'vfuncs', 'constants', 'values'):
            for i, m in enumerate(b.get(sec, [])):
                members.append(dict(sec=sec, i=i, at=m['at'], cbat=m['callback']['at'] if 'callback' in m else 0))
        return dict(kind=kind, at=b['at'], counts=counts, members=members, end=b['end'])


CONTAINER_KINDS = ('struct', 'boxed', 'union', 'enum', 'flags', 'object', 'interface')


# ----------------------------------------------------------------------------- observations for TypelibTrace (C06)
DUMMY = dict(x=0)
NOENV = dict(ns='', aliases=[], ptrs=[])
NOENV_KEY = '-'


def kept(e):
    return e.get('intro', True) and not e.get('shadowed_by') and e.get('tag') != 'alias'


def final_name(e):
    """name under which a kept top-level element / member appears in the typelib"""
    if 'fn' in e:
        return e['fn']['shadows'] or e['fn']['name']
    if e.get('tag') == 'alias':
        return e['name']
    return e['g']['name']


DOC_KINDS = ('accept', 'det', 'doc', 'layout', 'container')


class Observer(object):
    """walks an abstract document and the decoded typelib side by side; pairs elements by position where position has
    meaning (arguments, fields, values) and by name elsewhere (entries, methods, properties, signals, vfuncs, constants);
    emits one record per element and clause family.  An element without counterpart gives found = FALSE.
    focus = None: every element; else {'kinds': kinds to emit, 'names': None | names of the elements of interest} -- the
    family documents built around TLC's cases contain scaffolding (filler parameters, support entries) that is not re-judged
    in every document.  roles[id] = structural position of the element (entry kind/member kind/...), used to classify findings."""

    def __init__(self, docid, doc, comp, types=False, focus=None):
        self.id = docid
        self.doc = doc
        self.c = comp
        self.env = doc_env(doc)
        self.envkey = 'e' + hashlib.sha1(json.dumps(self.env, sort_keys=True).encode()).hexdigest()[:10]
        self.obs = []
        self.types = types
        self.focus = focus
        self.roles = {}

    def rec(self, path, kind, g, b, env=False, found=True, role=''):
        f = self.focus
        if f is not None and kind not in DOC_KINDS:
            if kind not in f['kinds']:
                return
            if f.get('names') is not None and isinstance(g, dict) and g.get('name') not in f['names']:
                return
        oid = '%s|%s|%s' % (self.id, path, kind)
        self.roles[oid] = role
        self.obs.append(dict(id=oid, kind=kind, found=bool(found and b is not None),
                             env=self.envkey if env else NOENV_KEY, g=g if g is not None else DUMMY,
                             b=b if (found and b is not None) else DUMMY))

    def typ(self, path, gtype, btype, out=False, field=False, role=''):
        """a type on its own (sub-clause names in the verdict); the owning element's clause covers it anyway"""
        if self.types:
            self.rec(path, 'type', dict(type=gtype, ctx=dict(out=bool(out), field=bool(field)), name=path.rsplit('/', 1)[-1]),
                     dict(type=btype), env=True, role=role + '/type')

    def run(self):
        c = self.c
        self.rec('', 'accept', None, dict(rc=c.rc, validated=bool(c.validated), decoded=c.dec is not None), role='document')
        self.rec('', 'det', None, dict(rc1=c.rc, rc2=c.rc2, sha1=c.sha1, sha2=c.sha2), role='document')
        if c.dec is None:
            return self.obs
        P = self.P = Proj(c.dec)
        doc = self.doc
        ents = [e for e in doc['entries'] if kept(e)]
        gdoc = dict(ns=doc['ns'], version=doc['version'], shlib=doc['shlib'], cprefix=doc['cprefix'],
                    deps=['%s-%s' % (n, v) for n, v in doc['includes']],
                    entries=[dict(name=final_name(e), bt=BT[e['tag']]) for e in ents])
        bd = P.bdoc()
        bd['xrefs'] = bd.pop('nonlocal_')
        self.rec('', 'doc', gdoc, bd, role='document')
        self.rec('', 'layout', None, P.layout(), role='document')
        for b in c.dec['entries']:
            if b.get('kind') in CONTAINER_KINDS:
                self.rec(b['name'], 'container', None, P.container(b), role=b['kind'])
        for e in ents:
            name = final_name(e)
            b = P.by_name.get(name)
            self.entry(name, e, b)
        return self.obs

    # ------------------------------------------------------------------ pieces
    def attrs(self, path, gattrs, at, role, cid=None):
        if cid is not None:
            self.rec(path, 'vattrs', dict(attrs=list(gattrs or []), cid=cid), dict(attrs=self.P.attrs(at)), role=role)
        else:
            self.rec(path, 'attrs', dict(attrs=list(gattrs or [])), dict(attrs=self.P.attrs(at)), role=role)

    def callable(self, path, c, sigblob, role):
        """c = abstract callable {sig, args, rattrs}; sigblob = decoded signature or None"""
        sg = dict(c['sig'])
        sg['params'] = [a['g']['name'] for a in c['args']]
        sg['name'] = path.rsplit('/', 1)[-1].split(':')[-1]
        self.rec(path, 'sig', sg, self.P.sig(sigblob) if sigblob else None, env=True, role=role)
        if not sigblob:
            return
        self.attrs(path + '/return', c.get('rattrs', []), sigblob['at'], role + '/return')
        self.typ(path + '/return', sg['rtype'], self.P.type(sigblob['return_type']), role=role + '/return')
        for i, a in enumerate(c['args']):
            ab = sigblob['args'][i] if i < len(sigblob['args']) else None
            self.rec('%s/arg%d' % (path, i), 'arg', a['g'], self.P.arg(ab) if ab else None, env=True, role=role + '/arg')
            if ab:
                self.attrs('%s/arg%d' % (path, i), a.get('attrs', []), ab['at'], role + '/arg')
                self.typ('%s/%s' % (path, a['g']['name']), a['g']['type'], self.P.type(ab['type']), out=a['g']['dir'] in ('out', 'inout'),
                         role=role + '/arg')

    def function(self, path, f, b, container=None, props=(), role='function'):
        g = dict(f['fn'])
        g['props'] = list(props)
        self.rec(path, 'function', g, self.P.function(b, container) if b else None, role=role)
        if b:
            self.attrs(path, f.get('attrs', []), b['at'], role)
            self.callable(path, f, b['signature'], role)

    def by_names(self, gitems, bitems):
        """pair kept abstract members with decoded members by name"""
        idx = {}
        for m in bitems:
            idx.setdefault(m['name'], m)
        return [(m, idx.get(final_name(m))) for m in gitems if kept(m)]

    def fields(self, path, e, b, role):
        for i, f in enumerate(e.get('fields', [])):
            fb = b['fields'][i] if i < len(b.get('fields', [])) else None
            p = '%s/field%d' % (path, i)
            r = role + '/field'
            self.rec(p, 'field', f['g'], self.P.field(fb) if fb else None, env=True, role=r)
            if fb:
                self.attrs(p, f.get('attrs', []), fb['at'], r)
                if 'type' in fb and f['g']['intro'] and not f['g']['cb']:
                    self.typ('%s/%s' % (path, f['g']['name']), f['g']['type'], self.P.type(fb['type']), field=True, role=r)
                if f['g']['cb'] and f['g']['intro'] and 'callback' in fb:
                    cbb = fb['callback']
                    self.rec(p + '/cb', 'callback', f['callback']['g'], self.P.callback_entry(cbb), role=r + '/callback')
                    self.attrs(p + '/cb', f['callback'].get('attrs', []), cbb['at'], r + '/callback')
                    self.callable(p + '/cb', f['callback'], cbb['signature'], r + '/callback')

    def members(self, path, e, b, role):
        P = self.P
        props = [m['g']['name'] for m in e.get('properties', []) if kept(m)]
        meths = [final_name(m) for m in e.get('methods', []) if kept(m)]
        for m, mb in self.by_names(e.get('methods', []), b.get('methods', [])):
            self.function('%s/m:%s' % (path, final_name(m)), m, mb, b, props, role=role + '/' + m['fn']['ckind'])
        for m, mb in self.by_names(e.get('properties', []), b.get('properties', [])):
            g = dict(m['g'])
            g['methods'] = meths
            p = '%s/p:%s' % (path, g['name'])
            self.rec(p, 'property', g, P.prop(mb, b) if mb else None, env=True, role=role + '/property')
            if mb:
                self.attrs(p, m.get('attrs', []), mb['at'], role + '/property')
                self.typ(p, g['type'], P.type(mb['type']), role=role + '/property')
        for m, mb in self.by_names(e.get('signals', []), b.get('signals', [])):
            p = '%s/s:%s' % (path, m['g']['name'])
            self.rec(p, 'signal', m['g'], P.signal(mb) if mb else None, role=role + '/signal')
            if mb:
                self.attrs(p, m.get('attrs', []), mb['at'], role + '/signal')
                self.callable(p, m, mb['signature'], role + '/signal')
        for m, mb in self.by_names(e.get('vfuncs', []), b.get('vfuncs', [])):
            g = dict(m['g'])
            g['methods'] = meths
            p = '%s/v:%s' % (path, g['name'])
            self.rec(p, 'vfunc', g, P.vfunc(mb, b) if mb else None, role=role + '/vfunc')
            if mb:
                self.attrs(p, m.get('attrs', []), mb['at'], role + '/vfunc')
                self.callable(p, m, mb['signature'], role + '/vfunc')
        for m, mb in self.by_names(e.get('constants', []), b.get('constants', [])):
            p = '%s/c:%s' % (path, m['g']['name'])
            self.rec(p, 'constant', m['g'], P.constant(mb) if mb else None, env=True, role=role + '/constant')
            if mb:
                self.attrs(p, m.get('attrs', []), mb['at'], role + '/constant')
                self.typ(p, m['g']['type'], P.type(mb['type']), role=role + '/constant')

    def entry(self, name, e, b):
        tag = e['tag']
        P = self.P
        want = {'function': 'function', 'callback': 'callback', 'record': 'struct', 'boxed': 'boxed', 'union': 'union',
                'enumeration': 'enum', 'bitfield': 'flags', 'class': 'object', 'interface': 'interface', 'constant': 'constant'}[tag]
        fam = lambda k: 'struct' if k in ('struct', 'boxed', 'union') else 'enum' if k in ('enum', 'flags') else k
        if b is not None and fam(b.get('kind')) != fam(want):
            b = None            # an entry of another family under that name: the element itself is missing (the doc record says which kind sits there)
        role = tag
        if tag == 'function':
            self.function(name, e, b, role=role)
        elif tag == 'callback':
            self.rec(name, 'callback', e['g'], P.callback_entry(b) if b else None, role=role)
            if b:
                self.attrs(name, e.get('attrs', []), b['at'], role)
                self.callable(name, e, b['signature'], role)
        elif tag == 'constant':
            self.rec(name, 'constant', e['g'], P.constant(b) if b else None, env=True, role=role)
            if b:
                self.attrs(name, e.get('attrs', []), b['at'], role)
                self.typ(name, e['g']['type'], P.type(b['type']), role=role)
        elif tag in ('record', 'boxed', 'union'):
            g = dict(e['g'])
            g['fields'] = [dict(name=f['g']['name'], intro=True, cb=bool(f['g']['cb'] and f['g']['intro'])) for f in e['fields']]
            g['methods'] = [dict(name=final_name(m), intro=bool(kept(m))) for m in e['methods']]
            self.rec(name, 'struct', g, P.struct(b) if b else None, env=True, role=role)
            if b:
                self.attrs(name, e.get('attrs', []), b['at'], role)
                self.fields(name, e, b, role)
                self.members(name, e, b, role)
        elif tag in ('enumeration', 'bitfield'):
            g = dict(e['g'])
            g['values'] = [v['g']['name'] for v in e['values']]
            g['methods'] = [dict(name=final_name(m), intro=bool(kept(m))) for m in e['methods']]
            self.rec(name, 'enum', g, P.enum(b) if b else None, env=True, role=role)
            if b:
                self.attrs(name, e.get('attrs', []), b['at'], role)
                for i, v in enumerate(e['values']):
                    vb = b['values'][i] if i < len(b['values']) else None
                    p = '%s/val%d' % (name, i)
                    vg = dict(v['g'])
                    vg['v'] = vrec(v['int'])
                    self.rec(p, 'value', vg, P.value(vb) if vb else None, role=role + '/member')
                    if vb:
                        self.attrs(p, v.get('attrs', []), vb['at'], role + '/member', cid=v['g']['cid'])
                self.members(name, e, b, role)
        elif tag in ('class', 'interface'):
            g = dict(e['g'])
            for sec in ('fields', 'properties', 'methods', 'signals', 'vfuncs', 'constants'):
                if sec == 'fields':
                    if tag == 'class':
                        g['fields'] = [dict(name=f['g']['name'], intro=True, cb=bool(f['g']['cb'] and f['g']['intro'])) for f in e['fields']]
                else:
                    g[sec] = [dict(name=final_name(m), intro=bool(kept(m))) for m in e[sec]]
            self.rec(name, 'object' if tag == 'class' else 'interface', g,
                     (P.object(b) if tag == 'class' else P.interface(b)) if b else None, env=True, role=role)
            if b:
                self.attrs(name, e.get('attrs', []), b['at'], role)
                if tag == 'class':
                    self.fields(name, e, b, role)
                self.members(name, e, b, role)


def observe(docid, doc, comp, types=False, focus=None, envs=None):
    """-> (observation records, roles).  envs (dict) collects the environment table the records refer to by key."""
    o = Observer(docid, doc, comp, types=types, focus=focus)
    o.run()
    if envs is not None:
        envs[o.envkey] = o.env
        envs[NOENV_KEY] = NOENV
    return o.obs, o.roles


def parallel_verdict(ck, module, obs, envs, nproc=None, min_chunk=400, timeout=6000):
    """ck.tlc_verdict semantics (batch idiom A.2), with the records spread over nproc concurrent TLC processes: reading
    the observations dominates the run time of a trace spec, and the clauses of different records are independent.
    envs: the environment table (ENV_FILE) the records refer to by key."""
    from concurrent.futures import ThreadPoolExecutor
    from .common import MachineryError, NCPU
    if not obs:
        return [], {}
    nproc = min(nproc or NCPU, NCPU)
    n = max(1, min(nproc, (len(obs) + min_chunk - 1) // min_chunk))
    size = (len(obs) + n - 1) // n
    parts = [obs[k:k + size] for k in range(0, len(obs), size)]
    ef = os.path.join(ck.tmp, 'envs-%s.json' % module)
    with open(ef, 'w') as f:
        json.dump(envs, f)

    def one(k):
        part = parts[k]
        tf = os.path.join(ck.tmp, 'obs-%s-%d.json' % (module, k))
        vf = os.path.join(ck.tmp, 'verdict-%s-%d.json' % (module, k))
        with open(tf, 'w') as f:
            json.dump(part, f)
        r = ck._tlc(module + '.tla', module + '.cfg', [], dict(TRACE_FILE=tf, VERDICT_FILE=vf, ENV_FILE=ef), timeout, 1)
        if not os.path.exists(vf):
            raise MachineryError('trace spec %s produced no verdict:\n%s' % (module, r['out'][-3000:]))
        v = json.load(open(vf))
        if v.get('n') != len(part):
            raise MachineryError('trace spec %s consumed %s of %d records' % (module, v.get('n'), len(part)))
        os.unlink(tf)
        return v

    with ThreadPoolExecutor(len(parts)) as ex:
        vs = list(ex.map(one, range(len(parts))))
    rejected, exercised = [], {}
    for v in vs:
        rejected += [tuple(x) for x in v.get('rejected', [])]
        e = v.get('exercised', {})
        if isinstance(e, list):
            e = {a: b for a, b in e}
        for c, cnt in e.items():
            exercised[c] = exercised.get(c, 0) + cnt
    ck.cov['traces_validated_against_impl'] += len(obs)
    ev = ck.cov.setdefault('clauses_exercised', {})
    for c, cnt in exercised.items():
        ev[c] = ev.get(c, 0) + cnt
    return rejected, exercised


# ----------------------------------------------------------------------------- C06 worker (one document per task)
def c06_worker(task):
    """task = (compiler, workdir, docid, doc, meta, keep).  Compiles (twice), decodes, observes; a packed family document the
    compiler rejects (or whose output cannot be decoded) is split to isolate the elements at fault.
    -> list of result dicts (one per document actually observed)"""
    compiler, workdir, docid, doc, meta, keep = task
    out = []

    def go(docid, doc, bisect):
        comp = compile_doc(compiler, workdir, doc, name=docid)
        nruns = 1
        can_bisect = bisect and not meta.get('nobisect') and meta.get('family') not in ('random', 'bound', 'doc')
        if (comp.rc != 0 or comp.dec is None) and can_bisect:
            fixed = [e for e in doc['entries'] if e.get('_env')]
            var = [e for e in doc['entries'] if not e.get('_env')]
            if len(var) > 1:
                h = len(var) // 2
                for k, part in enumerate((var[:h], var[h:])):
                    d2 = dict(doc)
                    d2['entries'] = fixed + part
                    nruns += go('%s.%d' % (docid, k), d2, True)
                return nruns
        envs = {}
        obs, roles = observe(docid, doc, comp, types=meta.get('types', False), focus=meta.get('focus'), envs=envs)
        out.append(dict(docid=docid, doc=doc, meta=meta, obs=obs, roles=roles, envs=envs, rc=comp.rc, stderr=comp.stderr.strip()[-300:],
                        decode_error=comp.decode_error, runs=nruns))
        if not keep:
            shutil.rmtree(os.path.dirname(comp.gir), ignore_errors=True)
        return nruns
    go(docid, doc, True)
    return out

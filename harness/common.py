"""Shared machinery of the /verif checks: TLC runner, verdict parsing, evidence, findings.

Verdicts are formed by TLC only (model checking of tla/<Module>.tla, and evaluation of the
module's property layer on observations of the real code by tla/<Module>Trace.tla).  Python
renders abstract cases into inputs, runs the code under /repo, projects outputs to JSON.

Exit codes: 0 held / only known findings; 1 VIOLATION; 2 machinery failure.
"""
import json, os, re, shutil, subprocess, sys, tempfile, time, hashlib, random, argparse, traceback

VERIF = os.path.dirname(os.path.dirname(os.path.abspath(__file__)))
REPO = os.environ.get('VERIF_REPO', '/repo')
TLA_DIR = os.path.join(VERIF, 'tla')
EVID_DIR = os.path.join(VERIF, 'evidence')
OUT_DIR = os.path.join(VERIF, 'out')
FINDINGS = os.path.join(VERIF, 'known_findings.json')
PY = '/venv/bin/python'
NCPU = int(os.environ.get('VERIF_NCPU', '0') or 0) or os.cpu_count() or 4   # VERIF_NCPU: cap for shared machines


class MachineryError(Exception):
    pass


def parse_args(pid):
    ap = argparse.ArgumentParser(prog='check ' + pid)
    ap.add_argument('--tier', default=os.environ.get('VERIF_TIER', 'quick'), choices=['quick', 'thorough'])
    ap.add_argument('--seed', type=int, default=int(os.environ.get('VERIF_SEED', '0') or 0))
    ap.add_argument('--replay', default=None)
    ap.add_argument('--selftest', action='store_true')
    ap.add_argument('--keep', action='store_true', help='keep scratch dir (debugging)')
    return ap.parse_args(sys.argv[2:])


def stable_hash(obj):
    return hashlib.sha1(json.dumps(obj, sort_keys=True, default=str).encode()).hexdigest()[:12]


class TLCResult(dict):
    __getattr__ = dict.get


def _parse_tlc_output(out):
    r = TLCResult(generated=0, distinct=0, depth=0, ok=False, error=None, coverage={}, raw_tail=out[-4000:])
    m = None
    for m in re.finditer(r'(\d+) states generated, (\d+) distinct states found, (\d+) states left on queue', out):
        pass
    if m:
        r['generated'], r['distinct'] = int(m.group(1)), int(m.group(2))
    m = re.search(r'depth of the complete state graph search is (\d+)', out)
    if m:
        r['depth'] = int(m.group(1))
    m = re.search(r'The number of states generated: (\d+)', out)   # simulation mode
    if m and not r['generated']:
        r['generated'] = int(m.group(1))
    if 'Model checking completed. No error has been found.' in out:
        r['ok'] = True
    em = re.search(r'Error: (.*)', out)
    if em and not r['ok']:
        r['error'] = em.group(1).strip()
    inv = re.search(r'Invariant (\S+) is violated', out)
    if inv:
        r['violated'] = inv.group(1)
    ap = re.search(r'Action property (\S+) is violated', out) or re.search(r'Temporal properties were violated', out)
    if ap and not inv:
        r['violated'] = ap.group(1) if ap.groups() else 'temporal'
    # coverage: "<Action line .. of module M>: distinct:generated"
    for cm in re.finditer(r'^<(\w+) line \d+, col \d+ to line \d+, col \d+ of module (\w+)>: (\d+):(\d+)', out, re.M):
        name = cm.group(1)
        d, g = int(cm.group(3)), int(cm.group(4))
        pd, pg = r['coverage'].get(name, (0, 0))
        r['coverage'][name] = (pd + d, pg + g)
    return r


def parse_error_trace(out):
    """Parse the counterexample TLC prints ('State n: <action>' blocks) into a list of
    (action_name, {var: tla_text})."""
    states = []
    blocks = re.split(r'^State (\d+): ', out, flags=re.M)
    # blocks: [pre, num, body, num, body...]
    for i in range(1, len(blocks) - 1, 2):
        body = blocks[i + 1]
        head, _, rest = body.partition('\n')
        am = re.match(r'<(\w+)', head)
        action = am.group(1) if am else head.strip()
        vars_ = {}
        cur = None
        for line in rest.split('\n'):
            if line.startswith('/\\ '):
                m = re.match(r'/\\ (\w+) = (.*)', line)
                if m:
                    cur = m.group(1)
                    vars_[cur] = m.group(2)
                    continue
            if line.strip() == '' or line.startswith('Error') or re.match(r'^\d+ states generated', line) or line.startswith('Finished') or line.startswith('The '):
                if line.strip() == '':
                    cur = None if cur and False else cur
                    continue
                break
            if cur:
                vars_[cur] += ' ' + line.strip()
        states.append((action, vars_))
    return states


def tla_to_py(text):
    """Convert a printed TLA+ value (records, sequences, sets, strings, ints, booleans) into Python.
    Sets become lists; records dicts; functions (a :> b @@ ...) dicts."""
    s = text.strip()
    pos = [0]

    def ws():
        while pos[0] < len(s) and s[pos[0]].isspace():
            pos[0] += 1

    def parse():
        ws()
        c = s[pos[0]]
        if s.startswith('<<', pos[0]):
            pos[0] += 2
            items = plist('>>')
            return items
        if c == '{':
            pos[0] += 1
            return plist('}')
        if c == '[':
            pos[0] += 1
            d = {}
            ws()
            if s[pos[0]] == ']':
                pos[0] += 1
                return d
            while True:
                ws()
                m = re.match(r'(\w+)\s*\|->', s[pos[0]:])
                if not m:
                    raise ValueError('bad record at %d in %r' % (pos[0], s[:200]))
                pos[0] += m.end()
                d[m.group(1)] = parse()
                ws()
                if s[pos[0]] == ',':
                    pos[0] += 1
                    continue
                if s[pos[0]] == ']':
                    pos[0] += 1
                    return d
                raise ValueError('bad record sep at %d' % pos[0])
        if c == '(':
            pos[0] += 1
            d = {}
            while True:
                k = parse()
                ws()
                assert s.startswith(':>', pos[0]), s[pos[0]:pos[0] + 20]
                pos[0] += 2
                v = parse()
                d[k if not isinstance(k, list) else tuple(k)] = v
                ws()
                if s.startswith('@@', pos[0]):
                    pos[0] += 2
                    continue
                if s[pos[0]] == ')':
                    pos[0] += 1
                    return d
                raise ValueError('bad function at %d' % pos[0])
        if c == '"':
            j = pos[0] + 1
            buf = []
            while s[j] != '"':
                if s[j] == '\\':
                    j += 1
                buf.append(s[j])
                j += 1
            pos[0] = j + 1
            return ''.join(buf)
        m = re.match(r'-?\d+', s[pos[0]:])
        if m:
            pos[0] += m.end()
            return int(m.group(0))
        m = re.match(r'\w+', s[pos[0]:])
        if m:
            pos[0] += m.end()
            w = m.group(0)
            return {'TRUE': True, 'FALSE': False}.get(w, w)
        raise ValueError('cannot parse at %d: %r' % (pos[0], s[pos[0]:pos[0] + 40]))

    def plist(close):
        items = []
        ws()
        if s.startswith(close, pos[0]):
            pos[0] += len(close)
            return items
        while True:
            items.append(parse())
            ws()
            if s[pos[0]] == ',':
                pos[0] += 1
                continue
            if s.startswith(close, pos[0]):
                pos[0] += len(close)
                return items
            raise ValueError('bad list at %d: %r' % (pos[0], s[pos[0]:pos[0] + 40]))

    v = parse()
    return v


class Check:
    def __init__(self, pid, level, args=None):
        self.pid = pid
        self.level = level
        self.args = args or parse_args(pid)
        self.tier = self.args.tier
        self.seed = self.args.seed
        self.rng = random.Random(self.seed * 1000003 + int(hashlib.sha1(pid.encode()).hexdigest()[:6], 16))
        self.t0 = time.time()
        self.tmp = tempfile.mkdtemp(prefix='verif-%s-' % pid)
        self.cov = dict(states=0, transitions=0, traces_validated_against_impl=0, evaluations=0,
                        distinct_nontrivial=0, samples=[], exhaustive=False, tlc_runs=[], rule='')
        self.assumptions = []
        self.violations = []   # (sig dict, text, replay obj)
        self.known_hits = []
        self.notes = []
        self._nontrivial = set()
        os.makedirs(EVID_DIR, exist_ok=True)
        self.replay_dir = os.path.join(OUT_DIR, 'replay', pid)
        os.makedirs(self.replay_dir, exist_ok=True)
        try:
            self.findings = [f for f in json.load(open(FINDINGS)) if f.get('property') == pid]
        except FileNotFoundError:
            self.findings = []

    @property
    def quick(self):
        return self.tier == 'quick'

    # ---------------------------------------------------------------- TLC
    def _tlc(self, module, cfg, extra, env, timeout, workers):
        meta = tempfile.mkdtemp(prefix='meta-', dir=self.tmp)
        cmd = ['tlc', '-workers', str(workers), '-metadir', meta, '-noGenerateSpecTE']
        cmd += extra
        if cfg:
            cmd += ['-config', cfg]
        cmd += [module]
        e = dict(os.environ)
        e.update(env or {})
        t = time.time()
        try:
            p = subprocess.run(cmd, cwd=TLA_DIR, env=e, stdout=subprocess.PIPE, stderr=subprocess.STDOUT,
                               timeout=timeout, text=True)
        except subprocess.TimeoutExpired as ex:
            subprocess.run(['pkill', '-f', meta], check=False)
            raise MachineryError('TLC timeout (%ss) on %s %s' % (timeout, module, cfg))
        finally:
            shutil.rmtree(meta, ignore_errors=True)
        out = p.stdout
        r = _parse_tlc_output(out)
        r['wall_s'] = round(time.time() - t, 2)
        r['rc'] = p.returncode
        r['out'] = out
        return r

    def tlc_mc(self, module, cfg=None, workers=None, timeout=1500, env=None, coverage=True, expect_ok=True,
               simulate=None, depth=None, extra=None, label=None):
        """Model-check tla/<module>.tla with tla/<cfg>.  Adds the state counts to the evidence.
        A property violation *of the model* is a machinery failure (the model must satisfy the
        property layer, or the counterexample must have been triaged into known_findings)."""
        ex = list(extra or [])
        if coverage:
            ex += ['-coverage', '1']
        if simulate:
            ex += ['-simulate', simulate]
            if depth:
                ex += ['-depth', str(depth)]
            ex += ['-seed', str(self.seed + 1)]
        r = self._tlc(module + '.tla', cfg or (module + '.cfg'), ex, env, timeout, workers or NCPU)
        self.cov['states'] += r['distinct'] if not simulate else r['generated']
        self.cov['transitions'] += r['generated']
        self.cov['tlc_runs'].append(dict(module=module, cfg=cfg or module + '.cfg', label=label, generated=r['generated'],
                                         distinct=r['distinct'], depth=r['depth'], wall_s=r['wall_s'], ok=r['ok'],
                                         mode='simulate' if simulate else 'exhaustive',
                                         violated=r.get('violated'),
                                         actions_never_taken=sorted(a for a, (d, g) in r['coverage'].items() if g == 0)))
        if expect_ok and not r['ok'] and not (simulate and r['rc'] == 0):
            raise MachineryError('TLC on %s/%s did not complete cleanly: %s\n%s' % (module, cfg, r.get('error'), r['out'][-3000:]))
        return r

    def tlc_verdict(self, module, obs, env=None, timeout=1500, chunk=20000, fmt='json'):
        """Evaluate the property layer of tla/<module>.tla (a *Trace module following idiom A.2) on
        observation records.  Returns list of (id, clause) rejected and dict of exercised counts."""
        rejected, exercised, n = [], {}, 0
        for k in range(0, max(len(obs), 1), chunk):
            part = obs[k:k + chunk]
            if not part:
                break
            tf = os.path.join(self.tmp, 'obs-%s-%d.json' % (module, k))
            vf = os.path.join(self.tmp, 'verdict-%s-%d.json' % (module, k))
            with open(tf, 'w') as f:
                json.dump(part, f)
            e = dict(env or {})
            e.update(TRACE_FILE=tf, VERDICT_FILE=vf)
            r = self._tlc(module + '.tla', module + '.cfg', [], e, timeout, 1)
            if not os.path.exists(vf):
                raise MachineryError('trace spec %s produced no verdict:\n%s' % (module, r['out'][-3000:]))
            v = json.load(open(vf))
            if v.get('n') != len(part):
                raise MachineryError('trace spec %s consumed %s of %d records' % (module, v.get('n'), len(part)))
            n += len(part)
            rejected += [tuple(x) for x in v.get('rejected', [])]
            ex = v.get('exercised', {})
            if isinstance(ex, list):      # sequence of <<name, count>>
                ex = {a: b for a, b in ex}
            for c, cnt in ex.items():
                exercised[c] = exercised.get(c, 0) + cnt
            os.unlink(tf)
        self.cov['traces_validated_against_impl'] += n
        ev = self.cov.setdefault('clauses_exercised', {})
        for c, cnt in exercised.items():
            ev[c] = ev.get(c, 0) + cnt
        return rejected, exercised

    # ---------------------------------------------------------------- bookkeeping
    def count(self, n=1):
        self.cov['evaluations'] += n

    def nontrivial(self, key):
        self._nontrivial.add(key if isinstance(key, (str, int, tuple)) else stable_hash(key))

    def sample(self, obj, limit=3):
        if len(self.cov['samples']) < limit:
            self.cov['samples'].append(obj)

    def violation(self, sig, text, replay):
        """sig: dict identifying the failing input / call site / history (matched against
        known_findings.json 'match' subsets)."""
        for f in self.findings:
            if f.get('status') == 'known' and all(sig.get(k) == v for k, v in f.get('match', {}).items()):
                if f['id'] not in [h[0] for h in self.known_hits]:
                    self.known_hits.append((f['id'], f.get('what', text)))
                return False
        self.violations.append((sig, text, replay))
        return True

    def finish(self):
        rc = 0
        for fid, what in self.known_hits:
            print('KNOWN-FINDING: property=%s %s [%s]' % (self.pid, what, fid))
        seen = set()
        nviol = 0
        for sig, text, replay in self.violations:
            h = stable_hash(sig)
            if h in seen:
                continue
            seen.add(h)
            nviol += 1
            if nviol > 25:
                continue
            path = os.path.join(self.replay_dir, '%s.json' % h)
            with open(path, 'w') as f:
                json.dump(dict(property=self.pid, sig=sig, text=text, replay=replay), f, indent=1, default=str)
            print('VIOLATION property=%s replay=%s' % (self.pid, path))
            print('  ' + text.replace('\n', '\n  ')[:1500])
            rc = 1
        self.cov['distinct_nontrivial'] = max(self.cov['distinct_nontrivial'], len(self._nontrivial))
        if not self.cov['samples']:
            self.cov['samples'] = ['(no sample recorded)']
        if self.cov['evaluations'] == 0:
            self.cov['evaluations'] = self.cov['traces_validated_against_impl']
        self.cov['known_findings_reproduced'] = [k for k, _ in self.known_hits]
        self.cov['notes'] = self.notes
        ev = dict(property_id=self.pid, tier=self.tier, seed=self.seed, level=self.level, coverage=self.cov,
                  assumptions=self.assumptions, wall_s=round(time.time() - self.t0, 2), violations=nviol)
        # evidence/ describes runs against /repo itself only: replays and runs against a scratch copy
        # (VERIF_REPO, mutation experiments) write elsewhere
        scratch = os.path.realpath(REPO) != '/repo'
        evdir = EVID_DIR if not (self.args.replay or scratch) else os.path.join(OUT_DIR, 'scratch-evidence' if scratch else 'replay-evidence')
        os.makedirs(evdir, exist_ok=True)
        with open(os.path.join(evdir, self.pid + '.json'), 'w') as f:
            json.dump(ev, f, indent=1, default=str)
        if not self.args.keep:
            shutil.rmtree(self.tmp, ignore_errors=True)
        print('%s %s tier=%s seed=%d: states=%d traces=%d evaluations=%d violations=%d known=%d wall=%.1fs' % (
            'OK' if rc == 0 else 'FAIL', self.pid, self.tier, self.seed, self.cov['states'],
            self.cov['traces_validated_against_impl'], self.cov['evaluations'], nviol, len(self.known_hits),
            time.time() - self.t0))
        return rc


def main_wrapper(pid, fn):
    """Run fn() -> exit code, mapping unexpected exceptions to exit 2 (machinery failure)."""
    try:
        rc = fn()
    except MachineryError as e:
        print('MACHINERY-FAILURE %s: %s' % (pid, e))
        rc = 2
    except SystemExit:
        raise
    except BaseException:
        traceback.print_exc()
        print('MACHINERY-FAILURE %s: unexpected exception' % pid)
        rc = 2
    sys.exit(rc)

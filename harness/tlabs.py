"""tlabs — an INDEPENDENT decoder of the binary typelib format.

Written from the struct definitions and comments of girepository/gitypelib-internal.h (the
published format), NOT from the accessor code (gi*info.c) nor from the writer (girnode.c).
It is part of the trusted base of C06 / C09 / C14 / C15, so it is kept dumb: every struct of
the header is one `_rec()` call listing the fields in declaration order with their widths;
bit-fields are allocated LSB-first inside their storage unit (little-endian typelibs, the
only kind the compiler in this tree produces; the format comment says "apart the endianness
of its scalar values ... architecture-independent").

API (stable, shared):

    decode(path_or_bytes) -> dict
        size            length of the file in bytes
        header          every Header field; string-valued offsets additionally resolved:
                        namespace, nsversion, shared_library, c_prefix, dependencies are the
                        STRINGS ('' when the offset is 0) and <field>_off the stored offsets;
                        blob sizes under their header names (entry_blob_size, ...)
        sections        [{id, offset}] up to and excluding GI_SECTION_END; 'dirindex_offset'
                        in header is the offset of the directory index section or 0
        directory       [{index (1-based), at, blob_type, local, name, name_off, offset,
                          namespace ('' for local entries; for non-local ones the string the
                          offset field points to)}]
        entries         one dict per directory entry, in directory order:
                        non-local: {kind:'xref', index, name, namespace}
                        local:     the decoded blob (see below) + dir_index (and index, except for
                                   function blobs whose own bit-field is called index)
        attributes      [{at, offset, name, value, name_off, value_off}] in table order
        extents         every fixed-size structure met while decoding, as
                        {at, size, what} (deduplicated, sorted by at) — input of the layout
                        invariants (Aligned4 / InBounds / NoOverlap); strings are listed with
                        what='string' and size = len+1
    Blob dicts all carry 'at' (absolute offset), 'kind' and 'name'.  Kinds and fields:
        function  deprecated setter getter constructor wraps_vfunc throws index symbol
                  signature_off is_static is_async sync_or_async finish  signature{...}
        callback  deprecated signature_off signature
        signature {at, return_type, may_return_null, caller_owns_return_value,
                   caller_owns_return_container, skip_return, instance_transfer_ownership,
                   throws, n_arguments, args:[arg]}
        arg       {at, name, in, out, caller_allocates, nullable, optional,
                   transfer_ownership, transfer_container_ownership, return_value, scope,
                   skip, closure, destroy (signed), type}
        struct / boxed   deprecated unregistered is_gtype_struct alignment foreign gtype_name
                  gtype_init size n_fields n_methods copy_func free_func fields[] methods[]
        union     ... discriminated discriminator_offset discriminator_type n_functions
        field     {at, name, readable, writable, has_embedded_type, bits, struct_offset,
                   type (when no embedded type), callback (the interleaved CallbackBlob)}
        enum / flags     deprecated unregistered storage_type gtype_name gtype_init n_values
                  n_methods error_domain values[{at,name,deprecated,unsigned_value,value}]
                  methods[]
        object    deprecated abstract fundamental final gtype_name gtype_init parent
                  gtype_struct n_* ref_func unref_func set_value_func get_value_func
                  interfaces[] (directory indices) fields[] properties[] methods[]
                  signals[] vfuncs[] constants[]
        interface deprecated gtype_name gtype_init gtype_struct n_* prerequisites[]
                  properties[] methods[] signals[] vfuncs[] constants[]
        property  {at,name,deprecated,readable,writable,construct,construct_only,
                   transfer_ownership,transfer_container_ownership,setter,getter,type}
        signal    {at,name,deprecated,run_first,run_last,run_cleanup,no_recurse,detailed,
                   action,no_hooks,has_class_closure,true_stops_emit,class_closure,
                   signature_off,signature}
        vfunc     {at,name,must_chain_up,must_be_implemented,must_not_be_implemented,
                   class_closure,throws,is_async,sync_or_async,signal,struct_offset,invoker,
                   finish,signature_off,signature}
        constant  deprecated type size offset value_hex value (decoded by the type tag:
                  int as decimal STRING, float/double as repr string, utf8/filename as the
                  string, boolean as '0'/'1')
        types     simple: {at, simple:True, tag, pointer}
                  offset: {at, simple:False, offset, tag, pointer, + by tag
                           array:     zero_terminated has_length has_size array_type
                                      dimension elem
                           interface: interface (directory index)
                           glist/gslist/ghash: n_types types[]
                           error:     n_domains}
    flatten_type(t) -> pre-order list of uniform records
        {tag, pointer, simple, zt, hl, hs, at (array_type), dim, iface, n}  (unused = 0/-1)
    attrs_of(decoded, offset) -> [(name, value)] stored for a node offset (table order)
    TAGS / BLOB_KINDS name tables.
"""
import struct

MAGIC = b"GOBJ\nMETADATA\r\n\x1a"

BLOB_KINDS = {0: 'invalid', 1: 'function', 2: 'callback', 3: 'struct', 4: 'boxed', 5: 'enum', 6: 'flags',
              7: 'object', 8: 'interface', 9: 'constant', 10: 'invalid0', 11: 'union'}

# GITypeTag (gitypes.h)
TAGS = ['void', 'gboolean', 'gint8', 'guint8', 'gint16', 'guint16', 'gint32', 'guint32', 'gint64', 'guint64',
        'gfloat', 'gdouble', 'GType', 'utf8', 'filename', 'array', 'interface', 'glist', 'gslist', 'ghash',
        'error', 'gunichar']
T_ARRAY, T_INTERFACE, T_GLIST, T_GSLIST, T_GHASH, T_ERROR = 15, 16, 17, 18, 19, 20


class DecodeError(Exception):
    pass


class _Dec(object):
    def __init__(self, data):
        self.d = data
        self.n = len(data)
        self.ext = {}

    # ---------------------------------------------------------------- primitives
    def need(self, at, size, what):
        if at < 0 or at + size > self.n:
            raise DecodeError('%s at %d (+%d) outside the file (%d bytes)' % (what, at, size, self.n))

    def u8(self, at):
        self.need(at, 1, 'u8')
        return self.d[at]

    def u16(self, at):
        self.need(at, 2, 'u16')
        return struct.unpack_from('<H', self.d, at)[0]

    def u32(self, at):
        self.need(at, 4, 'u32')
        return struct.unpack_from('<I', self.d, at)[0]

    def i32(self, at):
        self.need(at, 4, 'i32')
        return struct.unpack_from('<i', self.d, at)[0]

    def i8(self, at):
        self.need(at, 1, 'i8')
        return struct.unpack_from('<b', self.d, at)[0]

    def string(self, off):
        """g_typelib_get_string: NUL-terminated string at an absolute offset; offset 0 = absent."""
        if off == 0:
            return ''
        self.need(off, 1, 'string')
        end = self.d.find(b'\0', off)
        if end < 0:
            raise DecodeError('unterminated string at %d' % off)
        self.extent(off, end - off + 1, 'string')
        return self.d[off:end].decode('utf-8', 'surrogateescape')

    def extent(self, at, size, what):
        k = (at, size, what)
        self.ext[k] = True

    def rec(self, at, what, fields):
        """Decode one C struct.  fields: list of (name, spec) in declaration order where spec is
        'u8' 'i8' 'u16' 'u32' 'i32', or ('bits', storage_width_bytes, [(name, nbits), ...]).
        Returns (dict, size)."""
        out = {'at': at}
        pos = at
        for name, spec in fields:
            if isinstance(spec, tuple):
                _, width, bits = spec
                word = {1: self.u8, 2: self.u16, 4: self.u32}[width](pos)
                shift = 0
                for bname, nb in bits:
                    if bname is not None:
                        out[bname] = (word >> shift) & ((1 << nb) - 1)
                    shift += nb
                assert shift == 8 * width, (what, name, shift)
                pos += width
            else:
                w = {'u8': 1, 'i8': 1, 'u16': 2, 'u32': 4, 'i32': 4}[spec]
                v = getattr(self, spec)(pos)
                if name is not None:
                    out[name] = v
                pos += w
        self.extent(at, pos - at, what)
        return out, pos - at

    # ---------------------------------------------------------------- types
    def simple_type(self, at):
        """SimpleTypeBlob: union of SimpleTypeBlobFlags {reserved:8 reserved2:16 pointer:1 reserved3:2 tag:5}
        and guint32 offset.  'if "reserved" and "reserved2" are both zero, the type tag for a basic type is
        embedded in the "tag" bits', otherwise the 32 bits are an offset to a type blob."""
        raw = self.u32(at)
        if raw & 0x00ffffff == 0:
            return {'at': at, 'simple': True, 'tag': (raw >> 27) & 0x1f, 'pointer': (raw >> 24) & 1}
        return self.type_blob(at, raw)

    def type_blob(self, at, off):
        # all offset type blobs start with  pointer:1 reserved:2 tag:5  in their first byte
        b0 = self.u8(off)
        tag = (b0 >> 3) & 0x1f
        t = {'at': at, 'simple': False, 'offset': off, 'tag': tag, 'pointer': b0 & 1}
        if tag == T_ARRAY:
            r, size = self.rec(off, 'ArrayTypeBlob', [
                ('f', ('bits', 2, [('pointer', 1), (None, 2), ('tag', 5), ('zero_terminated', 1), ('has_length', 1),
                                   ('has_size', 1), ('array_type', 2), (None, 3)])),
                ('dimension', 'u16'), (None, 'u32')])
            for k in ('zero_terminated', 'has_length', 'has_size', 'array_type', 'dimension'):
                t[k] = r[k]
            t['elem'] = self.simple_type(off + 4)
        elif tag == T_INTERFACE:
            r, size = self.rec(off, 'InterfaceTypeBlob', [
                ('f', ('bits', 1, [('pointer', 1), (None, 2), ('tag', 5)])), (None, 'u8'), ('interface', 'u16')])
            t['interface'] = r['interface']
        elif tag in (T_GLIST, T_GSLIST, T_GHASH):
            r, size = self.rec(off, 'ParamTypeBlob', [
                ('f', ('bits', 1, [('pointer', 1), (None, 2), ('tag', 5)])), (None, 'u8'), ('n_types', 'u16')])
            t['n_types'] = r['n_types']
            if r['n_types'] > 16:
                raise DecodeError('ParamTypeBlob at %d with %d types' % (off, r['n_types']))
            t['types'] = []
            for i in range(r['n_types']):
                self.extent(off + 4 + 4 * i, 4, 'ParamTypeBlob.type')
                t['types'].append(self.simple_type(off + 4 + 4 * i))
        elif tag == T_ERROR:
            r, size = self.rec(off, 'ErrorTypeBlob', [
                ('f', ('bits', 1, [('pointer', 1), (None, 2), ('tag', 5)])), (None, 'u8'), ('n_domains', 'u16')])
            t['n_domains'] = r['n_domains']
        else:
            raise DecodeError('type blob at %d (referenced from %d) has non-complex tag %d' % (off, at, tag))
        return t

    # ---------------------------------------------------------------- signature
    def arg(self, at):
        r, size = self.rec(at, 'ArgBlob', [
            ('name_off', 'u32'),
            ('f', ('bits', 4, [('in', 1), ('out', 1), ('caller_allocates', 1), ('nullable', 1), ('optional', 1),
                               ('transfer_ownership', 1), ('transfer_container_ownership', 1), ('return_value', 1),
                               ('scope', 3), ('skip', 1), (None, 20)])),
            ('closure', 'i8'), ('destroy', 'i8'), (None, 'u16'), (None, 'u32')])
        if size != self.h['arg_blob_size']:
            raise DecodeError('ArgBlob size %d != header %d' % (size, self.h['arg_blob_size']))
        r['name'] = self.string(r['name_off'])
        r['type'] = self.simple_type(at + 12)
        return r

    def signature(self, at):
        r, size = self.rec(at, 'SignatureBlob', [
            (None, 'u32'),
            ('f', ('bits', 2, [('may_return_null', 1), ('caller_owns_return_value', 1), ('caller_owns_return_container', 1),
                               ('skip_return', 1), ('instance_transfer_ownership', 1), ('throws', 1), (None, 10)])),
            ('n_arguments', 'u16')])
        r['return_type'] = self.simple_type(at)
        r['args'] = [self.arg(at + size + i * self.h['arg_blob_size']) for i in range(r['n_arguments'])]
        return r

    # ---------------------------------------------------------------- member blobs
    def function(self, at):
        r, size = self.rec(at, 'FunctionBlob', [
            ('blob_type', 'u16'),
            ('f', ('bits', 2, [('deprecated', 1), ('setter', 1), ('getter', 1), ('constructor', 1), ('wraps_vfunc', 1),
                               ('throws', 1), ('index', 10)])),
            ('name_off', 'u32'), ('symbol_off', 'u32'), ('signature_off', 'u32'),
            ('g', ('bits', 2, [('is_static', 1), ('is_async', 1), ('sync_or_async', 10), (None, 4)])),
            ('h', ('bits', 2, [('finish', 10), (None, 6)]))])
        r['kind'] = 'function'
        r['name'] = self.string(r['name_off'])
        r['symbol'] = self.string(r['symbol_off'])
        if r['blob_type'] != 1:
            raise DecodeError('FunctionBlob at %d has blob_type %d' % (at, r['blob_type']))
        r['signature'] = self.signature(r['signature_off'])
        return r, size

    def callback(self, at):
        r, size = self.rec(at, 'CallbackBlob', [
            ('blob_type', 'u16'), ('f', ('bits', 2, [('deprecated', 1), (None, 15)])),
            ('name_off', 'u32'), ('signature_off', 'u32')])
        r['kind'] = 'callback'
        r['name'] = self.string(r['name_off'])
        if r['blob_type'] != 2:
            raise DecodeError('CallbackBlob at %d has blob_type %d' % (at, r['blob_type']))
        r['signature'] = self.signature(r['signature_off'])
        return r, size

    def field(self, at):
        r, size = self.rec(at, 'FieldBlob', [
            ('name_off', 'u32'),
            ('f', ('bits', 1, [('readable', 1), ('writable', 1), ('has_embedded_type', 1), (None, 5)])),
            ('bits', 'u8'), ('struct_offset', 'u16'), (None, 'u32'), (None, 'u32')])
        r['kind'] = 'field'
        r['name'] = self.string(r['name_off'])
        if r['has_embedded_type']:
            # "An anonymous type follows the FieldBlob."
            r['callback'], csize = self.callback(at + size)
            r['type_raw'] = self.u32(at + 12)
            size += csize
        else:
            r['type'] = self.simple_type(at + 12)
        return r, size

    def prop(self, at):
        r, size = self.rec(at, 'PropertyBlob', [
            ('name_off', 'u32'),
            ('f', ('bits', 4, [('deprecated', 1), ('readable', 1), ('writable', 1), ('construct', 1), ('construct_only', 1),
                               ('transfer_ownership', 1), ('transfer_container_ownership', 1), ('setter', 10),
                               ('getter', 10), (None, 5)])),
            (None, 'u32'), (None, 'u32')])
        r['kind'] = 'property'
        r['name'] = self.string(r['name_off'])
        r['type'] = self.simple_type(at + 12)
        return r, size

    def signal(self, at):
        r, size = self.rec(at, 'SignalBlob', [
            ('f', ('bits', 2, [('deprecated', 1), ('run_first', 1), ('run_last', 1), ('run_cleanup', 1), ('no_recurse', 1),
                               ('detailed', 1), ('action', 1), ('no_hooks', 1), ('has_class_closure', 1),
                               ('true_stops_emit', 1), (None, 6)])),
            ('class_closure', 'u16'), ('name_off', 'u32'), (None, 'u32'), ('signature_off', 'u32')])
        r['kind'] = 'signal'
        r['name'] = self.string(r['name_off'])
        r['signature'] = self.signature(r['signature_off'])
        return r, size

    def vfunc(self, at):
        r, size = self.rec(at, 'VFuncBlob', [
            ('name_off', 'u32'),
            ('f', ('bits', 2, [('must_chain_up', 1), ('must_be_implemented', 1), ('must_not_be_implemented', 1),
                               ('class_closure', 1), ('throws', 1), ('is_async', 1), ('sync_or_async', 10)])),
            ('signal', 'u16'), ('struct_offset', 'u16'),
            ('g', ('bits', 2, [('invoker', 10), (None, 6)])),
            ('h', ('bits', 2, [('finish', 10), (None, 6)])), (None, 'u16'),
            ('signature_off', 'u32')])
        r['kind'] = 'vfunc'
        r['name'] = self.string(r['name_off'])
        r['signature'] = self.signature(r['signature_off'])
        return r, size

    def value(self, at):
        r, size = self.rec(at, 'ValueBlob', [
            ('f', ('bits', 4, [('deprecated', 1), ('unsigned_value', 1), (None, 30)])),
            ('name_off', 'u32'), ('value', 'i32')])
        r['kind'] = 'value'
        r['name'] = self.string(r['name_off'])
        return r, size

    def constant(self, at):
        r, size = self.rec(at, 'ConstantBlob', [
            ('blob_type', 'u16'), ('f', ('bits', 2, [('deprecated', 1), (None, 15)])),
            ('name_off', 'u32'), (None, 'u32'), ('size', 'u32'), ('offset', 'u32'), (None, 'u32')])
        r['kind'] = 'constant'
        r['name'] = self.string(r['name_off'])
        if r['blob_type'] != 9:
            raise DecodeError('ConstantBlob at %d has blob_type %d' % (at, r['blob_type']))
        r['type'] = self.simple_type(at + 8)
        self.need(r['offset'], r['size'], 'constant value')
        raw = bytes(self.d[r['offset']:r['offset'] + r['size']])
        self.extent(r['offset'], r['size'], 'constant-value')
        r['value_hex'] = raw.hex()
        r['value'] = self._const_value(r['type'], raw)
        return r, size

    @staticmethod
    def _const_value(t, raw):
        if not t['simple']:
            return ''
        tag = TAGS[t['tag']] if t['tag'] < len(TAGS) else '?'
        fmt = {'gint8': '<b', 'guint8': '<B', 'gint16': '<h', 'guint16': '<H', 'gint32': '<i', 'guint32': '<I',
               'gint64': '<q', 'guint64': '<Q', 'gboolean': '<i', 'gunichar': '<I'}.get(tag)
        try:
            if fmt:
                return str(struct.unpack(fmt, raw)[0])
            if tag == 'gfloat':
                return repr(struct.unpack('<f', raw)[0])
            if tag == 'gdouble':
                return repr(struct.unpack('<d', raw)[0])
            if tag in ('utf8', 'filename'):
                return raw[:-1].decode('utf-8', 'surrogateescape') if raw.endswith(b'\0') else raw.decode('utf-8', 'surrogateescape')
        except struct.error:
            return ''
        return ''

    # ---------------------------------------------------------------- entry blobs
    def _members(self, at, n, fn):
        out = []
        for _ in range(n):
            r, size = fn(at)
            out.append(r)
            at += size
        return out, at

    def struct(self, at):
        r, size = self.rec(at, 'StructBlob', [
            ('blob_type', 'u16'),
            ('f', ('bits', 2, [('deprecated', 1), ('unregistered', 1), ('is_gtype_struct', 1), ('alignment', 6),
                               ('foreign', 1), (None, 6)])),
            ('name_off', 'u32'), ('gtype_name_off', 'u32'), ('gtype_init_off', 'u32'), ('size', 'u32'),
            ('n_fields', 'u16'), ('n_methods', 'u16'), ('copy_func_off', 'u32'), ('free_func_off', 'u32')])
        self._strs(r, 'name', 'gtype_name', 'gtype_init', 'copy_func', 'free_func')
        r['kind'] = BLOB_KINDS.get(r['blob_type'], '?')
        pos = at + size
        r['fields'], pos = self._members(pos, r['n_fields'], self.field)
        r['methods'], pos = self._members(pos, r['n_methods'], self.function)
        r['end'] = pos
        return r

    def union(self, at):
        r, size = self.rec(at, 'UnionBlob', [
            ('blob_type', 'u16'),
            ('f', ('bits', 2, [('deprecated', 1), ('unregistered', 1), ('discriminated', 1), ('alignment', 6), (None, 7)])),
            ('name_off', 'u32'), ('gtype_name_off', 'u32'), ('gtype_init_off', 'u32'), ('size', 'u32'),
            ('n_fields', 'u16'), ('n_functions', 'u16'), ('copy_func_off', 'u32'), ('free_func_off', 'u32'),
            ('discriminator_offset', 'i32'), ('discriminator_type_raw', 'u32')])
        self._strs(r, 'name', 'gtype_name', 'gtype_init', 'copy_func', 'free_func')
        r['kind'] = 'union'
        r['n_methods'] = r['n_functions']
        pos = at + size
        r['fields'], pos = self._members(pos, r['n_fields'], self.field)
        r['methods'], pos = self._members(pos, r['n_functions'], self.function)
        if r['discriminated']:
            r['discriminator_type'] = self.simple_type(at + 36)
        r['end'] = pos
        return r

    def enum(self, at):
        r, size = self.rec(at, 'EnumBlob', [
            ('blob_type', 'u16'),
            ('f', ('bits', 2, [('deprecated', 1), ('unregistered', 1), ('storage_type', 5), (None, 9)])),
            ('name_off', 'u32'), ('gtype_name_off', 'u32'), ('gtype_init_off', 'u32'),
            ('n_values', 'u16'), ('n_methods', 'u16'), ('error_domain_off', 'u32')])
        self._strs(r, 'name', 'gtype_name', 'gtype_init', 'error_domain')
        r['kind'] = BLOB_KINDS.get(r['blob_type'], '?')
        pos = at + size
        r['values'], pos = self._members(pos, r['n_values'], self.value)
        r['methods'], pos = self._members(pos, r['n_methods'], self.function)
        r['end'] = pos
        return r

    def _u16_array(self, at, n, what):
        out = [self.u16(at + 2 * i) for i in range(n)]
        # "Up to 16bits of padding may be inserted between the arrays to ensure that they start on a 32bit boundary."
        size = 2 * (n + n % 2)
        if size:
            self.extent(at, size, what)
        return out, at + size

    def object(self, at):
        r, size = self.rec(at, 'ObjectBlob', [
            ('blob_type', 'u16'),
            ('f', ('bits', 2, [('deprecated', 1), ('abstract', 1), ('fundamental', 1), ('final', 1), (None, 12)])),
            ('name_off', 'u32'), ('gtype_name_off', 'u32'), ('gtype_init_off', 'u32'),
            ('parent', 'u16'), ('gtype_struct', 'u16'),
            ('n_interfaces', 'u16'), ('n_fields', 'u16'), ('n_properties', 'u16'), ('n_methods', 'u16'),
            ('n_signals', 'u16'), ('n_vfuncs', 'u16'), ('n_constants', 'u16'), ('n_field_callbacks', 'u16'),
            ('ref_func_off', 'u32'), ('unref_func_off', 'u32'), ('set_value_func_off', 'u32'), ('get_value_func_off', 'u32'),
            (None, 'u32'), (None, 'u32')])
        self._strs(r, 'name', 'gtype_name', 'gtype_init', 'ref_func', 'unref_func', 'set_value_func', 'get_value_func')
        r['kind'] = 'object'
        pos = at + size
        r['interfaces'], pos = self._u16_array(pos, r['n_interfaces'], 'ObjectBlob.interfaces')
        r['fields_at'] = pos
        r['fields'], pos = self._members(pos, r['n_fields'], self.field)
        r['properties_at'] = pos
        r['properties'], pos = self._members(pos, r['n_properties'], self.prop)
        r['methods_at'] = pos
        r['methods'], pos = self._members(pos, r['n_methods'], self.function)
        r['signals_at'] = pos
        r['signals'], pos = self._members(pos, r['n_signals'], self.signal)
        r['vfuncs_at'] = pos
        r['vfuncs'], pos = self._members(pos, r['n_vfuncs'], self.vfunc)
        r['constants_at'] = pos
        r['constants'], pos = self._members(pos, r['n_constants'], self.constant)
        r['end'] = pos
        return r

    def interface(self, at):
        r, size = self.rec(at, 'InterfaceBlob', [
            ('blob_type', 'u16'), ('f', ('bits', 2, [('deprecated', 1), (None, 15)])),
            ('name_off', 'u32'), ('gtype_name_off', 'u32'), ('gtype_init_off', 'u32'), ('gtype_struct', 'u16'),
            ('n_prerequisites', 'u16'), ('n_properties', 'u16'), ('n_methods', 'u16'), ('n_signals', 'u16'),
            ('n_vfuncs', 'u16'), ('n_constants', 'u16'), (None, 'u16'), (None, 'u32'), (None, 'u32')])
        self._strs(r, 'name', 'gtype_name', 'gtype_init')
        r['kind'] = 'interface'
        pos = at + size
        r['prerequisites'], pos = self._u16_array(pos, r['n_prerequisites'], 'InterfaceBlob.prerequisites')
        r['properties_at'] = pos
        r['properties'], pos = self._members(pos, r['n_properties'], self.prop)
        r['methods_at'] = pos
        r['methods'], pos = self._members(pos, r['n_methods'], self.function)
        r['signals_at'] = pos
        r['signals'], pos = self._members(pos, r['n_signals'], self.signal)
        r['vfuncs_at'] = pos
        r['vfuncs'], pos = self._members(pos, r['n_vfuncs'], self.vfunc)
        r['constants_at'] = pos
        r['constants'], pos = self._members(pos, r['n_constants'], self.constant)
        r['end'] = pos
        return r

    def _strs(self, r, *names):
        for n in names:
            r[n] = self.string(r[n + '_off'])

    # ---------------------------------------------------------------- file
    def header(self):
        if self.n < 112:
            raise DecodeError('file shorter than the header (%d bytes)' % self.n)
        if bytes(self.d[:16]) != MAGIC:
            raise DecodeError('bad magic')
        h, size = self.rec(0, 'Header', [
            (None, 'u32'), (None, 'u32'), (None, 'u32'), (None, 'u32'),      # magic[16]
            ('major_version', 'u8'), ('minor_version', 'u8'), ('reserved', 'u16'),
            ('n_entries', 'u16'), ('n_local_entries', 'u16'), ('directory', 'u32'), ('n_attributes', 'u32'),
            ('attributes', 'u32'), ('dependencies_off', 'u32'), ('size', 'u32'), ('namespace_off', 'u32'),
            ('nsversion_off', 'u32'), ('shared_library_off', 'u32'), ('c_prefix_off', 'u32'),
            ('entry_blob_size', 'u16'), ('function_blob_size', 'u16'), ('callback_blob_size', 'u16'),
            ('signal_blob_size', 'u16'), ('vfunc_blob_size', 'u16'), ('arg_blob_size', 'u16'),
            ('property_blob_size', 'u16'), ('field_blob_size', 'u16'), ('value_blob_size', 'u16'),
            ('attribute_blob_size', 'u16'), ('constant_blob_size', 'u16'), ('error_domain_blob_size', 'u16'),
            ('signature_blob_size', 'u16'), ('enum_blob_size', 'u16'), ('struct_blob_size', 'u16'),
            ('object_blob_size', 'u16'), ('interface_blob_size', 'u16'), ('union_blob_size', 'u16'),
            ('sections', 'u32'),
            (None, 'u16'), (None, 'u16'), (None, 'u16'), (None, 'u16'), (None, 'u16'), (None, 'u16')])
        assert size == 112
        h['header_size'] = size
        self.h = h
        for n in ('dependencies', 'namespace', 'nsversion', 'shared_library', 'c_prefix'):
            h[n] = self.string(h[n + '_off'])
        return h

    def decode(self):
        h = self.header()
        out = {'size': self.n, 'header': h}
        # sections: array of Section {id, offset} terminated by GI_SECTION_END
        secs = []
        h['dirindex_offset'] = 0
        if h['sections']:
            pos = h['sections']
            while True:
                s, size = self.rec(pos, 'Section', [('id', 'u32'), ('offset', 'u32')])
                if s['id'] == 0:
                    break
                secs.append(s)
                if s['id'] == 1:
                    h['dirindex_offset'] = s['offset']
                pos += size
                if len(secs) > 64:
                    raise DecodeError('unterminated section table')
        out['sections'] = secs
        # directory
        directory, entries = [], []
        for i in range(h['n_entries']):
            at = h['directory'] + i * h['entry_blob_size']
            e, size = self.rec(at, 'DirEntry', [
                ('blob_type', 'u16'), ('f', ('bits', 2, [('local', 1), (None, 15)])), ('name_off', 'u32'), ('offset', 'u32')])
            e['index'] = i + 1
            e['name'] = self.string(e['name_off'])
            e['namespace'] = '' if e['local'] else self.string(e['offset'])
            directory.append(e)
        out['directory'] = directory
        for e in directory:
            if not e['local']:
                entries.append({'kind': 'xref', 'index': e['index'], 'name': e['name'], 'namespace': e['namespace'], 'at': 0})
                continue
            bt = e['blob_type']
            at = e['offset']
            if bt == 1:
                b, _ = self.function(at)
            elif bt == 2:
                b, _ = self.callback(at)
            elif bt in (3, 4):
                b = self.struct(at)
            elif bt in (5, 6):
                b = self.enum(at)
            elif bt == 7:
                b = self.object(at)
            elif bt == 8:
                b = self.interface(at)
            elif bt == 9:
                b, _ = self.constant(at)
            elif bt == 11:
                b = self.union(at)
            else:
                raise DecodeError('directory entry %d has blob type %d' % (e['index'], bt))
            if b.get('blob_type') != bt:
                raise DecodeError('directory entry %d says blob type %d, blob at %d says %s' % (e['index'], bt, at, b.get('blob_type')))
            b['dir_index'] = e['index']
            if bt != 1:                 # a FunctionBlob has a bit-field called index of its own: keep it
                b['index'] = e['index']
            entries.append(b)
        out['entries'] = entries
        # attributes
        attrs = []
        for i in range(h['n_attributes']):
            at = h['attributes'] + i * h['attribute_blob_size']
            a, size = self.rec(at, 'AttributeBlob', [('offset', 'u32'), ('name_off', 'u32'), ('value_off', 'u32')])
            a['name'] = self.string(a['name_off'])
            a['value'] = self.string(a['value_off'])
            attrs.append(a)
        out['attributes'] = attrs
        out['extents'] = [dict(at=a, size=s, what=w) for (a, s, w) in sorted(self.ext)]
        return out


def decode(path_or_bytes):
    if isinstance(path_or_bytes, (bytes, bytearray, memoryview)):
        data = bytes(path_or_bytes)
    else:
        with open(path_or_bytes, 'rb') as f:
            data = f.read()
    return _Dec(data).decode()


def flatten_type(t):
    """Pre-order list of uniform records; children: array -> elem, glist/gslist/ghash -> types."""
    node = dict(tag=t['tag'], pointer=t['pointer'], simple=1 if t['simple'] else 0, zt=0, hl=0, hs=0, at=0, dim=-1, iface=0, n=0)
    out = [node]
    if t['simple']:
        return out
    if t['tag'] == T_ARRAY:
        node.update(zt=t['zero_terminated'], hl=t['has_length'], hs=t['has_size'], at=t['array_type'], dim=t['dimension'], n=1)
        out += flatten_type(t['elem'])
    elif t['tag'] == T_INTERFACE:
        node.update(iface=t['interface'])
    elif t['tag'] in (T_GLIST, T_GSLIST, T_GHASH):
        node.update(n=t['n_types'])
        for c in t['types']:
            out += flatten_type(c)
    elif t['tag'] == T_ERROR:
        node.update(n=t['n_domains'])
    return out


def attrs_of(dec, offset):
    return [(a['name'], a['value']) for a in dec['attributes'] if a['offset'] == offset]


def walk_blobs(dec):
    """Yield (path, blob) for every blob of a decoded typelib (entries and members, depth first)."""
    def rec(path, b):
        yield path, b
        for sec in ('fields', 'properties', 'methods', 'signals', 'vfuncs', 'constants', 'values'):
            for i, m in enumerate(b.get(sec, ())):
                for x in rec(path + [(sec, i)], m):
                    yield x
        if 'callback' in b:
            for x in rec(path + [('callback', 0)], b['callback']):
                yield x
    for e in dec['entries']:
        for x in rec([e.get('dir_index', e.get('index'))], e):
            yield x


if __name__ == '__main__':
    import sys, json
    d = decode(sys.argv[1])
    if len(sys.argv) > 2:
        print(json.dumps(d, indent=1))
    else:
        h = d['header']
        print('%s-%s: %d bytes, %d entries (%d local), %d attributes, deps=%r shlib=%r' % (
            h['namespace'], h['nsversion'], d['size'], h['n_entries'], h['n_local_entries'], h['n_attributes'],
            h['dependencies'], h['shared_library']))

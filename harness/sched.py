"""Deterministic scheduler for the REAL giscanner.cachestore.CacheStore / Transformer._parse_include.

Each modelled process is a Python thread that runs, unmodified, the code from /repo:

    tr = Transformer(namespace)        # CacheStore() -> _check_cache_version()
    tr._parse_include(dep_gir)         # load() -> [GIRParser.parse() -> store()]

The module-level names `os`, `open`, `shutil`, `tempfile`, `pickle` of giscanner.cachestore and
`GIRParser` of giscanner.transformer are replaced by proxies.  A proxy blocks before each
file-system primitive until the controller grants the step, performs the real operation on a real
directory, and logs one event (action name of tla/Cache.tla + observed results).  Exactly one
thread runs at a time, so a schedule (sequence of process ids / environment actions) determines the
execution.  mtimes are set with os.utime to the model's logical clock so the code's own
comparisons run on real stat() results.
"""
import errno, io, os, pickle, shutil, tempfile, threading, hashlib, builtins

from . import gistub

gistub.install(disable_cache=False)
from giscanner import cachestore as CS          # noqa: E402
from giscanner import transformer as TR         # noqa: E402
from giscanner import ast as AST                # noqa: E402

_real_os = os
_real_open = builtins.open
_tls = threading.local()


class Killed(BaseException):
    pass


class FakeParsed(object):
    """What GIRParser would return: opaque to the cache; carries the source version it was parsed from."""

    def __init__(self, version, payload):
        self.version = version
        self.payload = payload
        self._ns = AST.Namespace('Dep', '1.0')

    def get_namespace(self):
        return self._ns


class World(object):
    def __init__(self, root, svers, coarse=False):
        self.root = root
        self.cachehome = os.path.join(root, 'cache')
        self.cdir = os.path.join(self.cachehome, 'g-ir-scanner')
        self.tmpdir = os.path.join(root, 'tmp')
        self.grave = os.path.join(root, 'grave')
        for d in (self.cdir, self.tmpdir, self.grave):
            os.makedirs(d)
        self.src = os.path.join(root, 'Dep-1.0.gir')
        self.entry = os.path.join(self.cdir, hashlib.sha1(self.src.encode('utf-8')).hexdigest())
        self.stampfile = os.path.join(self.cdir, '.cache-version')
        self.svers = svers            # {p: 1|2}
        self.coarse = coarse
        self.clock = 1
        self.srcVer = 1
        self.events = []
        self.inos = {}                # real st_ino -> model inode index
        self.results = {}             # p -> list of API-level records
        self.lock = threading.Lock()
        self.back = threading.Semaphore(0)
        self.procs = {}
        self.advance_next = True      # coarse clock: does the next stamping step advance the clock?
        self.puts = 0
        self.stamp_from = 0           # purge obligation (checked_at) of the process that wrote the current stamp
        self.put_at = {}              # inode index -> sequence number of its installation under the entry name
        self.stamp_stale = {}         # inode index -> True if an mtime was stamped on superseded content
        self._write_src()
        os.utime(self.src, (0, 0))
        self.hash = {}
        for v in (1, 2):
            self.hash[v] = self._versionhash(v)
        with _real_open(self.stampfile, 'w') as f:
            f.write(self.hash[1])

    # ---- ground truth helpers (harness side, real os)
    def _write_src(self):
        with _real_open(self.src, 'w') as f:
            f.write('<repository version="%d"/>' % self.srcVer)

    def _versionhash(self, v):
        _tls.ver = v
        _tls.p = None
        return CS._get_versionhash()

    def ino_of(self, path=None, fd=None, create=False):
        try:
            st = os.fstat(fd) if fd is not None else os.stat(path)
        except OSError:
            return 0
        i = self.inos.get(st.st_ino)
        if i is None:
            i = len(self.inos) + 1
            self.inos[st.st_ino] = i
            # keep the inode alive (and its number unrecycled) for the whole run
            if path is not None:
                os.link(path, os.path.join(self.grave, str(i)))
        return i

    def content_of(self, ino_index):
        """(st, ver) of an inode, by reading it through the graveyard link."""
        path = os.path.join(self.grave, str(ino_index))
        with _real_open(path, 'rb') as f:
            data = f.read()
        if not data:
            return ('empty', 0)
        try:
            obj = pickle.loads(data)
            return ('complete', obj.version)
        except Exception:
            return ('partial', 0)

    def stamp_time(self):
        """timestamp for an mtime-producing step; then the clock advances (fine) or may not (coarse)."""
        tstamp = self.clock
        if (not self.coarse) or self.advance_next:
            self.clock += 1
        return tstamp

    def log(self, p, act, **kw):
        ev = dict(p=p, act=act, ino=0, mtime=0, ver=0, ok=False, k='-', clock=self.clock)
        ev.update(kw)
        ev['clock'] = self.clock
        self.events.append(ev)

    def note_stamp(self, ino_index):
        """ground truth for the API-level spec: was an mtime >= the source's stamped on content that
        was already superseded?"""
        if not ino_index:
            return
        st, ver = self.content_of(ino_index)
        mt = int(os.stat(os.path.join(self.grave, str(ino_index))).st_mtime)
        if st == 'complete' and ver < self.srcVer and mt >= int(os.stat(self.src).st_mtime):
            self.stamp_stale[ino_index] = True

    # ---- environment actions
    def edit_src(self):
        self.srcVer += 1
        self._write_src()
        tstamp = self.stamp_time()
        os.utime(self.src, (tstamp, tstamp))
        self.log(0, 'EditSrc', ver=self.srcVer, mtime=tstamp)


class Proc(threading.Thread):
    def __init__(self, world, p):
        threading.Thread.__init__(self, daemon=True)
        self.w = world
        self.p = p
        self.go = threading.Semaphore(0)
        self.pending = 'start'
        self.finished = False
        self.killed = False
        self.error = None
        self.choice = None            # controller's branch choice for shutil.move: 'rename' | 'copy'
        self.phase = None             # 'init' | 'load' | 'store'
        self.api = []
        self.skip_next_yield = False
        self.crashed = False
        self.read_ino = 0
        self.tmpname = None
        self.stat_mtime = -1
        self.srcstat_mtime = -1
        self.must_purge = False
        self.checked_at = 0

    # called from the thread itself
    def yield_(self, kind):
        if self.skip_next_yield:          # the initial grant covers the first primitive
            self.skip_next_yield = False
            self.pending = kind
            return
        self.pending = kind
        self.w.back.release()
        self.go.acquire()
        if self.killed:
            raise Killed()

    def run(self):
        _tls.p = self
        _tls.ver = self.w.svers[self.p]
        try:
            self.yield_('CvRead')          # nothing happens before the first primitive
            self.skip_next_yield = True
            ns = AST.Namespace('Foo', '1.0')
            self.phase = 'init'
            tr = TR.Transformer(ns)
            tr._parse_include(self.w.src)
        except Killed:
            pass
        except BaseException as e:         # noqa
            self.error = e
        finally:
            self.finished = True
            self.pending = None
            self.w.back.release()


def cur():
    return getattr(_tls, 'p', None)


# ------------------------------------------------------------------ proxies
class OSProxy(object):
    """stands for the name `os` inside giscanner.cachestore"""
    path = os.path
    environ = os.environ

    def __getattr__(self, n):
        return getattr(_real_os, n)

    def stat(self, path, *a, **k):
        pr = cur()
        if isinstance(path, str) and path.endswith('.py') or (pr is None and not isinstance(path, int)):
            # _get_versionhash(): scanner sources; the "scanner version" of a process is simulated by
            # shifting the mtimes it sees (so the real hashing code runs)
            st = _real_os.stat(path, *a, **k)
            ver = getattr(_tls, 'ver', 1)
            return _real_os.stat_result((st.st_mode, st.st_ino, st.st_dev, st.st_nlink, st.st_uid, st.st_gid,
                                         st.st_size, 1000 + ver, 1000 + ver, 1000 + ver))
        if pr is None:
            return _real_os.stat(path, *a, **k)
        w = pr.w
        if path == w.entry:
            act = 'LStat' if pr.phase == 'load' else 'SStat'
            pr.yield_(act)
            try:
                st = _real_os.stat(path)
            except FileNotFoundError:
                w.log(pr.p, act, ino=0, ok=False)
                raise
            w.log(pr.p, act, ino=w.ino_of(path), mtime=int(st.st_mtime), ok=True)
            if pr.phase == 'load':
                pr.stat_mtime = int(st.st_mtime)
            return st
        if path == w.src:
            act = 'LStatSrc' if pr.phase == 'load' else 'SStatSrc'
            pr.yield_(act)
            st = _real_os.stat(path)
            w.log(pr.p, act, mtime=int(st.st_mtime))
            if pr.phase == 'load':
                pr.srcstat_mtime = int(st.st_mtime)
            return st
        return _real_os.stat(path, *a, **k)

    def fstat(self, fd):
        pr = cur()
        if pr is None or pr.phase != 'load':
            return _real_os.fstat(fd)
        pr.yield_('LStat')
        st = _real_os.fstat(fd)
        pr.w.log(pr.p, 'LStat', ino=pr.w.ino_of(fd=fd), mtime=int(st.st_mtime), ok=True)
        pr.stat_mtime = int(st.st_mtime)
        return st

    def listdir(self, d):
        pr = cur()
        if pr is None:
            return _real_os.listdir(d)
        pr.yield_('CvList')
        names = _real_os.listdir(d)
        pr.w.log(pr.p, 'CvList', ok=os.path.basename(pr.w.entry) in names)
        return names

    def unlink(self, path):
        pr = cur()
        if pr is None or path != pr.w.entry:
            return _real_os.unlink(path)
        act = 'CvUnlink' if pr.phase == 'init' else 'LUnlink'
        pr.yield_(act)
        try:
            _real_os.unlink(path)
        finally:
            pr.w.log(pr.p, act)

    def fdopen(self, fd, *a, **k):
        return _real_os.fdopen(fd, *a, **k)


def proxy_open(path, mode='r', *a, **k):
    pr = cur()
    if pr is None:
        return _real_open(path, mode, *a, **k)
    w = pr.w
    if path == w.stampfile and 'r' in mode:
        pr.yield_('CvRead')
        try:
            f = _real_open(path, mode, *a, **k)
        except FileNotFoundError:
            w.log(pr.p, 'CvRead', ver=0)
            pr.must_purge = True
            pr.checked_at = w.puts + 1
            raise
        content = _real_open(path, 'r').read()
        ver = [v for v, h in w.hash.items() if h == content]
        w.log(pr.p, 'CvRead', ver=ver[0] if ver else 99)
        if content != w.hash[w.svers[pr.p]]:
            pr.must_purge = True
            pr.checked_at = w.puts + 1
        else:
            # the stamp says "entries of other scanner versions are gone": this process relies on the
            # purge of whoever wrote it and inherits that process's obligation (tla/Cache.tla CvRead)
            pr.checked_at = w.stamp_from
        return f
    if path == w.entry and 'r' in mode:
        pr.phase = 'load'
        pr.yield_('LOpen')
        try:
            f = _real_open(path, mode, *a, **k)
        except FileNotFoundError:
            w.log(pr.p, 'LOpen', ino=0)
            raise
        w.log(pr.p, 'LOpen', ino=w.ino_of(fd=f.fileno()))
        return f
    return _real_open(path, mode, *a, **k)


class TempfileProxy(object):
    def __getattr__(self, n):
        return getattr(tempfile, n)

    def mkstemp(self, prefix=None, **k):
        pr = cur()
        if pr is None:
            return tempfile.mkstemp(prefix=prefix, **k)
        w = pr.w
        if prefix and 'version' in prefix:
            return tempfile.mkstemp(prefix=prefix, dir=w.tmpdir)
        pr.yield_('SMkstemp')
        fd, name = tempfile.mkstemp(prefix=prefix, dir=w.tmpdir)
        i = w.ino_of(name)
        _real_os.utime(name, (w.clock, w.clock))
        pr.tmpname = name
        w.log(pr.p, 'SMkstemp', ino=i)
        return fd, name


class PickleProxy(object):
    def __getattr__(self, n):
        return getattr(pickle, n)

    def load(self, f):
        pr = cur()
        if pr is None:
            return pickle.load(f)
        pr.yield_('LRead')
        w = pr.w
        try:
            data = pickle.load(f)
        except BaseException:
            w.log(pr.p, 'LRead', ok=False, ino=w.ino_of(fd=f.fileno()))
            raise
        i = w.ino_of(fd=f.fileno())
        pr.read_ino = i
        w.log(pr.p, 'LRead', ok=True, ver=getattr(data, 'version', -1), ino=i)
        return data

    def dump(self, data, f, *a, **k):
        pr = cur()
        if pr is None:
            return pickle.dump(data, f, *a, **k)
        pr.yield_('SWrite')
        w = pr.w
        pickle.dump(data, f, *a, **k)
        f.flush()
        tstamp = w.stamp_time()
        _real_os.utime(f.fileno(), (tstamp, tstamp))
        w.note_stamp(w.ino_of(fd=f.fileno()))
        w.log(pr.p, 'SWrite', mtime=tstamp)


class ShutilProxy(object):
    """shutil.move broken into the steps CPython's implementation performs (rename, or on EXDEV:
    open+truncate destination, write, copystat by name, unlink source)."""

    def __getattr__(self, n):
        return getattr(shutil, n)

    def move(self, src, dst):
        pr = cur()
        if pr is None:
            return shutil.move(src, dst)
        w = pr.w
        if dst == w.stampfile:
            pr.yield_('CvStamp')
            r = shutil.move(src, dst)
            w.stamp_from = pr.checked_at
            w.log(pr.p, 'CvStamp')
            return r
        pr.yield_('SMove')                      # controller sets pr.choice
        if pr.choice != 'copy':
            _real_os.rename(src, dst)
            w.puts += 1
            w.put_at[w.ino_of(dst)] = w.puts
            w.log(pr.p, 'SRename', ino=w.ino_of(dst))
            return dst
        # --- cross-device branch: shutil.copy2(src, dst); os.unlink(src)
        with _real_open(src, 'rb') as fs:
            data = fs.read()
        fdst = _real_open(dst, 'wb')            # truncates in place or creates
        try:
            tstamp = w.stamp_time()
            _real_os.utime(fdst.fileno(), (tstamp, tstamp))
            i = w.ino_of(dst)
            w.puts += 1
            w.put_at[i] = w.puts
            w.log(pr.p, 'CopyOpen', ino=i)
            half = max(1, len(data) // 2)
            pr.yield_('CopyWrite1')
            fdst.write(data[:half])
            fdst.flush()
            tstamp = w.stamp_time()
            _real_os.utime(fdst.fileno(), (tstamp, tstamp))
            w.log(pr.p, 'CopyWrite1')
            pr.yield_('CopyWrite2')
            fdst.write(data[half:])
            fdst.flush()
            tstamp = w.stamp_time()
            _real_os.utime(fdst.fileno(), (tstamp, tstamp))
            w.note_stamp(i)
            w.log(pr.p, 'CopyWrite2')
        finally:
            fdst.close()
        pr.yield_('CopyStat')
        try:
            shutil.copystat(src, dst)
        except FileNotFoundError:
            w.log(pr.p, 'CopyStat', ok=False)
            raise
        w.note_stamp(w.ino_of(dst))
        w.log(pr.p, 'CopyStat', ok=True)
        _real_os.unlink(src)
        return dst


class FakeGIRParser(object):
    def __init__(self, types_only=False):
        self._parsed = None

    def parse(self, filename):
        pr = cur()
        pr.yield_('Parse')
        with _real_open(filename) as f:
            payload = f.read()
        w = pr.w
        self._parsed = FakeParsed(w.srcVer, payload)
        w.log(pr.p, 'Parse', ver=w.srcVer)

    def get_namespace(self):
        return self._parsed.get_namespace()

    # what gets pickled is this object; keep the version visible
    @property
    def version(self):
        return self._parsed.version


_installed = {}


def install():
    if _installed:
        return
    _installed['x'] = True
    CS.os = OSProxy()
    CS.open = proxy_open
    CS.shutil = ShutilProxy()
    CS.tempfile = TempfileProxy()
    CS.pickle = PickleProxy()
    TR.GIRParser = FakeGIRParser
    # public API boundary: record what load() returns and the source versions current at call/return
    orig_load = CS.CacheStore.load
    orig_store = CS.CacheStore.store

    def load(self, filename):
        pr = cur()
        if pr is None:
            return orig_load(self, filename)
        pr.phase = 'load'
        rec = dict(p=pr.p, startVer=None, raised=None)
        pr.read_ino = 0
        pr.stat_mtime = -1
        pr.srcstat_mtime = -1
        # startVer is taken when the first primitive of load executes (the call is a pure prefix)
        pr.api.append(rec)
        rec['startVer_at_call'] = pr.w.srcVer
        try:
            data = orig_load(self, filename)
        except Killed:
            raise
        except BaseException as e:
            rec['raised'] = repr(e)
            pr.w.log(pr.p, 'Raise', k='load')
            raise
        rec['endVer'] = pr.w.srcVer
        rec.update(statMtime=pr.stat_mtime, srcStatMtime=pr.srcstat_mtime, mustPurge=pr.must_purge,
                   checkedAt=pr.checked_at)
        if data is None:
            rec.update(k='none', ver=0, ino=0)
        else:
            rec.update(k='data', ver=getattr(data, 'version', -1), ino=pr.read_ino)
        pr.w.log(pr.p, 'Ret', k=rec['k'], ver=rec['ver'], ino=rec['ino'])
        pr.phase = 'parse'
        return data

    def store(self, filename, data):
        pr = cur()
        if pr is not None:
            pr.phase = 'store'
        return orig_store(self, filename, data)

    CS.CacheStore.load = load
    CS.CacheStore.store = store


def run_schedule(root, schedule, nprocs=3, svers=None, coarse=False, random_rng=None, max_steps=200,
                 p_edit=0.08, p_crash=0.02, p_copy=0.3, max_edits=3, complete=True):
    """Run the real code under `schedule`: list of (action, p, clock_after) from the model, or None
    for a random schedule drawn with random_rng.  Returns (world, procs, info)."""
    install()
    os.environ['XDG_CACHE_HOME'] = os.path.join(root, 'cache')
    svers = svers or {p: 1 for p in range(1, nprocs + 1)}
    w = World(root, svers, coarse)
    procs = {p: Proc(w, p) for p in range(1, nprocs + 1)}
    w.procs = procs
    for p in procs.values():
        p.start()
        w.back.acquire()                 # runs up to its first yield
    info = dict(mismatch=None, steps=0)

    def grant(pr, choice=None):
        pr.choice = choice
        pr.go.release()
        w.back.acquire()

    def crash(pr):
        w.log(pr.p, 'Crash')
        pr.killed = True
        pr.crashed = True

    if schedule is not None:
        for (act, p, clk) in schedule:
            info['steps'] += 1
            if act == 'EditSrc':
                w.advance_next = (clk > w.clock) if clk is not None else True
                w.edit_src()
                continue
            pr = procs[p]
            if act == 'Crash':
                crash(pr)
                continue
            if act == 'run' and (pr.finished or pr.killed):
                continue                  # directed schedules: "let p run" beyond its end is a no-op
            if pr.finished:
                info['mismatch'] = 'step %d: model wants %s(%d) but the process has finished' % (info['steps'], act, p)
                break
            pend = pr.pending
            choice = None
            if pend == 'SMove':
                choice = 'copy' if act == 'CopyOpen' else 'rename'
            w.advance_next = (clk > w.clock) if clk is not None else True
            grant(pr, choice)
    else:
        rng = random_rng
        edits = 0
        made = []
        info['schedule'] = made
        last = None
        sticky = rng.choice([0.0, 0.5, 0.8, 0.9, 0.97])
        while info['steps'] < max_steps:
            live = [pr for pr in procs.values() if not pr.finished and not pr.killed]
            if not live:
                break
            info['steps'] += 1
            w.advance_next = (rng.random() < 0.6)
            r = rng.random()
            if r < p_edit and edits < max_edits:
                edits += 1
                w.edit_src()
                made.append(('EditSrc', 0, w.clock))
                continue
            if last is not None and last in live and rng.random() < sticky:
                pr = last
            else:
                pr = rng.choice(live)
            last = pr
            if r > 1 - p_crash and pr.pending != 'CvRead':
                crash(pr)
                made.append(('Crash', pr.p, w.clock))
                continue
            choice = 'copy' if rng.random() < p_copy else 'rename'
            act = pr.pending
            if act == 'SMove':
                act = 'CopyOpen' if choice == 'copy' else 'SRename'
            grant(pr, choice)
            made.append((act, pr.p, w.clock))
    if schedule is not None and complete and not info['mismatch']:
        # let the surviving processes run to completion one after the other (same-device rename)
        for pr in procs.values():
            while not pr.finished and not pr.killed and info['steps'] < max_steps + len(schedule):
                info['steps'] += 1
                w.advance_next = True
                act = pr.pending
                if act == 'SMove':
                    act = 'SRename'
                grant(pr, 'rename')
                schedule.append((act, pr.p, w.clock))
    # unwind the remaining threads (killed or never finished): they raise Killed at their yield point
    for pr in procs.values():
        if not pr.finished:
            pr.killed = True
            pr.go.release()
            w.back.acquire()
    for pr in procs.values():
        pr.join(5)
    return w, procs, info

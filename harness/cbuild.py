"""Build the C side of /repo (libgirepository, cmph, g-ir-compiler, g-ir-generate) plus harness
drivers from the CURRENT working tree of REPO into a scratch directory.

No GLib development headers exist in this sandbox: cshim/include is a hand-written declaration
shim for the GLib 2.74 ABI; the objects link against the system GLib runtime .so files.
Every C-side check calls build() afresh, so edits to REPO are always picked up.
"""
import glob, os, subprocess, shutil
from concurrent.futures import ThreadPoolExecutor

from .common import REPO, VERIF, MachineryError, NCPU

SHIM = os.path.join(VERIF, 'cshim')
LIBDIR = '/usr/lib/x86_64-linux-gnu'
LIBS = [os.path.join(LIBDIR, 'lib%s-2.0.so.0' % n) for n in ('gio', 'gobject', 'gmodule', 'glib')]
CMPH = ['bdz.c', 'bdz_ph.c', 'bmz8.c', 'bmz.c', 'brz.c', 'buffer_entry.c', 'buffer_manager.c', 'chd.c', 'chd_ph.c',
        'chm.c', 'cmph.c', 'cmph_structs.c', 'compressed_rank.c', 'compressed_seq.c', 'fch_buckets.c', 'fch.c',
        'graph.c', 'hash.c', 'jenkins_hash.c', 'miller_rabin.c', 'select.c', 'vqueue.c', 'vstack.c']
EXCLUDE = {'gdump.c', 'gi-dump-types.c', 'gthash-test.c', 'cmph-bdz-test.c', 'docs.c'}
CFLAGS = ['-std=gnu99', '-g', '-O1', '-DHAVE_CONFIG_H', '-DG_IREPOSITORY_COMPILATION', '-w',
          '-I' + os.path.join(SHIM, 'include')]


class CBuild(object):
    def __init__(self, outdir, extra_cflags=()):
        self.out = outdir
        self.repo = REPO
        self.cflags = CFLAGS + ['-I' + os.path.join(REPO, 'girepository'), '-I' + REPO,
                                '-I' + os.path.join(REPO, 'girepository', 'cmph')] + list(extra_cflags)
        self.lib_objs = []
        self.compiler = None
        self.generate = None

    def _cc(self, src, obj):
        p = subprocess.run(['gcc'] + self.cflags + ['-c', src, '-o', obj], stdout=subprocess.PIPE,
                           stderr=subprocess.STDOUT, text=True)
        if p.returncode != 0:
            raise MachineryError('C build failed for %s:\n%s' % (src, p.stdout[-3000:]))
        return obj

    def _link(self, objs, exe):
        p = subprocess.run(['gcc', '-o', exe] + objs + LIBS + ['-lffi', '-lm', '-ldl'], stdout=subprocess.PIPE,
                           stderr=subprocess.STDOUT, text=True)
        if p.returncode != 0:
            raise MachineryError('link failed for %s:\n%s' % (exe, p.stdout[-3000:]))
        return exe

    def build(self):
        os.makedirs(self.out, exist_ok=True)
        gi = os.path.join(self.repo, 'girepository')
        srcs = [f for f in sorted(glob.glob(gi + '/*.c')) if os.path.basename(f) not in EXCLUDE]
        srcs += [os.path.join(gi, 'cmph', f) for f in CMPH]
        srcs += [os.path.join(SHIM, 'stubs.c')]
        self.levels_obj = None
        jobs = [(s, os.path.join(self.out, os.path.basename(s)[:-2] + '.o')) for s in srcs]
        tools = [(os.path.join(self.repo, 'tools', 'compiler.c'), os.path.join(self.out, 'tool_compiler.o')),
                 (os.path.join(self.repo, 'tools', 'generate.c'), os.path.join(self.out, 'tool_generate.o'))]
        with ThreadPoolExecutor(NCPU) as ex:
            list(ex.map(lambda j: self._cc(*j), jobs + tools))
        self.lib_objs = [o for _, o in jobs]
        self.levels_obj = self._cc(os.path.join(SHIM, 'stubs_levels.c'), os.path.join(self.out, 'stubs_levels.o'))
        self.compiler = self._link([tools[0][1]] + self.lib_objs, os.path.join(self.out, 'g-ir-compiler'))
        self.generate = self._link([tools[1][1], self.levels_obj] + self.lib_objs, os.path.join(self.out, 'g-ir-generate'))
        return self

    def driver(self, src, name=None):
        """compile a harness driver (C file) against the freshly built library objects"""
        name = name or os.path.basename(src)[:-2]
        obj = self._cc(src, os.path.join(self.out, name + '.o'))
        return self._link([obj, self.levels_obj] + self.lib_objs, os.path.join(self.out, name))

    def compile_gir(self, gir, out, includedirs=(), extra=()):
        cmd = [self.compiler]
        for d in includedirs:
            cmd += ['--includedir', d]
        cmd += list(extra) + ['-o', out, gir]
        return subprocess.run(cmd, stdout=subprocess.PIPE, stderr=subprocess.PIPE, text=True,
                              env=dict(os.environ, GI_TYPELIB_PATH='', G_DEBUG=''))

"""C15 helper (tla/Accept*.tla): scanner outputs -> REPO's g-ir-compiler -> decoded typelib, projected to the
vocabulary of tla/AcceptTrace.tla.  No verdict is formed here.

* families(): the scanner-side generators of the finished checks are IMPORTED (harness/c01lib + props/c01 random
  callables, props/c02 run_batch, props/c03 build_namespace/make_block, c05proj.render + props/c05 random graphs and the
  cross-reference sweep, gdumpgen worlds of C12, girio.gen_namespace of C07, the enum/constant vocabulary of C13) and run
  through the REAL pipeline (harness/scan.scan is wrapped so that every call a generator makes is captured together with
  its concrete input -> self-contained replay), plus tests/scanner/*-expected.gir.
* compile_doc(): writes <Ns>-<ver>.gir next to the include GIRs, runs g-ir-compiler --includedir, classifies nothing:
  returns exit status, output lines with the marker words they contain, the decoded typelib (harness/tlabs.py) and the
  result of re-validating the file with g_typelib_validate (harness/cdrv/drv_c15_validate.c).
* project(): one "doc" record per document and one "elem" record per GIR element the typelib format has a blob for
  (g = what the GIR states, raw attribute strings; b = candidates found in the decoded typelib under the names the
  element may take, decoded bits turned into the GIR's words).
"""
import hashlib, json, os, random, re, shutil, struct, subprocess, sys, time, glob

from . import scan as S
from . import tlabs
from .common import REPO, VERIF, MachineryError

MARKERS = ('error', 'warning', 'critical', 'assertion')
INC_SYNTH = os.path.join(VERIF, 'harness', 'data', 'gir')

# ------------------------------------------------------------------------------------------------ capture
_captured = None
_real_scan = S.scan


def _capturing_scan(symbols, comments=(), **kw):
    r = _real_scan(symbols, comments, **kw)
    if _captured is not None:
        _captured.append(dict(symbols=list(symbols), comments=[tuple(c) for c in comments], kw=kw, xml=r.xml, result=r))
    return r


class capture(object):
    """with capture() as docs: ... every harness.scan.scan call made inside is recorded (input + GIR)"""

    def __enter__(self):
        global _captured
        self.prev = _captured
        _captured = []
        S.scan = _capturing_scan
        return _captured

    def __exit__(self, *a):
        global _captured
        S.scan = _real_scan
        _captured = self.prev
        return False


def _kw_json(kw):
    """scan keyword arguments that can be stored (extra_includes = parsed namespaces cannot: such calls are not used)"""
    out = {}
    for k, v in kw.items():
        if k in ('extra_includes', 'blocks'):
            if v:
                raise ValueError('scan argument %s cannot be replayed' % k)
            continue
        out[k] = list(v) if isinstance(v, (tuple, list)) else v
    return out


def spec_of(cap, post=None):
    from . import girio
    return dict(symbols=[girio._dump_sym(s) for s in cap['symbols']], comments=[list(c) for c in cap['comments']],
                kw=_kw_json(cap['kw']), post=post or {})


def rescan(spec):
    """replay: the recorded concrete scanner input through the pipeline of the CURRENT tree -> GIR text"""
    from . import girio
    kw = dict(spec['kw'])
    for k in ('idp', 'symp', 'deps', 'c_includes', 'shared_libraries'):
        if k in kw:
            kw[k] = tuple(kw[k])
    r = _real_scan([girio._load_sym(s) for s in spec['symbols']], [tuple(c) for c in spec['comments']], **kw)
    return finish_ns(r, spec.get('post') or {})


def finish_ns(r, post):
    """namespace-level options scannermain applies after the passes (girio specs), then the writer"""
    if not post:
        return r.xml
    from giscanner.girwriter import GIRWriter
    r.ns.exported_packages = list(post.get('packages', []))
    if post.get('doc_format'):
        r.ns.doc_format = post['doc_format']
    return GIRWriter(r.ns, post.get('roots', ['/src'])).get_encoded_xml().decode('utf-8')


# ------------------------------------------------------------------------------------------------ families
def _doc(family, docid, xml, replay, ns='Foo', version='1.0'):
    return dict(family=family, docid=docid, gir=xml, replay=replay, ns=ns, version=version)


def fam_c01(seed, k, n=120):
    """random annotated callables of props/c01 (5-8 parameters, relational annotations), n per namespace"""
    from . import c01lib as L
    from .props import c01 as P
    rng = random.Random('c15/c01/%d/%d' % (seed, k))
    syms, comments = L.prelude(), []
    for i in range(1, n + 1):
        sym, cm, _ = L.render(P.random_case(rng, i), i)
        syms.append(sym)
        comments.append(cm)
    with capture() as caps:
        S.scan(syms, comments, dump_xml=L.DUMP)
    return [_doc('c01', 'c01-%d' % k, caps[0]['xml'], dict(how='scan', spec=spec_of(caps[0])))]


def fam_c01grid(seed, k):
    """directed: one annotated pointer parameter per callable, the whole cross product direction x nullable x optional x
    allow-none x transfer x declaration kind (the attribute combinations the producer/consumer contract is about)"""
    from . import c01lib as L
    syms, comments = L.prelude(), []
    i = 0
    kinds = [('char', 1), ('recordT', 1), ('int', 1), ('objectT', 2), ('objectT', 1), ('GList', 1), ('callbackT', 0), ('boxedT', 1)]
    ck, ptr = kinds[k % len(kinds)]
    for d in ('', 'in', 'out', 'inout', 'outcaller', 'outcallee'):
        for nul in (False, True):
            for opt in (False, True):
                for an in (False, True):
                    for tr in ('', 'none', 'full', 'container'):
                        for ckind in ('function', 'method', 'callback'):
                            i += 1
                            v = L.value(ck, ptr, dir=d, nullable=nul, optional=opt, allownone=an, transfer=tr)
                            rv = L.value('void', 0) if i % 3 else L.value('char', 1, nullable=nul, transfer=tr, skip=(i % 5 == 0))
                            case = L.normalize(dict(id='g%d' % i, kind=ckind, throws=(i % 7 == 0), ret=rv, params=[v]))
                            sym, cm, _ = L.render(case, i)
                            syms.append(sym)
                            comments.append(cm)
    with capture() as caps:
        S.scan(syms, comments, dump_xml=L.DUMP)
    return [_doc('c01grid', 'c01grid-%d' % k, caps[0]['xml'], dict(how='scan', spec=spec_of(caps[0])))]


def fam_c02(seed, k, n=260):
    """un-annotated declarations of props/c02: every base word of ast.type_names x pointer depth x qualifiers x position,
    and long parameter arrangements (callback / user_data / destroy / async / GError roles)"""
    from .props import c02 as P
    from giscanner import ast as gast
    rng = random.Random('c15/c02/%d/%d' % (seed, k))
    bases = sorted(set(b.rstrip('*').strip() for b in gast.type_names) - {'none', 'utf8', 'filename', 'any'}) + ['FooRec', 'FooEnum', 'FooObj', 'FooCb', '_Bool', 'bool',
                                                                         'GList', 'GHashTable', 'GError', 'GObject', 'GValue', 'GBytes']
    cases = []
    for j in range(n // 2):
        d = rng.choice([0, 0, 1, 1, 2, 3])
        cases.append(dict(k='val', pos=rng.choice(['param', 'param', 'return', 'return', 'field', 'field', 'field', 'constant']), ann='', base=rng.choice(bases + ['BarModeT']), depth=d,
                          quals=[rng.choice(['', '', 'c', 'v', 'cv']) for _ in range(d + 1)], alias=rng.random() < 0.1))
    for j in range(40):
        cases.append(dict(k='val', pos='param', ann=rng.choice(sorted(P.ANN_TEXT)), base=rng.choice(['int', 'char', 'gpointer', 'FooRec', 'FooEnum']),
                          depth=rng.choice([1, 2]), quals=['', '', ''][:rng.choice([2, 3])], alias=False))
    arith = [b for b in bases if b in gast.type_names and gast.type_names[b].target_fundamental not in (None, 'none', 'gpointer', 'utf8', 'filename', 'va_list')
             and b not in ('void', 'gpointer', 'gconstpointer')]
    for c in cases:
        c['quals'] = (c['quals'] + ['', '', '', ''])[:c['depth'] + 1]
        # valid C only: no object of type void, `#define X ((T) 5)` casts to arithmetic or pointer types
        if c['base'] == 'void' and c['depth'] == 0 and c['pos'] != 'return':
            c['depth'], c['quals'] = 1, (c['quals'] + [''])[:2]
        if c['pos'] == 'constant' and c['depth'] == 0 and c['base'] not in arith:
            c['base'] = rng.choice(arith + ['FooEnum', 'BarModeT'])
    cases += P.random_arrs(rng, n // 2)
    items = []
    seen = set()
    for c in cases:
        cid = P.case_id(c) + '#%d' % len(items)
        items.append((cid, c))
    with capture() as caps:
        try:
            P.run_batch(S, items)
        except Exception:          # the projection of C02 is not our subject; the scan itself has been captured (or not)
            if not caps:
                raise
    return [_doc('c02', 'c02-%d' % k, caps[0]['xml'], dict(how='scan', spec=spec_of(caps[0])))]


def fam_c03(seed, k, n=6):
    """the fixed namespace of props/c03 (two classes with same-named members, records, enums, ...) under random
    subsets of identifier-level blocks (attributes, skip, Since/Deprecated/Stability, target annotations); rename-to cases"""
    from .props import c03 as P
    rng = random.Random('c15/c03/%d/%d' % (seed, k))
    docs = []
    syms, els = P.build_namespace(S)
    kinds = {e[1]: e[0] for e in els}
    for j in range(n):
        full = (j == 0 and k % 4 == 0)
        chosen = [e[1] for e in els if (full or rng.random() < 0.5)] + [x for x in P.KEYS_EXTRA if rng.random() < 0.5]
        rng.shuffle(chosen)
        comments, line = [], 10
        for pid, key in enumerate(chosen, 1):
            _, text = P.make_block(key, kinds.get(key, 'none'), pid, rng, full=full)
            if key in ('foo_obj_call_by_ann', 'foo_obj_b_call_by_ann') and rng.random() < 0.7:
                text = text.replace(' * %s:' % key, ' * %s: (virtual by_ann)' % key, 1)
            comments.append((text, '/src/foo.c', line))
            line += 20
        with capture() as caps:
            S.scan(syms, comments, dump_xml=P.DUMP)
        docs.append(_doc('c03', 'c03-%d-%d' % (k, j), caps[0]['xml'], dict(how='scan', spec=spec_of(caps[0]))))
    # rename-to machine: three functions, every annotation assignment incl. chains, self reference and a missing target
    fsyms, fcomments, line = [], [], 1
    for c in range(40):
        names = ['a', 'b', 'c']
        rng.shuffle(names)
        for f in names:
            fsyms.append(S.function('foo_r%d_%s' % (c, f), 'void', [('int', 'x')] * rng.randint(0, 2), line=line))
            line += 1
        for f in names:
            t = rng.choice(['-', '-', 'a', 'b', 'c', 'missing'])
            if t == '-':
                continue
            tgt = 'foo_r%d_%s' % (c, t) if t != 'missing' else 'foo_r%d_nowhere' % c
            skip = ' (skip)' if rng.random() < 0.15 else ''
            fcomments.append(('/**\n * foo_r%d_%s: (rename-to %s)%s\n */' % (c, f, tgt, skip), '/src/foo.c', line))
            line += 5
    with capture() as caps:
        S.scan(fsyms, fcomments, deps=())
    docs.append(_doc('c03', 'c03-%d-rename' % k, caps[0]['xml'], dict(how='scan', spec=spec_of(caps[0]))))
    return docs


def fam_c05(seed, k, n=12):
    """random node/uses graphs of props/c05 (unresolved / foreign / skipped / exotic types, moved and renamed functions,
    record methods, classes with properties and signals) + a slice of the cross-reference feature sweep"""
    from . import c05proj as P5
    from .props import c05 as C5
    rng = random.Random('c15/c05/%d/%d' % (seed, k))
    cases = [('rand%d' % j, C5.random_case(rng, rng.randint(4, 10))) for j in range(n)]
    sweep = C5.sweep_cases(False)
    per = 12
    cases += [('sweep%d' % j, c) for j, c in list(enumerate(sweep))[k * per:(k + 1) * per]]
    docs = []

    def embeds_itself(case):
        """a record whose member is (an alias of) a record by value through typedefs only: `typedef FooR1 FooA5; struct _FooR1 { FooA5 x; }`
        is not C -- C05's graphs do not care, a scanner never sees it"""
        nodes = case['nodes']
        for nd in nodes:
            if nd['kind'] == 'record' and nd['site']['tk'] == 'node':
                j, fuel = nd['site']['tgt'], 12
                while fuel and nodes[j - 1]['kind'] == 'alias' and nodes[j - 1]['site']['tk'] == 'node':
                    j, fuel = nodes[j - 1]['site']['tgt'], fuel - 1
                if nodes[nd['site']['tgt'] - 1]['kind'] == 'alias' and nodes[j - 1]['kind'] in ('record', 'class', 'alias'):
                    return True
        return False
    cases = [(cid, c) for cid, c in cases if not embeds_itself(c)]
    for cid, case in cases:
        for nd in case['nodes']:
            nd.setdefault('ren', 0)
            nd.setdefault('host', 0)
        rr = P5.render(case, S)
        with capture() as caps:
            try:
                S.scan(rr['symbols'], rr['comments'], dump_xml=rr['dump_xml'], warnings=False)
            except (SystemExit, Exception):
                continue                    # the scanner refused the input: no scanner output, nothing to judge
        docs.append(_doc('c05', 'c05-%d-%s' % (k, cid), caps[0]['xml'], dict(how='scan', spec=spec_of(caps[0]))))
    return docs


def fam_c12(seed, k, n=12):
    """GObject worlds of harness/gdumpgen (classes / interfaces / boxed / enums / flags / fundamentals with properties and
    signals, parent chains through hidden and included ancestors, error quarks) through GDumpParser"""
    from . import gdumpgen as G
    rng = random.Random('c15/c12/%d/%d' % (seed, k))
    docs = []
    for j in range(n):
        w = G.random_world(rng, size=rng.choice([None, None, 10, 14]))
        r = G.run_world(S, w)
        if r['xml']:
            docs.append(_doc('c12', 'c12-%d-%d' % (k, j), r['xml'], dict(how='world', world=w)))
    return docs


def fam_c07(seed, k, n=6):
    """girio.gen_namespace: every node kind the writer knows, docs/attributes/tags everywhere, anonymous members, inline
    functions, macros, doc sections, namespace options"""
    from . import girio
    rng = random.Random('c15/c07/%d/%d' % (seed, k))
    docs = []
    for j in range(n):
        spec = girio.gen_namespace(rng, k * n + j)
        o = spec['options']
        post = dict(packages=o['packages'], doc_format=o['doc_format'], roots=o['roots'])
        with capture() as caps:
            r = girio.scan_generated(spec)
        xml = finish_ns(caps[0]['result'], post)
        docs.append(_doc('c07', 'c07-%d-%d' % (k, j), xml, dict(how='scan', spec=spec_of(caps[0], post))))
    return docs


C13_VOCAB = ['FOO', 'BAR', 'A', 'B', 'AB', 'ABX', 'X2', 'BIG']
C13_TYPES = ['guint8', 'guint16', 'guint32', 'guint64', 'gint8', 'gint16', 'gint32', 'gint64', 'gint', 'guint', 'glong', 'gulong',
             'gsize', 'gssize', 'gchar', 'guchar', 'gshort', 'gushort']


def fam_c13(seed, k, n=300):
    """enumerations / bitfields (member words of the C13 vocabulary, values up to 64 bits, negative) and typed constants
    (fixed-width types, aliases of them, strings with XML specials, booleans, doubles), packed"""
    rng = random.Random('c15/c13/%d/%d' % (seed, k))
    syms = [S.alias('FooU8', 'guint8'), S.alias('FooU16', 'guint16'), S.alias('FooU32', 'guint32'), S.alias('FooU64', 'guint64'),
            S.alias('FooUU8', 'FooU8')]
    comments = []
    for i in range(n):
        shared = [rng.choice(C13_VOCAB) for _ in range(rng.choice([0, 0, 1, 1, 2]))]
        ms = [shared + [rng.choice(C13_VOCAB) for _ in range(rng.randint(1, 3))] for _ in range(rng.randint(1, 6))]
        r = rng.random()
        if r < 0.5:
            ms = [['FOO'] + m for m in ms]
        elif r < 0.8:
            ms = [[rng.choice(['FOO', 'BAR'])] + m for m in ms]
        names, members = set(), []
        for m in ms:
            nm = '_'.join(m) + '_%d' % i
            if nm in names:
                continue
            names.add(nm)
            v = len(members) if rng.random() < 0.4 else rng.choice([-1, -2 ** 31, 2 ** 31 - 1, 2 ** 31, 2 ** 32, 2 ** 63 - 1, -2 ** 63, 255, 256,
                                                                   65536, rng.getrandbits(40)])
            members.append((nm, v))
        syms.append(S.typedef_enum('FooE%d' % i, members, bitfield=rng.random() < 0.3, line=i + 1))
        if rng.random() < 0.1:
            comments.append(('/**\n * %s: (skip)\n */' % members[0][0], '/src/foo.c', 10 * i + 1))
        if rng.random() < 0.1:
            comments.append(('/**\n * FooE%d:\n *\n * Deprecated: 1.2: gone\n */' % i, '/src/foo.c', 10 * i + 5))
    for i in range(n):
        name = 'FOO_K%d' % i
        r = rng.random()
        if r < 0.6:
            t = rng.choice(C13_TYPES + ['FooU8', 'FooU16', 'FooU32', 'FooU64', 'FooUU8'])
            val = rng.getrandbits(rng.choice([7, 8, 9, 15, 16, 17, 31, 32, 33, 63, 64]))
            if rng.random() < 0.4:
                val = -min(val, 2 ** 63)
            syms.append(S.const_int(name, val, t if rng.random() < 0.8 else None, line=n + i))
        elif r < 0.8:
            syms.append(S.const_str(name, rng.choice(['', 'abc', 'a"b<c>&d', "it's", 'tab\there', 'n\u00f6n-\u00e4scii \u2713', ' lead and trail ',
                                                      'line\nbreak', '%s %d']), line=n + i))
        elif r < 0.9:
            syms.append(S.const_bool(name, rng.random() < 0.5, line=n + i))
        else:
            syms.append(S.const_double(name, rng.choice([0.0, 1.5, -2.25e10, 1e-300, 3.141592653589793]), line=n + i))
        if rng.random() < 0.08:
            comments.append(('/**\n * %s: (skip)\n */' % name, '/src/foo.c', 10 * (n + i)))
    with capture() as caps:
        S.scan(syms, comments, deps=(), symp=('foo', 'bar'))
    return [_doc('c13', 'c13-%d' % k, caps[0]['xml'], dict(how='scan', spec=spec_of(caps[0])))]


FAMILIES = dict(c01=fam_c01, c01grid=fam_c01grid, c02=fam_c02, c03=fam_c03, c05=fam_c05, c12=fam_c12, c07=fam_c07, c13=fam_c13)


def generate(task):
    """task = (family, seed, k) -> documents.  A generator that raises is reported (machinery), not swallowed."""
    fam, seed, k = task
    return FAMILIES[fam](seed, k)


# ------------------------------------------------------------------------------------------------ expected GIRs + includes
def gir_header(path):
    """(namespace, version, [(include name, version)]) read with a regex (no XML parser: cheap, and the file is ours)"""
    txt = open(path, encoding='utf-8').read(20000)
    incs = re.findall(r'<include\s+name="([^"]+)"\s+version="([^"]+)"', txt)
    m = re.search(r'<namespace\s+name="([^"]+)"\s+version="([^"]+)"', open(path, encoding='utf-8').read())
    return (m.group(1), m.group(2), incs) if m else (None, None, incs)


SYSTEM_TYPELIBS = '/usr/lib/x86_64-linux-gnu/girepository-1.0'


def fixup_generated_gir(text):
    """documented fix-up of g-ir-generate output so that g-ir-compiler reads it back as an INCLUDE (DESIGN 3.2):
    repository version 1.0 -> 1.2; type name "any" (how g-ir-generate spells gpointer) -> gpointer."""
    text = text.replace('<repository version="1.0"', '<repository version="1.2"', 1)
    text = text.replace('<type name="any"', '<type name="gpointer"')
    return text


def make_system_includes(generate_exe, outdir, names=('GLib-2.0', 'GObject-2.0', 'Gio-2.0', 'GModule-2.0')):
    """include GIRs for the expected GIRs of tests/scanner, from the SYSTEM typelibs through REPO's g-ir-generate.
    -> {name: path or None}"""
    os.makedirs(outdir, exist_ok=True)
    out = {}
    for n in names:
        tl = os.path.join(SYSTEM_TYPELIBS, n + '.typelib')
        if not os.path.exists(tl):
            out[n] = None
            continue
        p = subprocess.run([generate_exe, '--includedir', SYSTEM_TYPELIBS, tl], stdout=subprocess.PIPE, stderr=subprocess.PIPE,
                           env=dict(os.environ, GI_TYPELIB_PATH=SYSTEM_TYPELIBS))
        if p.returncode != 0 or not p.stdout:
            out[n] = None
            continue
        path = os.path.join(outdir, n + '.gir')
        with open(path, 'w', encoding='utf-8') as f:
            f.write(fixup_generated_gir(p.stdout.decode('utf-8', 'replace')))
        out[n] = path
    return out


def expected_girs(incdir_sys, compiler):
    """tests/scanner/*-expected.gir in dependency order.  A file is usable when each include is a system include GIR that
    exists or an earlier usable expected GIR (copied into incdir_sys under its <Ns>-<ver>.gir name).
    -> (docs, skipped[(file, reason)])"""
    files = sorted(glob.glob(os.path.join(REPO, 'tests', 'scanner', '*-expected.gir')))
    info = {}
    for f in files:
        ns, ver, incs = gir_header(f)
        if ns:
            info[f] = (ns, ver, incs)
    # the repository's own cairo-1.0.gir.in, configured the way gir/meson.build does on Linux
    cin = os.path.join(REPO, 'gir', 'cairo-1.0.gir.in')
    if os.path.exists(cin) and os.path.exists(os.path.join(incdir_sys, 'GObject-2.0.gir')):
        with open(os.path.join(incdir_sys, 'cairo-1.0.gir'), 'w', encoding='utf-8') as f:
            f.write(open(cin, encoding='utf-8').read().replace('@CAIRO_SHARED_LIBRARY@', 'libcairo-gobject.so.2')
                    .replace('@CAIRO_GIR_PACKAGE@', 'cairo-gobject'))
    have = set(os.path.basename(p)[:-4] for p in glob.glob(os.path.join(incdir_sys, '*.gir')))
    docs, skipped, todo = [], [], dict(info)
    progress = True
    while todo and progress:
        progress = False
        for f in sorted(todo):
            ns, ver, incs = todo[f]
            if all('%s-%s' % i in have for i in incs):
                shutil.copy(f, os.path.join(incdir_sys, '%s-%s.gir' % (ns, ver)))
                have.add('%s-%s' % (ns, ver))
                docs.append(_doc('expected', 'expected-' + os.path.basename(f)[:-len('-expected.gir')], open(f, encoding='utf-8').read(),
                                 dict(how='file', file=os.path.relpath(f, REPO)), ns=ns, version=ver))
                del todo[f]
                progress = True
    for f in sorted(todo):
        ns, ver, incs = todo[f]
        skipped.append((os.path.basename(f), 'include not available: ' + ', '.join('%s-%s' % i for i in incs if '%s-%s' % i not in have)))
    return docs, skipped


# ------------------------------------------------------------------------------------------------ compile
def out_lines(text):
    """output lines with the marker words they contain (lower-cased search); nothing is decided here"""
    out = []
    for ln in text.split('\n'):
        s = ln.strip()
        if not s:
            continue
        low = s.lower()
        out.append(dict(text=s[:300], marks=[m for m in MARKERS if m in low]))
    return out


def compile_doc(compiler, workdir, doc, incdirs, validator=None, keep=False):
    """-> dict(rc, lines[{text, marks}], produced, decoded (dict or None), decode_error, revalidated ('ok'|'invalid: ..'|'not-run'))"""
    d = os.path.join(workdir, re.sub(r'[^A-Za-z0-9_.-]', '_', doc['docid']))
    os.makedirs(d, exist_ok=True)
    gir = os.path.join(d, '%s-%s.gir' % (doc['ns'], doc['version']))
    tl = gir[:-4] + '.typelib'
    with open(gir, 'w', encoding='utf-8') as f:
        f.write(doc['gir'])
    cmd = [compiler]
    for i in incdirs:
        cmd += ['--includedir', i]
    cmd += ['-o', tl, gir]
    try:
        p = subprocess.run(cmd, stdout=subprocess.PIPE, stderr=subprocess.PIPE, timeout=300,
                           env=dict(os.environ, GI_TYPELIB_PATH='', G_DEBUG='', G_MESSAGES_DEBUG='', LC_ALL='C'))
        rc, so, se = p.returncode, p.stdout.decode('utf-8', 'replace'), p.stderr.decode('utf-8', 'replace')
    except subprocess.TimeoutExpired:
        rc, so, se = 999, '', 'error: g-ir-compiler did not terminate within 300 s'
    res = dict(rc=rc, lines=out_lines(se) + out_lines(so), produced=os.path.exists(tl), decoded=None, decode_error='', revalidated='not-run')
    if res['produced']:
        try:
            res['decoded'] = tlabs.decode(tl)
        except Exception as e:                  # tlabs.DecodeError, struct.error, ...
            res['decode_error'] = '%s: %s' % (type(e).__name__, str(e)[:200])
        if validator:
            v = subprocess.run([validator, tl], stdout=subprocess.PIPE, stderr=subprocess.STDOUT, timeout=120)
            txt = v.stdout.decode('utf-8', 'replace').strip()
            res['revalidated'] = 'ok' if (v.returncode == 0 and txt.startswith('OK')) else ('invalid: ' + txt[:200])
    if not keep:
        shutil.rmtree(d, ignore_errors=True)
    return res


# ------------------------------------------------------------------------------------------------ projection: GIR side
TOP_TAGS = ('function', 'callback', 'enumeration', 'bitfield', 'class', 'interface', 'record', 'union', 'glib:boxed', 'constant')
CONTAINERS = ('class', 'interface', 'record', 'union', 'glib:boxed', 'enumeration', 'bitfield')
MEMBER_SECTION = {'method': 'methods', 'constructor': 'methods', 'function': 'methods', 'virtual-method': 'vfuncs',
                  'property': 'properties', 'glib:signal': 'signals', 'field': 'fields', 'member': 'values', 'constant': 'constants'}
CALLABLE_TAGS = ('function', 'method', 'constructor', 'callback', 'virtual-method', 'glib:signal')
SILENT_TAGS = ('alias', 'function-inline', 'method-inline', 'function-macro', 'docsection')


def _a(e, name):
    return e['attrs'].get(name, '')


def _int(s, default=-1):
    try:
        return int(s)
    except (TypeError, ValueError):
        return default


def _low32(text):
    """the low 32 bits of the integer a decimal literal denotes, as a decimal string ('' when it is not a literal)"""
    try:
        return str(int(text, 10) % (1 << 32))
    except (TypeError, ValueError):
        return ''


def g_value(v):
    """<parameter> / <return-value> -> raw attribute strings"""
    return dict(name=_a(v, 'name'), direction=_a(v, 'direction'), ca=_a(v, 'caller-allocates'), transfer=_a(v, 'transfer-ownership'),
                nullable=_a(v, 'nullable'), allowNone=_a(v, 'allow-none'), optional=_a(v, 'optional'), scope=_a(v, 'scope'),
                closure=_int(_a(v, 'closure')), destroy=_int(_a(v, 'destroy')), skip=_a(v, 'skip'),
                hasClosure=_a(v, 'closure') != '', hasDestroy=_a(v, 'destroy') != '',
                varargs=S.child(v, 'varargs') is not None)


EMPTY_VALUE = dict(name='', direction='', ca='', transfer='', nullable='', allowNone='', optional='', scope='', closure=-1, destroy=-1,
                   skip='', hasClosure=False, hasDestroy=False, varargs=False)


def g_callable(e):
    rv = S.child(e, 'return-value')
    ps = S.child(e, 'parameters')
    params, inst = [], ''
    hasinst = False
    if ps is not None:
        for c in ps['children']:
            if c['tag'] == 'parameter':
                params.append(g_value(c))
            elif c['tag'] == 'instance-parameter':
                hasinst = True
                inst = _a(c, 'transfer-ownership')
    return dict(throws=_a(e, 'throws'), setProp=_a(e, 'glib:set-property'), getProp=_a(e, 'glib:get-property'), invoker=_a(e, 'invoker'),
                hasRet=rv is not None, ret=g_value(rv) if rv is not None else dict(EMPTY_VALUE), hasInst=hasinst, inst=inst, params=params,
                when=_a(e, 'when'), noRecurse=_a(e, 'no-recurse'), detailed=_a(e, 'detailed'), action=_a(e, 'action'), noHooks=_a(e, 'no-hooks'))


def g_flags(e, tag):
    if tag in CALLABLE_TAGS:
        return g_callable(e)
    if tag == 'property':
        return dict(readable=_a(e, 'readable'), writable=_a(e, 'writable'), construct=_a(e, 'construct'), constructOnly=_a(e, 'construct-only'),
                    transfer=_a(e, 'transfer-ownership'), setter=_a(e, 'setter'), getter=_a(e, 'getter'))
    if tag == 'field':
        cb = S.child(e, 'callback')
        return dict(readable=_a(e, 'readable'), writable=_a(e, 'writable'), bits=_a(e, 'bits'), cb=cb is not None,
                    cbMarked0=(cb is not None and (_a(cb, 'introspectable') == '0')),
                    typed=any(c['tag'] in ('type', 'array') for c in e['children']))
    if tag == 'member':
        return dict(value=_a(e, 'value'), low32=_low32(_a(e, 'value')))
    if tag == 'constant':
        t = S.child(e, 'type')
        v = _a(e, 'value')
        res, fits = {}, {}
        for w in (8, 16, 32, 64):
            try:
                res[str(w)] = str(int(v, 10) % (1 << w))
                fits['s' + str(w)] = -(1 << (w - 1)) <= int(v, 10) < (1 << (w - 1))
                fits['u' + str(w)] = 0 <= int(v, 10) < (1 << w)
            except ValueError:
                res[str(w)] = ''
                fits['s' + str(w)] = fits['u' + str(w)] = False
        try:
            fv = repr(float(v))
        except ValueError:
            fv = ''
        try:
            fv32 = repr(struct.unpack('<f', struct.pack('<f', float(v)))[0])
        except (ValueError, OverflowError):
            fv32 = ''
        return dict(value=v, tname=_a(t, 'name') if t is not None else '', residues=res, fits=fits, fvalue=fv, fvalue32=fv32)
    if tag in ('class', 'interface'):
        return dict(parent=_a(e, 'parent'), abstract=_a(e, 'abstract'), final=_a(e, 'final'), fundamental=_a(e, 'glib:fundamental'),
                    typeName=_a(e, 'glib:type-name'), getType=_a(e, 'glib:get-type'), typeStruct=_a(e, 'glib:type-struct'),
                    implements=[_a(c, 'name') for c in e['children'] if c['tag'] == 'implements'],
                    prerequisites=[_a(c, 'name') for c in e['children'] if c['tag'] == 'prerequisite'])
    if tag in ('record', 'union', 'glib:boxed'):
        return dict(typeName=_a(e, 'glib:type-name'), getType=_a(e, 'glib:get-type'), foreign=_a(e, 'foreign'),
                    gtypeStructFor=_a(e, 'glib:is-gtype-struct-for'), copyFunc=_a(e, 'copy-function'), freeFunc=_a(e, 'free-function'))
    if tag in ('enumeration', 'bitfield'):
        return dict(typeName=_a(e, 'glib:type-name'), getType=_a(e, 'glib:get-type'), errorDomain=_a(e, 'glib:error-domain'),
                    members=[[_a(c, 'name'), _low32(_a(c, 'value'))] for c in e['children'] if c['tag'] == 'member'
                             and _a(c, 'introspectable') != '0'])
    return {}


def g_elem(e, level, owner, owner_tag, anc0, nsname):
    tag = e['tag']
    name = _a(e, 'glib:name') if tag == 'glib:boxed' else _a(e, 'name')
    return dict(tag=tag, name=name, cid=_a(e, 'c:identifier'), level=level, owner=owner, ownerTag=owner_tag,
                marked0=_a(e, 'introspectable') == '0', anc0=anc0, shadows=_a(e, 'shadows'), shadowedBy=_a(e, 'shadowed-by'),
                movedTo=_a(e, 'moved-to'), deprecated=_a(e, 'deprecated'), ns=nsname, fl=g_flags(e, tag))


def gir_elements(tree):
    """-> (namespace element, [(path, element dict, g record)], counts of elements the typelib format has no blob for)"""
    ns = S.namespace_of(tree)
    nsname = _a(ns, 'name')
    out, silent = [], {}
    for e in ns['children']:
        tag = e['tag']
        if tag in SILENT_TAGS:
            silent[tag] = silent.get(tag, 0) + 1
            continue
        if tag not in TOP_TAGS:
            continue
        g = g_elem(e, 'top', '', '', False, nsname)
        path = '%s:%s' % (tag, g['cid'] or g['name'])
        out.append((path, e, g))
        if tag in CONTAINERS:
            a0 = g['marked0']
            for m in e['children']:
                mt = m['tag']
                if mt in ('record', 'union'):
                    silent['anonymous-member'] = silent.get('anonymous-member', 0) + 1
                    continue
                if mt in ('method-inline', 'function-inline'):
                    silent[mt] = silent.get(mt, 0) + 1
                    continue
                if mt not in MEMBER_SECTION:
                    continue
                gm = g_elem(m, 'member', g['name'], tag, a0, nsname)
                out.append(('%s/%s:%s' % (path, mt, gm['cid'] or gm['name']), m, gm))
    return ns, out, silent


# ------------------------------------------------------------------------------------------------ projection: typelib side
TRANSFER = {(0, 0): 'none', (0, 1): 'container', (1, 0): 'full', (1, 1): 'both'}
SCOPES = ['invalid', 'call', 'async', 'notified', 'forever']
KIND_WORD = {'struct': 'struct', 'boxed': 'boxed', 'enum': 'enum', 'flags': 'flags', 'object': 'object', 'interface': 'interface',
             'function': 'function', 'callback': 'callback', 'constant': 'constant', 'union': 'union', 'xref': 'xref'}


def b_arg(a):
    d = ('inout' if a['out'] else 'in') if a['in'] else ('out' if a['out'] else 'neither')
    return dict(name=a['name'], direction=d, ca=bool(a['caller_allocates']), transfer=TRANSFER[(a['transfer_ownership'], a['transfer_container_ownership'])],
                nullable=bool(a['nullable']), optional=bool(a['optional']), scope=SCOPES[a['scope']] if a['scope'] < len(SCOPES) else str(a['scope']),
                closure=a['closure'], destroy=a['destroy'], skip=bool(a['skip']))


def b_sig(s):
    return dict(throws=bool(s['throws']), inst='full' if s['instance_transfer_ownership'] else 'none',
                ret=dict(transfer=TRANSFER[(s['caller_owns_return_value'], s['caller_owns_return_container'])], nullable=bool(s['may_return_null']),
                         skip=bool(s['skip_return'])),
                params=[b_arg(a) for a in s['args']])


def _dirname(dec, idx):
    """directory index -> 'Ns.Name' (other namespace) / 'Name' (local) / '' (0 = none)"""
    if not idx or idx > len(dec['directory']):
        return ''
    e = dec['directory'][idx - 1]
    return e['name'] if e['local'] else '%s.%s' % (e['namespace'], e['name'])


def b_blob(dec, owner, blob, section):
    """one decoded blob -> candidate record (kind word, name, symbol, flags in the GIR's words)"""
    k = blob.get('kind', section)
    c = dict(kind=k, name=blob.get('name', ''), symbol=blob.get('symbol', ''), deprecated=bool(blob.get('deprecated', 0)), fl={})
    if k == 'function':
        meths = owner.get('methods', []) if owner else []
        props = owner.get('properties', []) if owner else []
        f = b_sig(blob['signature'])
        f.update(constructor=bool(blob['constructor']), isStatic=bool(blob['is_static']), setter=bool(blob['setter']), getter=bool(blob['getter']),
                 fthrows=bool(blob['throws']),
                 propName=(props[blob['index']]['name'] if (blob['setter'] or blob['getter']) and blob['index'] < len(props) else ''))
        c['fl'] = f
    elif k == 'callback':
        c['fl'] = b_sig(blob['signature'])
    elif k == 'vfunc':
        f = b_sig(blob['signature'])
        meths = owner.get('methods', []) if owner else []
        f.update(invokerName=(meths[blob['invoker']]['name'] if blob['invoker'] < len(meths) else ''), hasInvoker=blob['invoker'] != 0x3ff,
                 fthrows=bool(blob['throws']))
        c['fl'] = f
    elif k == 'signal':
        f = b_sig(blob['signature'])
        w = [n for n, bit in (('first', 'run_first'), ('last', 'run_last'), ('cleanup', 'run_cleanup')) if blob[bit]]
        f.update(when=w[0] if len(w) == 1 else ('none' if not w else 'multi'), noRecurse=bool(blob['no_recurse']), detailed=bool(blob['detailed']),
                 action=bool(blob['action']), noHooks=bool(blob['no_hooks']))
        c['fl'] = f
    elif k == 'property':
        meths = owner.get('methods', []) if owner else []
        c['fl'] = dict(readable=bool(blob['readable']), writable=bool(blob['writable']), construct=bool(blob['construct']),
                       constructOnly=bool(blob['construct_only']), transfer=TRANSFER[(blob['transfer_ownership'], blob['transfer_container_ownership'])],
                       setterName=(meths[blob['setter']]['name'] if blob['setter'] < len(meths) else ''), hasSetter=blob['setter'] != 0x3ff,
                       getterName=(meths[blob['getter']]['name'] if blob['getter'] < len(meths) else ''), hasGetter=blob['getter'] != 0x3ff)
    elif k == 'field':
        c['fl'] = dict(readable=bool(blob['readable']), writable=bool(blob['writable']), bits=blob['bits'], cb='callback' in blob,
                       tag=(tlabs.TAGS[blob['type']['tag']] if 'type' in blob and blob['type']['tag'] < len(tlabs.TAGS) else ''),
                       pointer=bool(blob['type']['pointer']) if 'type' in blob else False)
    elif k == 'value':
        c['fl'] = dict(low32=str(blob['value'] % (1 << 32)), unsignedValue=bool(blob['unsigned_value']))
    elif k == 'constant':
        t = blob['type']
        tag = tlabs.TAGS[t['tag']] if t['simple'] and t['tag'] < len(tlabs.TAGS) else 'complex'
        cls = ('int' if tag in ('gint8', 'guint8', 'gint16', 'guint16', 'gint32', 'guint32', 'gint64', 'guint64', 'gunichar') else
               'bool' if tag == 'gboolean' else 'float' if tag in ('gfloat', 'gdouble') else 'text' if tag in ('utf8', 'filename') else 'other')
        val = blob['value']
        if cls == 'int':                         # the stored bits as an unsigned number of the stored width
            val = str(int.from_bytes(bytes.fromhex(blob['value_hex']), 'little'))
        if tag == 'gfloat' and val:
            val = repr(float(val))
        c['fl'] = dict(value=val, tag=tag, cls=cls, width=str(8 * blob['size']) if cls == 'int' else '0',
                       fit=('s' if tag.startswith('gint') else 'u') + (str(8 * blob['size']) if cls == 'int' else '0'))
    elif k == 'object':
        c['fl'] = dict(parent=_dirname(dec, blob['parent']), abstract=bool(blob['abstract']), final=bool(blob['final']),
                       fundamental=bool(blob['fundamental']), typeName=blob['gtype_name'], getType=blob['gtype_init'],
                       typeStruct=_dirname(dec, blob['gtype_struct']), interfaces=[_dirname(dec, i) for i in blob['interfaces']])
    elif k == 'interface':
        c['fl'] = dict(typeName=blob['gtype_name'], getType=blob['gtype_init'], typeStruct=_dirname(dec, blob['gtype_struct']),
                       prerequisites=[_dirname(dec, i) for i in blob['prerequisites']])
    elif k in ('struct', 'boxed', 'union'):
        c['fl'] = dict(typeName=blob['gtype_name'], getType=blob['gtype_init'], unregistered=bool(blob['unregistered']),
                       foreign=bool(blob.get('foreign', 0)), isGtypeStruct=bool(blob.get('is_gtype_struct', 0)),
                       copyFunc=blob.get('copy_func', ''), freeFunc=blob.get('free_func', ''))
    elif k in ('enum', 'flags'):
        c['fl'] = dict(typeName=blob['gtype_name'], getType=blob['gtype_init'], unregistered=bool(blob['unregistered']),
                       errorDomain=blob['error_domain'], members=[[v['name'], str(v['value'] % (1 << 32))] for v in blob['values']])
    return c


def index_typelib(dec):
    top = {}
    for e in dec['entries']:
        if e.get('kind') == 'xref':
            continue
        top.setdefault(e['name'], []).append(e)
    return top


def candidates(dec, top, g):
    """blobs of the decoded typelib an element could be: same section, named like the element or like its `shadows`
    attribute.  -> (ownerFound, ownerKind, [candidate])"""
    names = [n for n in (g['name'], g['shadows']) if n]
    if g['level'] == 'top':
        out = []
        for n in dict.fromkeys(names):
            out += [b_blob(dec, None, b, '') for b in top.get(n, [])]
        return True, '', out
    owners = top.get(g['owner'], [])
    if not owners:
        return False, '', []
    sec = MEMBER_SECTION[g['tag']]
    out = []
    for o in owners:
        for b in o.get(sec, []):
            if b.get('name') in names:
                out.append(b_blob(dec, o, b, sec[:-1]))
    return True, owners[0].get('kind', ''), out


def owner_names(top, g):
    """names of the methods and properties the container of a member exposes -- only for members that name one
    (setter / getter / invoker / glib:set-property / glib:get-property); reporting: is the named target there at all"""
    fl = g['fl']
    if g['level'] != 'member' or not any(fl.get(k) for k in ('setter', 'getter', 'invoker', 'setProp', 'getProp')):
        return [], []
    ms, ps = [], []
    for o in top.get(g['owner'], []):
        ms += [m['name'] for m in o.get('methods', [])]
        ps += [p['name'] for p in o.get('properties', [])]
    return ms, ps


def doc_record(doc, comp, tree=None, nelems=-1):
    """the document-level observation; without `tree` the GIR is not parsed (intermediate salvage rounds)"""
    dec = comp['decoded']
    flagged = [l for l in comp['lines'] if l['marks']]
    ns = S.namespace_of(tree) if tree is not None else None
    return dict(id=doc['docid'] + '|', kind='doc',
                g=dict(family=doc['family'], ns=_a(ns, 'name') if ns else doc['ns'], version=_a(ns, 'version') if ns else doc['version'], nelems=nelems,
                       includes=[_a(c, 'name') for c in tree['children'] if c['tag'] == 'include'] if tree is not None else [],
                       sharedLibrary=_a(ns, 'shared-library') if ns else ''),
                b=dict(rc=comp['rc'], nlines=len(comp['lines']), flagged=flagged[:6], produced=comp['produced'], decoded=dec is not None,
                       decodeError=comp['decode_error'], revalidated=comp['revalidated'],
                       ns=(dec['header']['namespace'] if dec else ''), version=(dec['header']['nsversion'] if dec else ''),
                       nlocal=(dec['header']['n_local_entries'] if dec else -1)))


def project(doc, comp):
    """-> (observation records, summary for samples/notes)"""
    tree = S.girabs(doc['gir'])
    ns, elems, silent = gir_elements(tree)
    dec = comp['decoded']
    obs = [doc_record(doc, comp, tree, len(elems))]
    if dec is not None:
        top = index_typelib(dec)
        for path, e, g in elems:
            of, ok, cands = candidates(dec, top, g)
            ms, ps = owner_names(top, g)
            obs.append(dict(id='%s|%s' % (doc['docid'], path), kind='elem', g=g,
                            b=dict(ownerFound=of, ownerKind=ok, cands=cands, ownerMethods=ms, ownerProps=ps)))
    return obs, dict(silent=silent, nelems=len(elems))


# ------------------------------------------------------------------------------------------------ message classes
_MSG_SUBS = [(r'^\S*?[\w.+-]+\.gir:(-?\d+(:\d+)?:)?\s*', ''), (r'\(g-ir-compiler:\d+\):?\s*', ''), (r'\d\d:\d\d:\d\d\.\d+:?\s*', ''),
             (r'^error parsing file \S+:\s*', ''), (r'Line \d+, character \d+:\s*', ''), (r'^In [^:]*:\s*', ''), (r'^\*\*\s*', ''),
             (r"(reference|resolve type|value for \S+:) '[^']*'", r"\1 '*'"), (r'parent=\S+', 'parent=*'),
             (r'(member function|setter|getter|accessor|vfunc|property) [\w:.-]+', r'\1 *'), (r'for field \S+', 'for field *'),
             (r'girparser\.c:\d+', 'girparser.c'), (r'/\S+/girepository/', ''), (r'\s+', ' ')]


def msgclass(comp):
    """reporting only: the first flagged output line with names, positions, pids and times masked ('' = none);
    an unsuccessful run without such a line is classed by its exit status"""
    fl = [l for l in comp['lines'] if l['marks']]
    if not fl:
        return '' if comp['rc'] == 0 else 'exit status %d without a message' % comp['rc']
    t = fl[0]['text']
    for a, b in _MSG_SUBS:
        t = re.sub(a, b, t)
    return t.strip()[:120]


def msgexact(comp):
    """the first flagged line with only positions, pids and times masked: what a reduction has to preserve"""
    fl = [l for l in comp['lines'] if l['marks']]
    if not fl:
        return 'rc=%d' % comp['rc']
    t = fl[0]['text']
    for a, b in _MSG_SUBS[:7] + _MSG_SUBS[-3:]:
        t = re.sub(a, b, t)
    return t.strip()


def failing(comp):
    """reporting/salvage only (no verdict): did this run produce anything the doc clauses could object to"""
    return comp['rc'] != 0 or any(l['marks'] for l in comp['lines']) or comp['decoded'] is None


def _key(el):
    return (el.tag, el.get('name') or el.get('{http://www.gtk.org/introspection/glib/1.0}name') or '',
            el.get('{http://www.gtk.org/introspection/c/1.0}identifier') or el.get('{http://www.gtk.org/introspection/c/1.0}type') or '')


_REF_ATTRS = ('name', 'parent', '{http://www.gtk.org/introspection/glib/1.0}type-struct',
              '{http://www.gtk.org/introspection/glib/1.0}is-gtype-struct-for')
_UNITS = tuple('{%s}%s' % (_u, t) for _u, t in (
    ('http://www.gtk.org/introspection/core/1.0', 'field'), ('http://www.gtk.org/introspection/core/1.0', 'method'),
    ('http://www.gtk.org/introspection/core/1.0', 'constructor'), ('http://www.gtk.org/introspection/core/1.0', 'function'),
    ('http://www.gtk.org/introspection/core/1.0', 'virtual-method'), ('http://www.gtk.org/introspection/core/1.0', 'property'),
    ('http://www.gtk.org/introspection/glib/1.0', 'signal'), ('http://www.gtk.org/introspection/core/1.0', 'record'),
    ('http://www.gtk.org/introspection/core/1.0', 'union'), ('http://www.gtk.org/introspection/core/1.0', 'member'),
    ('http://www.gtk.org/introspection/core/1.0', 'attribute')))


def remove_culprit(gir_text, reduced_text):
    """take out of a document what a reduced failing document still contains: the member-level units (fields, methods,
    virtual methods, properties, signals, nested records/unions, members, attributes of an alias) of the top-level elements
    that survive in the reduction, or -- when none is left inside -- the top-level elements themselves, followed by
    everything that refers to a removed top-level name.  Salvage aid: what remains is judged element by element."""
    root = ET.fromstring(gir_text.encode('utf-8'))
    red = ET.fromstring(reduced_text.encode('utf-8'))
    ns, rns = root.find('{%s}namespace' % _CORE), red.find('{%s}namespace' % _CORE)
    bykey = {}
    for ch in ns:
        bykey.setdefault(_key(ch), ch)
    removed_names, did = set(), False
    tops = [(rt, bykey.get(_key(rt))) for rt in rns]
    units = []
    for rt, t in tops:
        if t is None:
            continue
        for ru in rt:
            if ru.tag in _UNITS:
                for u in t:
                    if _key(u) == _key(ru):
                        units.append((t, u))
                        break
    if units:
        for t, u in units:
            t.remove(u)
            did = True
    else:
        for rt, t in tops:
            if t is not None:
                ns.remove(t)
                removed_names.add(_key(t)[1])
                did = True
    while removed_names:                        # cascade: whoever names a removed element goes as well
        more = set()
        for ch in list(ns):
            if any(d.get(a) in removed_names for d in ch.iter() for a in _REF_ATTRS if d is not ch or a != 'name'):
                ns.remove(ch)
                more.add(_key(ch)[1])
        removed_names = more - {''}
    return ET.tostring(root, encoding='unicode') if did else None


def position_of(comp):
    """line number the first flagged line points at (g-ir-compiler prints <file>.gir:LINE:COL: for what its XML parser
    callbacks object to; -1 or nothing for what is found later)"""
    fl = [l for l in comp['lines'] if l['marks']]
    if not fl:
        return 0
    m = re.search(r'\.gir:(\d+):(\d+):', fl[0]['text']) or re.search(r'\.gir: Line (\d+), character (\d+):', fl[0]['text'])
    if not m:
        return 0
    # GMarkup reports where it stands when the callback returns: behind the start tag; column 1 = already on the next line
    return int(m.group(1)) - (1 if int(m.group(2)) <= 1 else 0)


def _lname(tag):
    return tag.split('}')[-1]


def where_of(chain):
    """reporting only: the place a message points at, as the tag path below the namespace with the attributes that
    tell kinds of failing input apart (skip="1", introspectable="0", a <type> without name)"""
    out = []
    for el in chain:
        t = _lname(el.tag)
        marks = []
        if el.get('skip') == '1':
            marks.append('skip')
        if el.get('introspectable') == '0':
            marks.append('introspectable=0')
        if t == 'type' and el.get('name') is None:
            marks.append('no name')
        if t in ('record', 'union') and el.get('name') is None:
            marks.append('anonymous')
        out.append(t + ('[%s]' % ','.join(marks) if marks else ''))
    return '/'.join(out)


def where_of_reduced(reduced_text):
    """the same for a reduced document: the path to its first leaf"""
    try:
        root = ET.fromstring(reduced_text.encode('utf-8'))
    except ET.ParseError:
        return ''
    ns = root.find('{%s}namespace' % _CORE)
    chain, cur = [], ns
    while cur is not None and len(cur):
        kids = [c for c in cur if c.tag not in _DOC_TAGS]
        if not kids:
            break
        cur = kids[0]
        chain.append(cur)
    return where_of(chain)


def entry_of(comp):
    """the top-level entry _g_ir_module_fatal says it was building ("<Ns>-<ver>.gir:-1: In Entry.member: error: ...")"""
    fl = [l for l in comp['lines'] if l['marks']]
    m = re.search(r'\.gir:[^ ]* In ([^.: ]+)[^:]*: error:', fl[0]['text']) if fl else None
    return m.group(1) if m else ''


def remove_entry(gir_text, name):
    """salvage without a reduction: take out the namespace child called `name` (and what refers to it)"""
    root = ET.fromstring(gir_text.encode('utf-8'))
    ns = root.find('{%s}namespace' % _CORE)
    tops = [ch for ch in ns if (ch.get('name') or ch.get('{http://www.gtk.org/introspection/glib/1.0}name')) == name
            and ch.get('introspectable') != '0' and ch.tag != '{%s}alias' % _CORE]
    if len(tops) != 1:
        return None, '', ''
    kids = [c for c in tops[0] if c.tag not in _DOC_TAGS]
    where = where_of([tops[0]] + ([kids[0]] if len(kids) == 1 else []))
    snippet = re.sub(r' xmlns(:\w+)?="[^"]*"', '', strip_docs(ET.tostring(tops[0], encoding='unicode')))[:1500]
    reduced = ET.Element(root.tag)
    rns = ET.SubElement(reduced, ns.tag, ns.attrib)
    ET.SubElement(rns, tops[0].tag, tops[0].attrib)
    return remove_culprit(gir_text, ET.tostring(reduced, encoding='unicode')), snippet, where


def remove_at_line(gir_text, line):
    """salvage without a reduction: take out the unit (member-level element, or namespace child) that contains the last
    element starting at or before `line`.  -> (new text or None, what the message points at)"""
    import xml.parsers.expat
    starts = []            # (line, path of child indices)
    path, counts = [], [0]

    def start(name, attrs):
        path.append(counts[-1])
        counts[-1] += 1
        counts.append(0)
        if name.split(':')[-1] not in ('doc', 'doc-version', 'doc-deprecated', 'doc-stability', 'source-position'):
            starts.append((parser.CurrentLineNumber, tuple(path)))

    def end(name):
        path.pop()
        counts.pop()
    parser = xml.parsers.expat.ParserCreate()
    parser.StartElementHandler, parser.EndElementHandler = start, end
    try:
        parser.Parse(gir_text.encode('utf-8'), True)
    except xml.parsers.expat.ExpatError:
        return None, '', ''
    cands = [p for (ln, p) in starts if ln <= line]
    if not cands:
        return None, '', ''
    tgt = cands[-1]
    root = ET.fromstring(gir_text.encode('utf-8'))
    chain = [root]
    for idx in tgt[1:]:
        chain.append(list(chain[-1])[idx])
    ns = root.find('{%s}namespace' % _CORE)
    if ns not in chain or chain[-1] is ns:
        return None, '', ''
    k = chain.index(ns)
    unit = None
    for j in range(len(chain) - 1, k + 1, -1):          # deepest member-level unit below a namespace child
        if chain[j].tag in _UNITS:
            unit = j
            break
    # what is shown: the path from the namespace child down to the element the message points at, siblings left out
    shown = None
    for el in reversed(chain[k + 1:]):
        cp = ET.Element(el.tag, el.attrib)
        if shown is None:
            for ch in el:
                if ch.tag not in _DOC_TAGS and len(cp) < 12:
                    cp.append(ch)
        else:
            cp.append(shown)
        shown = cp
    snippet = re.sub(r' xmlns(:\w+)?="[^"]*"', '', strip_docs(ET.tostring(shown, encoding='unicode')))
    where = where_of(chain[k + 1:])
    if unit is not None:
        chain[unit - 1].remove(chain[unit])
        return ET.tostring(root, encoding='unicode'), snippet, where
    top = chain[k + 1]
    reduced = ET.Element(root.tag)
    rns = ET.SubElement(reduced, ns.tag, ns.attrib)
    # a childless copy of the namespace child: remove_culprit then drops that top-level element and its referrers
    ET.SubElement(rns, top.tag, top.attrib)
    return remove_culprit(gir_text, ET.tostring(reduced, encoding='unicode')), snippet, where


def observe(doc, compiler, workdir, incdirs, validator=None, max_rounds=12, max_runs=250, budget=None):
    """one scanner output -> observation records.  Round 0 is the document as the scanner wrote it.  When the compiler
    objects, the failing part is isolated (reduce_gir), reported with the round's doc record (b.snippet), taken out, and the
    rest is compiled again (round r: a DERIVED document, g.derived = TRUE) until the compiler is content or max_rounds;
    the elements of the last round are judged one by one.  budget: [compiler runs left for reductions] shared by the documents
    of a work unit (a tree that breaks everything must not take hours: without budget the salvage stops, the record stays)."""
    obs, notes = [], []
    budget = budget if budget is not None else [10 ** 9]
    cur = doc
    for rnd in range(max_rounds + 1):
        comp = compile_doc(compiler, workdir, cur, incdirs, validator)
        last = not failing(comp) or rnd == max_rounds
        if not last and rnd > 0 and budget[0] <= 0 and position_of(comp) <= 0 and not entry_of(comp):
            last = True
        recs = project(cur, comp)[0] if last else [doc_record(cur, comp)]       # the elements are projected once, at the end
        recs[0]['g']['derived'] = rnd > 0
        recs[0]['g']['round'] = rnd
        recs[0]['b']['msgclass'] = msgclass(comp)
        recs[0]['b']['snippet'] = ''
        recs[0]['b']['where'] = ''
        recs[0]['id'] = '%s|%s' % (doc['docid'], ('#%d' % rnd) if rnd else '')
        if last:
            obs += recs
            break
        cls = msgclass(comp)
        line = position_of(comp)
        rest = None
        if line > 0:                                        # the XML callbacks say where: no reduction needed
            rest, recs[0]['b']['snippet'], recs[0]['b']['where'] = remove_at_line(cur['gir'], line)
        else:
            top = entry_of(comp)                            # _g_ir_module_fatal names the entry being built
            if top:
                rest, recs[0]['b']['snippet'], recs[0]['b']['where'] = remove_entry(cur['gir'], top)
        if rest is None:
            # what the reduction has to preserve: the first objection (a later one is the business of the next round)
            want = msgexact(comp)

            def still(text, _cur=cur):
                c2 = compile_doc(compiler, workdir, dict(_cur, gir=text), incdirs, None)
                return msgexact(c2) == want
            if budget[0] <= 0:
                notes.append('%s: reduction budget of the work unit used up, %s not isolated' % (doc['docid'], cls))
                obs += recs
                break
            runs0 = [0]

            def counted(text, _still=still):
                runs0[0] += 1
                return _still(text)
            try:
                red = reduce_gir(cur['gir'], counted, max_runs=min(max_runs, budget[0]))
                budget[0] -= runs0[0]
            except ET.ParseError as e:
                notes.append('%s: cannot reduce (%s)' % (doc['docid'], e))
                obs += recs
                break
            recs[0]['b']['snippet'] = strip_docs(red)[:3000]
            # (no place: a reduction may end at any of several minimal documents)
            rest = remove_culprit(cur['gir'], red)
        obs.append(recs[0])
        if rest is None:
            obs += recs[1:]
            break
        cur = dict(cur, gir=rest)
    return obs, notes


def strip_docs(text):
    text = re.sub(r'<(doc|doc-version|doc-deprecated|doc-stability)\b[^>]*?(/>|>.*?</\1>)\s*', '', text, flags=re.S)
    text = re.sub(r'<source-position\b[^>]*/>\s*', '', text)
    m = re.search(r'<namespace\b', text)
    return text[m.start():] if m else text


# ------------------------------------------------------------------------------------------------ reduction of a failing document
import xml.etree.ElementTree as ET
_CORE = 'http://www.gtk.org/introspection/core/1.0'
for _p, _u in (('', _CORE), ('c', 'http://www.gtk.org/introspection/c/1.0'), ('glib', 'http://www.gtk.org/introspection/glib/1.0'),
               ('doc', 'http://www.gtk.org/introspection/doc/1.0')):
    ET.register_namespace(_p, _u)


_DOC_TAGS = tuple('{%s}%s' % (_CORE, t) for t in ('doc', 'doc-version', 'doc-deprecated', 'doc-stability', 'source-position'))


def reduce_gir(gir_text, still_fails, max_runs=400):
    """greedy removal of namespace children, then of their descendants, while still_fails(text) holds (reporting aid:
    the GIR snippet of a violation).  Never used to form a verdict."""
    root = ET.fromstring(gir_text.encode('utf-8'))
    ns = root.find('{%s}namespace' % _CORE)
    runs = [0]
    # 0. documentation and source positions in one go (the compiler skips them)
    saved = []
    for parent in list(ns.iter()):
        for ch in list(parent):
            if ch.tag in _DOC_TAGS:
                saved.append((parent, list(parent).index(ch), ch))
                parent.remove(ch)
    if saved:
        runs[0] += 1
        if not still_fails(ET.tostring(root, encoding='unicode')):
            for parent, idx, ch in reversed(saved):
                parent.insert(idx, ch)

    def text():
        return ET.tostring(root, encoding='unicode')

    def attempt(parent, ch):
        if runs[0] >= max_runs:
            return False
        runs[0] += 1
        idx = list(parent).index(ch)
        parent.remove(ch)
        if still_fails(text()):
            return True
        parent.insert(idx, ch)
        return False

    # 1. delta debugging over the namespace children: drop chunks of halving size
    size = max(1, len(ns) // 2)
    while size >= 1 and runs[0] < max_runs:
        i = 0
        while i < len(ns) and runs[0] < max_runs:
            kids = list(ns)
            chunk = kids[i:i + size]
            for ch in chunk:
                ns.remove(ch)
            runs[0] += 1
            if chunk and still_fails(text()):
                continue                       # stays removed; same i now names the next chunk
            for j, ch in enumerate(chunk):
                ns.insert(i + j, ch)
            i += size
        size //= 2
    # 2. descendants, level by level (a removed child takes its subtree along)
    def descend(node):
        for ch in list(node):
            if runs[0] >= max_runs:
                return
            if not attempt(node, ch):
                descend(ch)
    descend(ns)
    return text()

"""C12 helper: abstract "worlds" (scanned declarations x runtime GType registry) -> raw symbols,
an emulation of the introspection binary (the XML document girepository/gdump.c writes for the
functions the scanner asks about), and the projection of the emitted GIR into the vocabulary of
tla/GDump.tla.  No verdicts here: rendering and projecting only.

World schema (identical to the records of tla/GDump.tla; every record of one list has the same fields)
  decls : [ {k, c, n, us, base, ret, np, first, fields:[{n, k, first}]} ]
            k = struct | union | opaque | enum | flags | fn | callback
            c = C name (FooObj, foo_obj_get_type), n = expected GIR name (Obj, obj_get_type)
            us = lower-case underscored form of n for types ("obj", "my_error")
            fn only:  base/shape: c = "foo_" + base + shape suffix; ret = GType|GQuark|gint; np = number of parameters
            callback only: first = C type of the first parameter ("" = no parameters)
            fields (struct/union): k = data | fp | cb ; fp: first = C type of the first parameter ("" none);
                                   cb: first = name of a callback typedef ; data: first = C type of the member
  reg   : [ {k, gt, n, us, fn, parents:[gt], abstract, final, inst, ifaces:[gt], props:[..], sigs:[..]} ]
            k = class | interface | boxed | pointer | enum | flags | fundamental ;  the library's GType registry
            props: {name, ty, lo, hi, hasDef, def}   flags word = hi * 65536 + lo (unsigned 32 bit)
            sigs : {name, ret, when, norec, det, act, nohooks, params:[ty]}   when "" = no run flag
  quarks: [ {fn, domain} ]
  ext   : [ {gt, gir} ]     GType names registered by the included namespaces -> qualified GIR name
  ann   : [ {c, k, v} ]     type-level annotations in comment blocks (ref-func & co.)
"""
import re
from xml.sax.saxutils import escape as _xesc

SHAPES = {'get_type': '_get_type', 'get_gtype': '_get_gtype', 'error_quark': '_error_quark', 'quark': '_quark', 'other': ''}

# GType names registered by harness/data/gir/{GLib,GObject,Gio}-2.0.gir  (read off those files)
EXT = [dict(gt='GObject', gir='GObject.Object'), dict(gt='GInitiallyUnowned', gir='GObject.InitiallyUnowned'),
       dict(gt='GParam', gir='GObject.ParamSpec'), dict(gt='GValue', gir='GObject.Value'), dict(gt='GClosure', gir='GObject.Closure'),
       dict(gt='GAsyncResult', gir='Gio.AsyncResult'), dict(gt='GCancellable', gir='Gio.Cancellable'),
       dict(gt='GBytes', gir='GLib.Bytes'), dict(gt='GError', gir='GLib.Error'), dict(gt='GVariant', gir='GLib.Variant'),
       dict(gt='GVariantType', gir='GLib.VariantType'), dict(gt='GMainContext', gir='GLib.MainContext')]


def us_of(camel):
    return re.sub(r'(?<!^)([A-Z])', r'_\1', camel).lower()


# ------------------------------------------------------------------ world constructors (used by the random generator and tests)
def D(k, c, n='', us='', base='', shape='other', ret='', np=0, first='', fields=()):
    return dict(k=k, c=c, n=n, us=us, base=base, shape=shape, ret=ret, np=np, first=first, fields=[dict(f) for f in fields])


def F(n, k, first=''):
    return dict(n=n, k=k, first=first)


def d_type(k, n, fields=()):
    return D(k, 'Foo' + n, n=n, us=us_of(n), fields=fields)


def d_fn(base, shape, ret, np=0, hidden=False):
    c = ('_' if hidden else '') + 'foo_' + base + SHAPES[shape]
    return D('fn', c, n=base + SHAPES[shape], base=base, shape=shape, ret=ret, np=np)


def R(k, n, fn=None, parents=(), abstract=False, final=False, inst=False, ifaces=(), props=(), sigs=(), us=None):
    return dict(k=k, gt='Foo' + n, n=n, us=us or us_of(n), fn=fn or ('foo_' + us_of(n) + '_get_type'), parents=list(parents),
                abstract=abstract, final=final, inst=inst, ifaces=list(ifaces), props=[dict(p) for p in props],
                sigs=[dict(s) for s in sigs])


def P(name, ty, word, default=None):
    word &= 0xffffffff
    return dict(name=name, ty=ty, lo=word & 0xffff, hi=word >> 16, hasDef=default is not None, **{'def': default or ''})


def SG(name, ret='void', when='last', norec=False, det=False, act=False, nohooks=False, params=()):
    return dict(name=name, ret=ret, when=when, norec=norec, det=det, act=act, nohooks=nohooks, params=list(params))


def world(decls, reg, quarks=(), ann=()):
    return dict(decls=list(decls), reg=list(reg), quarks=[dict(q) for q in quarks], ext=[dict(e) for e in EXT],
                ann=[dict(a) for a in ann])


# ------------------------------------------------------------------ (a) world -> raw symbols + comment blocks
def _params_for(first):
    if first == '':
        return []
    if first[0].islower():                 # a basic/GLib scalar type passed by value
        return [(first, 'a')]
    return [(first + ' *', 'self'), ('int', 'x')]


def render_symbols(S, w):
    syms = []
    for d in w['decls']:
        k = d['k']
        if k in ('struct', 'union'):
            fields = []
            for f in d['fields']:
                if f['k'] == 'fp':
                    fields.append(S.member(S.funcptr('void', _params_for(f['first'])), f['n']))
                else:
                    fields.append(S.member(f['first'] or 'int', f['n']))
            syms.append(S.typedef_struct(d['c'], '_' + d['c'], union=(k == 'union')))
            syms.append(S.struct_def('_' + d['c'], fields, union=(k == 'union')))
        elif k == 'opaque':
            syms.append(S.typedef_struct(d['c'], '_' + d['c']))
        elif k in ('enum', 'flags'):
            up = 'FOO_' + d['us'].upper()
            vals = (1, 2) if k == 'flags' else (0, 1)
            syms.append(S.typedef_enum(d['c'], [(up + '_A', vals[0]), (up + '_B', vals[1])], bitfield=(k == 'flags')))
        elif k == 'fn':
            syms.append(S.function(d['c'], d['ret'], [('int', 'x%d' % i) for i in range(d['np'])]))
        elif k == 'callback':
            syms.append(S.callback(d['c'], 'void', _params_for(d['first'])))
        else:
            raise ValueError('unknown decl kind %r' % k)
    for i, s in enumerate(syms):
        s.line = i + 1
    blocks = {}
    for a in w['ann']:
        blocks.setdefault(a['c'], []).append('(%s %s)' % (a['k'], a['v']))
    comments = [('/**\n * %s: %s\n */' % (c, ' '.join(v)), '/src/foo.c', 10 * (i + 1)) for i, (c, v) in enumerate(sorted(blocks.items()))]
    return syms, comments


# ------------------------------------------------------------------ (b) the introspection binary, emulated
def _e(s):
    """g_markup_vprintf_escaped for attribute values"""
    return _xesc(s, {'"': '&quot;', "'": '&apos;'})


def flags_text(p):
    word = p['hi'] * 65536 + p['lo']
    return str(word - (1 << 32) if word >= (1 << 31) else word)         # "%d" of a 32-bit GParamFlags


def render_dump(w, asked, asked_quarks):
    """The document gdump.c (g_irepository_dump / dump_type / dump_error_quark) writes when the input file lists
    `asked` as get-type: lines and `asked_quarks` as error-quark: lines.  Returns (xml, reported reg entries,
    reported quarks) or raises LookupError where the real binary would fail (symbol not in the library)."""
    by_fn = {}
    for t in w['reg']:
        by_fn.setdefault(t['fn'], t)
    qby = {q['fn']: q for q in w['quarks']}
    out = ['<?xml version="1.0"?>\n', '<dump>\n']
    seen, rep, repq = set(), [], []
    for fn in asked:
        if fn not in by_fn:
            raise LookupError('Invalid GType function: ' + fn)
        t = by_fn[fn]
        if t['gt'] in seen:               # output_types hash table: a GType is dumped once
            continue
        seen.add(t['gt'])
        k = t['k']
        if k == 'interface':              # G_TYPE_OBJECT as a prerequisite is implicit: not reported
            t = dict(t, ifaces=[i for i in t['ifaces'] if i != 'GObject'])
        rep.append(t)
        if k in ('class', 'fundamental'):
            o = '  <%s name="%s" get-type="%s"' % (k, _e(t['gt']), _e(fn))
            ab = ' abstract="1"' if t['abstract'] else ''
            fi = ' final="1"' if t['final'] else ''
            par = ','.join(t['parents'])
            if k == 'class':
                if t['gt'] != 'GObject':
                    o += ' parents="%s"' % _e(par)
                o += ab + fi
            else:
                o += ab + fi + (' instantiatable="1"' if t['inst'] else '')
                if par:
                    o += ' parents="%s"' % _e(par)
            out.append(o + '>\n')
            for i in t['ifaces']:
                out.append('    <implements name="%s"/>\n' % _e(i))
            if k == 'class':
                out += _props_sigs(t)
            out.append('  </%s>\n' % k)
        elif k == 'interface':
            out.append('  <interface name="%s" get-type="%s">\n' % (_e(t['gt']), _e(fn)))
            for i in t['ifaces']:
                out.append('    <prerequisite name="%s"/>\n' % _e(i))
            out += _props_sigs(t)
            out.append('  </interface>\n')
        elif k in ('boxed', 'pointer'):
            out.append('  <%s name="%s" get-type="%s"/>\n' % (k, _e(t['gt']), _e(fn)))
        elif k in ('enum', 'flags'):
            out.append('  <%s name="%s" get-type="%s">\n' % (k, _e(t['gt']), _e(fn)))
            up = 'FOO_' + t['us'].upper()
            vals = (1, 2) if k == 'flags' else (0, 1)
            for nick, v in zip('ab', vals):
                out.append('    <member name="%s_%s" nick="%s" value="%d"/>\n' % (up, nick.upper(), nick, v))
            out.append('  </flags>\n' if k == 'flags' else '  </enum>')
        else:
            raise ValueError(k)
    for fn in asked_quarks:
        if fn not in qby:
            raise LookupError('Invalid error quark function: ' + fn)
        repq.append(qby[fn])
        out.append('  <error-quark function="%s" domain="%s"/>\n' % (_e(fn), _e(qby[fn]['domain'])))
    out.append('</dump>\n')
    return ''.join(out), rep, repq


def _props_sigs(t):
    out = []
    for p in t['props']:
        if p['hasDef']:
            out.append('    <property name="%s" type="%s" flags="%s" default-value="%s"/>\n' % (
                _e(p['name']), _e(p['ty']), flags_text(p), _e(p['def'])))
        else:
            out.append('    <property name="%s" type="%s" flags="%s"/>\n' % (_e(p['name']), _e(p['ty']), flags_text(p)))
    for s in t['sigs']:
        o = '    <signal name="%s" return="%s"' % (_e(s['name']), _e(s['ret']))
        if s['when']:
            o += ' when="%s"' % _e(s['when'])
        for key, attr in (('norec', 'no-recurse'), ('det', 'detailed'), ('act', 'action'), ('nohooks', 'no-hooks')):
            if s[key]:
                o += ' %s="1"' % attr
        out.append(o + '>\n')
        for ty in s['params']:
            out.append('      <param type="%s"/>\n' % _e(ty))
        out.append('    </signal>\n')
    return out


# element / attribute names the renderer above uses, per element; compared with the format strings of the real
# gdump.c at run time (drift of the producer's format = machinery failure, not a verdict)
RENDER_VOCAB = {
    'dump': [], 'class': ['name', 'get-type', 'parents', 'abstract', 'final'],
    'fundamental': ['name', 'get-type', 'abstract', 'final', 'instantiatable', 'parents'],
    'interface': ['name', 'get-type'], 'implements': ['name'], 'prerequisite': ['name'], 'boxed': ['name', 'get-type'],
    'pointer': ['name', 'get-type'], 'enum': ['name', 'get-type'], 'flags': ['name', 'get-type'],
    'member': ['name', 'nick', 'value'], 'property': ['name', 'type', 'flags', 'default-value'],
    'signal': ['name', 'return', 'when', 'no-recurse', 'detailed', 'action', 'no-hooks'], 'param': ['type'],
    'error-quark': ['function', 'domain']}

GOLDEN_WORLD = None     # set below
GOLDEN_DUMP = '''<?xml version="1.0"?>
<dump>
  <class name="FooObj" get-type="foo_obj_get_type" parents="FooHid,GInitiallyUnowned,GObject" abstract="1">
    <implements name="FooIfc"/>
    <property name="p-a" type="gint" flags="227" default-value="0"/>
    <property name="p-b" type="FooBx" flags="-2147483646"/>
    <signal name="sig-a" return="gboolean" when="last" no-recurse="1" detailed="1" action="1" no-hooks="1">
      <param type="gint"/>
      <param type="FooObj"/>
    </signal>
  </class>
  <interface name="FooIfc" get-type="foo_ifc_get_type">
    <prerequisite name="FooObj"/>
    <signal name="isig" return="void" when="first">
    </signal>
  </interface>
  <boxed name="FooBx" get-type="foo_bx_get_type"/>
  <pointer name="FooPt" get-type="foo_pt_get_type"/>
  <enum name="FooMyError" get-type="foo_my_error_get_type">
    <member name="FOO_MY_ERROR_A" nick="a" value="0"/>
    <member name="FOO_MY_ERROR_B" nick="b" value="1"/>
  </enum>  <flags name="FooFl" get-type="foo_fl_get_type">
    <member name="FOO_FL_A" nick="a" value="1"/>
    <member name="FOO_FL_B" nick="b" value="2"/>
  </flags>
  <fundamental name="FooFd" get-type="foo_fd_get_type" final="1" instantiatable="1" parents="FooFdBase">
    <implements name="FooIfc"/>
  </fundamental>
  <error-quark function="foo_my_error_quark" domain="foo-my-error-quark"/>
</dump>
'''


def golden_world():
    reg = [R('class', 'Obj', parents=['FooHid', 'GInitiallyUnowned', 'GObject'], abstract=True, ifaces=['FooIfc'],
             props=[P('p-a', 'gint', 227, '0'), P('p-b', 'FooBx', 0x80000002)],
             sigs=[SG('sig-a', 'gboolean', 'last', True, True, True, True, ['gint', 'FooObj'])]),
           R('interface', 'Ifc', ifaces=['GObject', 'FooObj'], sigs=[SG('isig', 'void', 'first')]),
           R('boxed', 'Bx'), R('pointer', 'Pt'), R('enum', 'MyError'), R('flags', 'Fl'),
           R('fundamental', 'Fd', final=True, inst=True, parents=['FooFdBase'], ifaces=['FooIfc'])]
    return world([], reg, quarks=[dict(fn='foo_my_error_quark', domain='foo-my-error-quark')])


def check_producer_format(repo):
    """Pin the renderer: (1) it reproduces the embedded golden document; (2) every element/attribute name it writes
    occurs in a format string of the current girepository/gdump.c (and gdump.c writes no element the renderer
    does not know).  Returns a list of problems (empty = fine)."""
    import os
    problems = []
    w = golden_world()
    xml, _, _ = render_dump(w, [t['fn'] for t in w['reg']], ['foo_my_error_quark'])
    if xml != GOLDEN_DUMP:
        problems.append('renderer no longer reproduces the golden dump document')
    src = open(os.path.join(repo, 'girepository', 'gdump.c'), encoding='utf-8').read()
    strings = re.findall(r'"((?:[^"\\]|\\.)*)"', src)
    tags, attrs = set(), set()
    for s in strings:
        s = s.replace('\\"', '"').replace('\\n', '\n')
        tags |= set(re.findall(r'<([a-z][a-z-]*)', s))
        attrs |= set(re.findall(r' ([a-z][a-z-]*)="', s))
    tags.discard('xml')
    attrs.discard('version')
    mine_t = set(RENDER_VOCAB)
    mine_a = {a for v in RENDER_VOCAB.values() for a in v}
    if tags != mine_t:
        problems.append('gdump.c elements %s differ from the renderer\'s %s' % (sorted(tags ^ mine_t), 'vocabulary'))
    if attrs != mine_a:
        problems.append('gdump.c attributes %s differ from the renderer\'s vocabulary' % sorted(attrs ^ mine_a))
    return problems


# ------------------------------------------------------------------ run one world through the real scanner
def run_world(S, w):
    """-> dict(asked, askedQ, dump (reported reg entries), dumpQ, xml or None, crashed (exception class name or ''))"""
    import xml.etree.ElementTree as ET
    from giscanner import ast, message
    from giscanner.transformer import Transformer
    from giscanner.maintransformer import MainTransformer
    from giscanner.introspectablepass import IntrospectablePass
    from giscanner.annotationparser import GtkDocCommentBlockParser
    from giscanner.girwriter import GIRWriter
    from giscanner.gdumpparser import GDumpParser
    from giscanner.sourcescanner import SourceSymbol

    syms, comments = render_symbols(S, w)
    ns = ast.Namespace('Foo', '1.0', identifier_prefixes=['Foo'], symbol_prefixes=['foo'])
    message.MessageLogger._instance = None
    logger = S.RecordingLogger(ns)
    message.MessageLogger._instance = logger
    res = dict(asked=[], askedQ=[], dump=[], dumpQ=[], xml=None, crashed='', log=[])
    try:
        tr = Transformer(ns)
        for dn, dns in S.dep_namespaces(('GLib', 'GObject', 'Gio')).items():
            ns.includes.add(ast.Include(dn, dns.version))
            tr._parsed_includes[dn] = dns
        blocks = GtkDocCommentBlockParser().parse_comment_blocks(list(comments))
        tr.parse([SourceSymbol(None, s) for s in syms])
        gd = GDumpParser(tr)
        gd.init_parse()
        res['asked'] = list(gd.get_get_type_functions())
        res['askedQ'] = list(gd.get_error_quark_functions())
        xml, rep, repq = render_dump(w, res['asked'], res['askedQ'])
        res['dump'], res['dumpQ'], res['dump_xml'] = rep, repq, xml
        gd._execute_binary_get_tree = lambda: ET.ElementTree(ET.fromstring(xml))
        gd.set_introspection_binary('emulated')
        gd.parse()
        MainTransformer(tr, blocks).transform()
        IntrospectablePass(tr, blocks).validate()
        res['xml'] = GIRWriter(ns, ['/src']).get_encoded_xml().decode('utf-8')
    except LookupError as e:
        res['crashed'] = 'binary:' + str(e)
    except (Exception, SystemExit) as e:
        res['crashed'] = type(e).__name__
        res['exc'] = repr(e)[:300]
    res['log'] = [r['text'] for r in logger.records][:20]
    message.MessageLogger._instance = None
    return res


# ------------------------------------------------------------------ (c) GIR -> projection
def _tyname(S, node):
    t = S.child(node, 'type')
    if t is not None:
        return t['attrs'].get('name', '')
    a = S.child(node, 'array')
    if a is not None:
        return a['attrs'].get('name') or ('array:' + _tyname(S, a))
    return ''


def _fns(S, node):
    out = []
    for tag in ('function', 'method', 'constructor'):
        out += [c['attrs'].get('c:identifier', '') for c in S.children(node, tag)]
    return out


EMPTY_G = dict(classes=[], records=[], boxed=[], enums=[], functions=[])


def project(S, xml):
    ns = S.namespace_of(S.girabs(xml))
    g = dict(classes=[], records=[], boxed=[], enums=[], functions=[])
    for e in ns['children']:
        a, tag = e['attrs'], e['tag']
        if tag in ('class', 'interface'):
            props = []
            for p in S.children(e, 'property'):
                pa = p['attrs']
                props.append(dict(name=pa.get('name', ''), readable=pa.get('readable', '1') != '0', writable=pa.get('writable') == '1',
                                  construct=pa.get('construct') == '1', constructOnly=pa.get('construct-only') == '1',
                                  ty=_tyname(S, p), hasDef='default-value' in pa, **{'def': pa.get('default-value', '')}))
            sigs = []
            for s in S.children(e, 'glib:signal'):
                sa = s['attrs']
                rv = S.child(s, 'return-value')
                ps = S.child(s, 'parameters')
                sigs.append(dict(name=sa.get('name', ''), when=sa.get('when', ''), norec=sa.get('no-recurse') == '1',
                                 det=sa.get('detailed') == '1', act=sa.get('action') == '1', nohooks=sa.get('no-hooks') == '1',
                                 ret=_tyname(S, rv) if rv else '', params=[_tyname(S, q) for q in (S.children(ps, 'parameter') if ps else [])]))
            g['classes'].append(dict(
                tag=tag, name=a.get('name', ''), ctype=a.get('c:type', ''), typeName=a.get('glib:type-name', ''),
                getType=a.get('glib:get-type', ''), pfx=a.get('c:symbol-prefix', ''), parent=a.get('parent', ''),
                abstract=a.get('abstract') == '1', final=a.get('final') == '1', fundamental=a.get('glib:fundamental') == '1',
                typeStruct=a.get('glib:type-struct', ''), refFunc=a.get('glib:ref-func', ''), unrefFunc=a.get('glib:unref-func', ''),
                setValueFunc=a.get('glib:set-value-func', ''), getValueFunc=a.get('glib:get-value-func', ''),
                impl=[c['attrs'].get('name', '') for c in S.children(e, 'implements')],
                prereq=[c['attrs'].get('name', '') for c in S.children(e, 'prerequisite')],
                props=props, sigs=sigs, vfuncs=[c['attrs'].get('name', '') for c in S.children(e, 'virtual-method')], fns=_fns(S, e)))
        elif tag in ('record', 'union'):
            g['records'].append(dict(tag=tag, name=a.get('name', ''), ctype=a.get('c:type', ''), typeName=a.get('glib:type-name', ''),
                                     getType=a.get('glib:get-type', ''), pfx=a.get('c:symbol-prefix', ''),
                                     structFor=a.get('glib:is-gtype-struct-for', ''),
                                     fields=[c['attrs'].get('name', '') for c in S.children(e, 'field')], fns=_fns(S, e)))
        elif tag == 'glib:boxed':
            g['boxed'].append(dict(tag=tag, name=a.get('glib:name', ''), typeName=a.get('glib:type-name', ''),
                                   getType=a.get('glib:get-type', ''), pfx=a.get('c:symbol-prefix', ''), fns=_fns(S, e)))
        elif tag in ('enumeration', 'bitfield'):
            g['enums'].append(dict(tag=tag, name=a.get('name', ''), ctype=a.get('c:type', ''), typeName=a.get('glib:type-name', ''),
                                   getType=a.get('glib:get-type', ''), hasDomain='glib:error-domain' in a,
                                   domain=a.get('glib:error-domain', ''), fns=_fns(S, e)))
        elif tag == 'function':
            g['functions'].append(dict(cid=a.get('c:identifier', ''), movedTo=a.get('moved-to', '')))
    return g


# ------------------------------------------------------------------ seeded random worlds beyond the exhaustive bound
WORDS = ['Obj', 'Sub', 'Win', 'Item', 'View', 'Model', 'Node', 'Pad', 'Bin', 'Cell', 'Page', 'Task', 'Port', 'Mark', 'Zone']
FUND_TYPES = ['gchar', 'guchar', 'gboolean', 'gint', 'guint', 'glong', 'gulong', 'gint64', 'guint64', 'gfloat', 'gdouble',
              'gchararray', 'gpointer', 'GType', 'GStrv']
DEFAULTS = {'gboolean': ['TRUE', 'FALSE'], 'gint': ['0', '-1', '42'], 'guint': ['0', '7'], 'gdouble': ['0.000000', '1.500000'],
            'gchararray': ['NULL', '', 'some text', 'a "quoted" <b>&amp;</b>', 'tab\\there'], 'gint64': ['-9223372036854775808'],
            'guint64': ['18446744073709551615'], 'gfloat': ['0.000000'], 'gchar': ['0'], 'guchar': ['255'], 'glong': ['0'], 'gulong': ['0']}


def random_world(rng, size=None):
    n_types = size or rng.randint(3, 8)
    names = []
    while len(names) < n_types:
        n = rng.choice(WORDS) + (rng.choice(WORDS) if rng.random() < 0.6 else '')
        if n not in names and not any(n + s in names or (n.endswith(s) and n[:-len(s)] in names) for s in ('Class', 'Iface', 'Interface')):
            names.append(n)
    kinds = {}
    for n in names:
        kinds[n] = rng.choice(['class'] * 5 + ['interface'] * 2 + ['boxed'] * 2 + ['pointer', 'enum', 'enum', 'flags', 'fundamental'])
    if 'class' not in kinds.values():
        kinds[names[0]] = 'class'
    decls, reg, quarks, ann = [], [], [], []
    hidden_pool = ['FooHid%s' % c for c in 'abcd'] + ['XyzPriv', 'FooStructOnly']
    decls.append(d_type('struct', 'StructOnly'))
    ext_classes = ['GObject', 'GInitiallyUnowned', 'GCancellable']
    chains = {}
    classes = [n for n in names if kinds[n] == 'class']
    ifaces = [n for n in names if kinds[n] == 'interface']

    def pick_type():
        r = rng.random()
        if r < 0.45:
            return rng.choice(FUND_TYPES)
        if r < 0.8:
            return 'Foo' + rng.choice(names)
        if r < 0.9:
            return rng.choice(['GObject', 'GValue', 'GBytes', 'GError', 'GVariant', 'GCancellable', 'GParam', 'GClosure'])
        return rng.choice(hidden_pool)

    def fields_for(inst):
        out = [F('parent', 'data', 'GObjectClass')]
        for i in range(rng.randint(0, 4)):
            r = rng.random()
            if r < 0.5:
                out.append(F('vf%d' % i, 'fp', 'Foo' + inst))
            elif r < 0.65:
                out.append(F('vf%d' % i, 'fp', rng.choice(['gint', '', 'Foo' + rng.choice(names)])))
            elif r < 0.8:
                cb = '%sFunc%d' % (inst, i)
                decls.append(D('callback', 'Foo' + cb, n=cb, first=rng.choice(['Foo' + inst, 'Foo' + inst, 'gint', 'Foo' + rng.choice(names)])))
                out.append(F('vf%d' % i, 'cb', 'Foo' + cb))
            else:
                out.append(F('d%d' % i, 'data', 'int'))
        return out

    for n in names:
        k = kinds[n]
        u = us_of(n)
        shape = 'get_gtype' if rng.random() < 0.1 else 'get_type'
        base = u
        if k in ('class', 'boxed') and rng.random() < 0.08:
            base = u + '_alt'                      # get-type function not named after the type
        form = rng.random()
        fn = d_fn(base, shape, 'GType') if form < 0.9 else (d_fn(base, shape, 'GType', np=1) if form < 0.95 else None)
        if fn:
            decls.append(fn)
        t = R(k, n, fn='foo_' + base + SHAPES[shape])
        if k == 'class':
            earlier = [c for c in classes if c in chains]
            if earlier and rng.random() < 0.6:
                p = rng.choice(earlier)
                chain = ['Foo' + p] + chains[p]
            else:
                p = rng.choice(ext_classes)
                chain = {'GObject': ['GObject'], 'GInitiallyUnowned': ['GInitiallyUnowned', 'GObject'],
                         'GCancellable': ['GCancellable', 'GObject']}[p]
            for _ in range(rng.choice([0, 0, 1, 1, 2, 3])):
                h = rng.choice(hidden_pool)
                if h not in chain:
                    chain.insert(rng.randint(0, len(chain) - 1), h)
            chains[n] = chain
            t['parents'] = list(chain)
            t['abstract'] = rng.random() < 0.3
            t['final'] = rng.random() < 0.2
            pool = ['Foo' + i for i in ifaces] + ['GAsyncResult', 'FooHidIfc']
            t['ifaces'] = rng.sample(pool, rng.randint(0, min(3, len(pool))))
        if k == 'interface':
            pool = ['Foo' + c for c in classes] + ['Foo' + i for i in ifaces if i != n] + ['GObject', 'GCancellable', 'XyzPriv']
            t['ifaces'] = rng.sample(pool, rng.randint(0, min(3, len(pool))))
        if k in ('class', 'interface'):
            for i in range(rng.choice([0, 1, 2, 3, 6])):
                ty = pick_type()
                word = rng.choice([rng.randrange(256), rng.randrange(256), rng.getrandbits(32), rng.randrange(16) | (1 << 31),
                                   rng.randrange(16) | (1 << 30) | (rng.randrange(8) << 5)])
                dv = rng.choice(DEFAULTS[ty]) if ty in DEFAULTS and rng.random() < 0.7 else None
                t['props'].append(P('prop-%s%d' % (u.replace('_', '-'), i), ty, word, dv))
            for i in range(rng.choice([0, 1, 2, 4])):
                t['sigs'].append(SG('sig-%d' % i, rng.choice(['void', 'void', 'gboolean', 'gint', pick_type()]),
                                    rng.choice(['first', 'last', 'last', 'cleanup', '', 'must-collect']),
                                    rng.random() < 0.3, rng.random() < 0.3, rng.random() < 0.3, rng.random() < 0.3,
                                    [pick_type() for _ in range(rng.choice([0, 1, 1, 2, 3, 5]))]))
        if k == 'fundamental':
            t['inst'] = rng.random() < 0.7
            t['abstract'] = rng.random() < 0.3
            t['parents'] = rng.choice([[], [], ['FooHida']])
            for key in ('ref-func', 'unref-func', 'set-value-func', 'get-value-func'):
                if rng.random() < 0.6:
                    ann.append(dict(c='Foo' + n, k=key, v='foo_%s_%s' % (u, key.replace('-func', '').replace('-', '_'))))
        reg.append(t)
        # scanned declarations of the same name
        if k in ('class', 'fundamental'):
            r = rng.random()
            if r < 0.7:
                decls.append(d_type('struct', n, [F('parent_instance', 'data', 'GObject')]))
            elif r < 0.85:
                decls.append(d_type('opaque', n))
            if rng.random() < 0.75:
                decls.append(d_type('struct', n + 'Class', fields_for(n)))
        elif k == 'interface':
            if rng.random() < 0.8:
                decls.append(d_type('opaque', n))
            r = rng.random()
            if r < 0.45:
                decls.append(d_type('struct', n + 'Iface', fields_for(n)))
            elif r < 0.85:
                decls.append(d_type('struct', n + 'Interface', fields_for(n)))
        elif k in ('boxed', 'pointer'):
            r = rng.random()
            if r < 0.4:
                decls.append(d_type('struct', n, [F('x', 'data', 'int')]))
            elif r < 0.6:
                decls.append(d_type('union', n, [F('x', 'data', 'int'), F('y', 'data', 'double')]))
            elif r < 0.8 or k == 'pointer' and r < 0.93:
                decls.append(d_type('opaque', n))
        elif k in ('enum', 'flags'):
            if rng.random() < 0.8:
                decls.append(d_type(k, n))
    # error domains: enumerations named <X>Error with a quark function
    for j in range(rng.choice([0, 1, 2])):
        n = rng.choice(WORDS) + ('Io' if j else '') + 'Error'
        if n in names or any(d['n'] == n for d in decls):
            continue
        u = us_of(n)
        declared = rng.random() < 0.8
        registered = rng.random() < 0.5 or not declared
        if declared:
            decls.append(d_type('enum', n))
        if registered:
            decls.append(d_fn(u, 'get_type', 'GType'))
            reg.append(R('enum', n))
        r = rng.random()
        if r < 0.8:
            decls.append(d_fn(u[:-len('_error')], 'error_quark', 'GQuark'))
            quarks.append(dict(fn='foo_' + u + '_quark', domain='foo-%s-quark' % u.replace('_', '-')))
        elif r < 0.9:
            decls.append(d_fn(u[:-len('_error')], 'error_quark', 'gint'))
    if rng.random() < 0.2:
        decls.append(d_fn('stray', 'error_quark', 'GQuark'))
        quarks.append(dict(fn='foo_stray_error_quark', domain='stray'))
    decls.append(d_fn('plain', 'other', 'gint', np=1))
    rng.shuffle(decls)
    return world(decls, reg, quarks, ann)

"""C16 — scanner output is deterministic and independent of irrelevant order.

1. TLC model-checks tla/Order.tla (OrderMC): a two-copy (self-composed) model of one scanner run in
   which every Python-set iteration, the comment-block order, the typedef/struct order and the cache
   history are chosen independently per copy; invariants Deterministic and SiblingOrder.  What-if
   configurations (one sorted() removed, includes in set order, a lossy cache, duplicate blocks,
   overlapping dependencies, a struct body fed twice) must each yield a counterexample (witness that
   the model sees the problem).
2. TLC exports the abstract inputs it explored (OrderCases); a seeded generator emits larger ones in
   the same schema (more declaration kinds: unions, enums, constants, callbacks, classes, interfaces,
   boxed types with a runtime dump).  render() turns an abstract input into concrete declarations,
   comment blocks, dump XML, options and dependency GIRs.
3. Every input is run through the REAL pipeline (harness/c16run.py) in SUBPROCESSES under several
   PYTHONHASHSEEDs, with comment blocks / their source files / typedef-vs-struct order permuted and
   with dependency GIRs parsed afresh (empty XDG_CACHE_HOME) or served by the real CacheStore from a
   directory a different process filled.
4. TLC (tla/OrderTrace.tla) judges: one digest per input across all configurations (clauses HashSeed,
   BlockOrder, FileOrder, TypedefStructOrder, ColdWarm, OneDigest), SiblingOrder and DeclOrder on the
   projected element order of every distinct output.  Python never decides.
"""
import concurrent.futures as cf
import hashlib, json, os, random, subprocess

from ..common import Check, MachineryError, main_wrapper, parse_error_trace, tla_to_py, PY, VERIF, NCPU

PID = 'C16'
DATA_GIR = os.path.join(VERIF, 'harness', 'data', 'gir')
WITNESS = {     # what-if configuration -> what it lifts
    'Order_w_nosort': 'sorted() removed from GIRWriter._write_namespace',
    'Order_w_dupbody': 'body of one struct tag fed twice and get_main_position() iterating the position SET (code before fd38255)',
    'Order_w_cache': 'namespace served by the cache differs from a fresh parse',
    'Order_w_inclset': '<include> written in set order',
    'Order_w_members': 'sorted() removed from the method lists',
    'Order_w_dupblock': 'two comment blocks for one identifier (last one wins)',
    'Order_w_depoverlap': 'one C type defined by two dependencies (first hit in _parsed_includes order)',
    'Order_w_rebind': '_parse_fields binds a new list: the record of a second typedef of the tag (aliasing the list) misses a later body',
    'Order_w_diag': 'order of "unknown parameter" diagnostics (set difference iterated) - outside the statement',
}
QUICK_WITNESS = ['Order_w_nosort', 'Order_w_dupbody', 'Order_w_cache', 'Order_w_rebind']

# ------------------------------------------------------------------ dependency GIRs of the "diamond" graph
_HDR = ('<?xml version="1.0"?>\n<repository version="1.2" xmlns="http://www.gtk.org/introspection/core/1.0" '
        'xmlns:c="http://www.gtk.org/introspection/c/1.0" xmlns:glib="http://www.gtk.org/introspection/glib/1.0">\n')
DEP_GIRS = {
    'DepA-1.0.gir': _HDR + '''  <include name="GObject" version="2.0"/>
  <include name="GLib" version="2.0"/>
  <package name="depa-1.0"/>
  <c:include name="depa.h"/>
  <namespace name="DepA" version="1.0" shared-library="libdepa.so.1" c:identifier-prefixes="DepA" c:symbol-prefixes="depa">
    <alias name="Id" c:type="DepAId"><type name="guint32" c:type="guint32"/></alias>
    <record name="Thing" c:type="DepAThing" glib:type-name="DepAThing" glib:get-type="depa_thing_get_type" c:symbol-prefix="thing"/>
    <callback name="Func" c:type="DepAFunc">
      <return-value transfer-ownership="none"><type name="none" c:type="void"/></return-value>
      <parameters>
        <parameter name="thing" transfer-ownership="none"><type name="Thing" c:type="DepAThing*"/></parameter>
        <parameter name="user_data" transfer-ownership="none" nullable="1" allow-none="1" closure="1"><type name="gpointer" c:type="gpointer"/></parameter>
      </parameters>
    </callback>
  </namespace>
</repository>
''',
    'DepB-1.0.gir': _HDR + '''  <include name="Gio" version="2.0"/>
  <include name="GLib" version="2.0"/>
  <package name="depb-1.0"/>
  <c:include name="depb.h"/>
  <namespace name="DepB" version="1.0" shared-library="libdepb.so.1" c:identifier-prefixes="DepB" c:symbol-prefixes="depb">
    <class name="Object" c:symbol-prefix="object" c:type="DepBObject" parent="GObject.Object" glib:type-name="DepBObject" glib:get-type="depb_object_get_type">
      <field name="parent_instance"><type name="GObject.Object" c:type="GObject"/></field>
    </class>
    <interface name="Iface" c:symbol-prefix="iface" c:type="DepBIface" glib:type-name="DepBIface" glib:get-type="depb_iface_get_type"/>
    <enumeration name="Mode" c:type="DepBMode">
      <member name="one" value="1" c:identifier="DEPB_MODE_ONE"/>
    </enumeration>
  </namespace>
</repository>
''',
    'DepC-1.0.gir': _HDR + '''  <include name="DepA" version="1.0"/>
  <include name="DepB" version="1.0"/>
  <package name="depc-1.0"/>
  <c:include name="depc.h"/>
  <namespace name="DepC" version="1.0" shared-library="libdepc.so.1" c:identifier-prefixes="DepC" c:symbol-prefixes="depc">
    <record name="Box" c:type="DepCBox" glib:type-name="DepCBox" glib:get-type="depc_box_get_type" c:symbol-prefix="box"/>
  </namespace>
</repository>
''',
}
# dependency type ids of the model -> a C parameter type
USES = {'-': None, 't1': 'GList *', 't2': 'GValue *', 't3': 'DepAThing *', 't4': 'DepBObject *', 't5': 'GCancellable *', 't6': 'DepCBox *'}

# ------------------------------------------------------------------ names
SUF = ['1', '10', '1a', '2', '9', 'a', 'a1', 'aa', 'ab', 'b', 'z', 'z0']


def suf(n):
    return SUF[n % 12] + ('x%d' % (n // 12) if n >= 12 else '')


KINDWORD = {'rec': 'Rec', 'uni': 'Uni', 'alias': 'Al', 'enum': 'En', 'flags': 'Fl', 'cb': 'Cb', 'class': 'Obj', 'iface': 'Ifc', 'boxed': 'Box'}
FIELDS = [('int', 'zz'), ('double', 'b'), ('char *', 'y'), ('gpointer', 'a'), ('guint', 'm'), ('int', 'c_1')]
PARAMS = [('int', 'zed'), ('double', 'alpha'), ('const char *', 'mid'), ('guint', 'beta'), ('gboolean', 'b2')]
MEMBERS = ['ZED', 'ALPHA', 'MID', 'BETA', 'A_B']
PROPS = ['prop-z', 'prop-a', 'prop-a-b', 'm-prop']
SIGS = ['sig-z', 'sig-a', 'a-sig-b']


def rot(seq, k, n):
    k %= len(seq)
    return (seq[k:] + seq[:k])[:n]


def tname(d, prefix='Foo'):
    return prefix + KINDWORD[d['kind']] + suf(d['n'])


def uname(d):
    """symbol prefix of a type: lower-cased name (names are chosen without inner capitals)"""
    return (KINDWORD[d['kind']] + suf(d['n'])).lower()


# ------------------------------------------------------------------ abstract input -> concrete base
def render(case, depdir):
    """abstract input (schema of tla/OrderCases.tla, extended by the generator) -> concrete base:
    headers [(file, [symbol ...])] in canonical order, typedef/body pairs, comment files
    [(file, [[text, file, line] ...])], dump XML, options, dependency GIRs, declared orders."""
    decls = case['decls']
    nprefix = case.get('nprefix', 1)
    by_n = {d['n']: d for d in decls}
    files = {}          # header file -> [symbol]
    lines = {}
    pairs = []          # (sid of typedef, sid of body) or (sid of typedef, sid of second typedef, sid of body)
    declared = []
    dump = []
    sid = [0]

    def pfx(d):
        return 'Fx' if (nprefix == 2 and d['n'] % 3 == 0) else 'Foo'

    def hfile(k):
        return '/src/lib/foo-types.h' if k == 0 else '/src/lib/foo-h%d.h' % k

    def emit(k, sym):
        f = hfile(k)
        lines[f] = lines.get(f, 0) + 3 + (sid[0] % 4)
        sid[0] += 1
        sym.update(file=f, line=lines[f], sid=sid[0])
        files.setdefault(f, []).append(sym)
        return sid[0]

    def compound(d, name, fields, union=False):
        """typedef + body according to d.pat; returns nothing"""
        pat = d.get('pat', 'TS')
        h = d.get('h', 1 + d['n'] % 2)
        th = d.get('th', 0 if d['n'] % 2 else h)
        tag = '_' + name
        fl = [list(f) for f in fields]
        if pat == 'A':
            emit(h, dict(k='typedef_anon', name=name, fields=fl, union=union))
            declared.append(dict(cid=name, names=[f[-1] if f[0] == '@fp' else f[1] for f in fl]))
            return
        t = t2 = b = None
        if pat in ('T', 'TS', 'TSS', 'TTS'):
            t = emit(th, dict(k='typedef_struct', name=name, tag=tag, union=union))
        if pat == 'TTS':        # a second typedef name of the same tag (GObject / GInitiallyUnowned)
            name2 = name[:len(name) - len(suf(d['n']))] + suf(d.get('n2', d['n'] + 5))        # tla: Second(n) = n + 5
            t2 = emit(th, dict(k='typedef_struct', name=name2, tag=tag, union=union))
        if pat in ('S', 'TS', 'TSS', 'TTS'):
            b = emit(h, dict(k='struct', tag=tag, fields=fl, union=union))
        if pat == 'TSS':
            s2 = dict(k='struct', tag=tag, fields=fl, union=union)
            if d.get('samebase'):
                # the same body in a file with the SAME BASE NAME in another directory, at the SAME line
                # (foo/types.h vs foo/private/types.h): positions that differ in the directory only
                first = [x for x in files[hfile(h)] if x.get('sid') == b][0]
                f2 = '/src/lib/private/' + os.path.basename(first['file'])
                sid[0] += 1
                s2.update(file=f2, line=first['line'], sid=sid[0])
                files.setdefault(f2, []).append(s2)
            else:
                emit(h + 1, s2)       # the same body, in another file
        if t and t2 and b:
            pairs.append((t, t2, b))
        elif t and b:
            pairs.append((t, b))
        if pat != 'TSS' and b:
            for cid in (name, tag) + ((name2,) if t2 else ()):
                declared.append(dict(cid=cid, names=[f[-1] if f[0] == '@fp' else f[1] for f in fl]))

    def function(d, name, ret, params):
        h = d.get('h', 1 + d['n'] % 2)
        emit(h, dict(k='function', name=name, ret=ret, params=[list(p) for p in params]))
        declared.append(dict(cid=name, names=[p[1] for p in params]))

    sp = {'Foo': 'foo', 'Fx': 'fx'}
    for d in decls:
        k, n = d['kind'], d['n']
        P = pfx(d)
        if k in ('rec', 'uni'):
            compound(d, tname(d, P), rot(FIELDS, n, 2 + n % 3), union=(k == 'uni'))
        elif k == 'fn':
            params = rot(PARAMS, n, 1 + n % 3)
            u = USES.get(d.get('uses', '-'))
            if u:
                params.append((u, 'dep'))
            if d.get('async'):
                params += [('GAsyncReadyCallback', 'callback'), ('gpointer', 'user_data')]
            if d.get('throws'):
                params.append(('GError **', 'error'))
            own = by_n.get(d.get('owner', 0))
            if own is not None:
                OP = pfx(own)
                if d.get('ctor'):
                    function(d, '%s_%s_new_%s' % (sp[OP], uname(own), suf(n)), tname(own, OP) + ' *', params)
                else:
                    function(d, '%s_%s_m%s' % (sp[OP], uname(own), suf(n)), 'void', [(tname(own, OP) + ' *', 'self')] + params)
            else:
                function(d, '%s_fn%s' % (sp[P], suf(n)), 'int', params)
        elif k == 'alias':
            emit(d.get('h', 1 + n % 2), dict(k='alias', name=tname(d, P), target=['int', 'guint32', 'GQuark', 'DepAId'][n % 4 if case.get('deps') == 'diamond' else n % 3]))
        elif k in ('enum', 'flags'):
            ms = rot(MEMBERS, n, 2 + n % 3)
            up = '%s_%s%s' % (sp[P].upper(), KINDWORD[k].upper(), suf(n).upper())
            mem = [['%s_%s' % (up, m), (1 << i) if k == 'flags' else i] for i, m in enumerate(ms)]
            emit(d.get('h', 1 + n % 2), dict(k='enum', name=tname(d, P), members=mem, bitfield=(k == 'flags')))
            declared.append(dict(cid=tname(d, P), names=[m[0] for m in mem]))
        elif k == 'const':
            nm = '%s_K%s' % (sp[P].upper(), suf(n).upper())
            if n % 2:
                emit(d.get('h', 1 + n % 2), dict(k='const_int', name=nm, value=n * 7))
            else:
                emit(d.get('h', 1 + n % 2), dict(k='const_str', name=nm, value='s%d' % n))
        elif k == 'cb':
            params = rot(PARAMS, n, 1 + n % 2) + [('gpointer', 'user_data')]
            emit(d.get('h', 1 + n % 2), dict(k='callback', name=tname(d, P), ret='void', params=[list(p) for p in params]))
            declared.append(dict(cid=tname(d, P), names=[p[1] for p in params]))
        elif k in ('class', 'iface'):
            d = dict(d, pat='TS')
            T = tname(d, P)
            u = uname(d)
            vfs = [['@fp', 'void', [[T + ' *', 'self']], 'vf_z'], ['@fp', 'int', [[T + ' *', 'self'], ['int', 'x']], 'vf_a'],
                   ['@fp', 'void', [[T + ' *', 'self'], ['double', 'q']], 'mid_vf']][:1 + n % 3]
            gt = '%s_%s_get_type' % (sp[P], u)
            if k == 'class':
                compound(d, T, [('GObject', 'parent_instance')] + rot(FIELDS, n, n % 2))
                compound(dict(d, th=d.get('cth', d.get('th', 0))), T + 'Class', [('GObjectClass', 'parent_class')] + vfs)
                impl = ''.join('<implements name="%s"/>' % i for i in d.get('impl', []))
                props = ''.join('<property name="%s" type="%s" flags="3"/>' % (p, ty) for p, ty in
                                zip(rot(PROPS, n, d.get('nprops', 2)), rot(['gint', 'gchararray', 'GCancellable', 'GObject'], n, 4)))
                sigs = ''.join('<signal name="%s" return="void" when="last"><param type="gint"/></signal>' % s
                               for s in rot(SIGS, n, d.get('nsigs', 2)))
                dump.append('<class name="%s" get-type="%s" parents="GObject">%s%s%s</class>' % (T, gt, impl, props, sigs))
            else:
                emit(d.get('th', 0), dict(k='typedef_struct', name=T, tag='_' + T))
                compound(d, T + 'Interface', [('GTypeInterface', 'parent_iface')] + vfs)
                dump.append('<interface name="%s" get-type="%s"><prerequisite name="GObject"/>%s</interface>' % (
                    T, gt, '<property name="ifc-prop" type="gint" flags="1"/>'))
            function(d, gt, 'GType', [])
        elif k == 'boxed':
            d = dict(d, pat='TS')
            T = tname(d, P)
            compound(d, T, rot(FIELDS, n, 2))
            gt = '%s_%s_get_type' % (sp[P], uname(d))
            function(d, gt, 'GType', [])
            dump.append('<boxed name="%s" get-type="%s"/>' % (T, gt))
        else:
            raise MachineryError('unknown declaration kind %r' % k)

    # ---- comment blocks
    def ident_of(b):
        i = b['ident']
        if isinstance(i, str):
            return i
        if i >= 90:
            return 'SECTION:sec%s' % suf(i)
        d = by_n[i]
        P = pfx(d)
        k = d['kind']
        if k == 'fn':
            own = by_n.get(d.get('owner', 0))
            if own is not None:
                OP = pfx(own)
                return ('%s_%s_new_%s' if d.get('ctor') else '%s_%s_m%s') % (sp[OP], uname(own), suf(i))
            return '%s_fn%s' % (sp[P], suf(i))
        if k == 'const':
            return '%s_K%s' % (sp[P].upper(), suf(i).upper())
        return tname(d, P)

    cfiles, clines = {}, {}
    for b in case['blocks']:
        ident = ident_of(b)
        f = '/src/lib/foo-c%d.c' % b['cf']
        L = ['/**', ' * %s:' % ident]
        if ident.startswith('SECTION:'):
            L += [' * @short_description: sd%d' % b['pay']]
        d = by_n.get(b['ident']) if not isinstance(b['ident'], str) else None
        if d is not None and d['kind'] == 'fn':
            names = [x['names'] for x in declared if x['cid'] == ident][0]
            for p in reversed(names):                    # documented in another order than declared
                if p not in ('self', 'error'):
                    L.append(' * @%s: param %s of %d' % (p, p, b['pay']))
            for p in b.get('unknown', []):                # documentation of parameters that do not exist (diagnosed)
                L.append(' * @%s: no such parameter' % p)
        L += [' *', ' * doc%d of %s' % (b['pay'], ident), ' *']
        if not ident.startswith('SECTION:'):
            L.append(' * Since: %d.%d' % (b['pay'] // 10, b['pay'] % 10))
        L.append(' */')
        clines[f] = clines.get(f, 0) + 7 + len(L)
        cfiles.setdefault(f, []).append(['\n'.join(L), f, clines[f]])

    diamond = case.get('deps') == 'diamond'
    inc = case.get('includes') or (['DepC-1.0', 'Gio-2.0', 'GLib-2.0', 'DepA-1.0'] if diamond else ['Gio-2.0', 'GObject-2.0'])
    tag = case.get('id', 'x')
    npk = case.get('npkgs', 3)
    base = dict(
        ns=dict(name='Foo', version='1.0', idp=['Foo', 'Fx'][:nprefix], symp=['foo', 'fx'][:nprefix]),
        includes=inc, girpath=[depdir, DATA_GIR],
        pkgs=['foo-%s-%s' % (w, tag) for w in ('z', 'a', 'm', 'b', 'q')[:npk]],
        cincs=['foo-%s-%s.h' % (w, tag) for w in ('zz', 'a', 'mm')[:case.get('ncincs', 3)]],
        roots=['/src/lib', '/src'],
        headers=[[f, files[f]] for f in sorted(files)], pairs=pairs,
        cfiles=[[f, cfiles[f]] for f in sorted(cfiles)],
        dump=('<?xml version="1.0"?><dump>%s</dump>' % ''.join(dump)) if dump else '', declared=declared)
    return base


def perm(label, n, salt):
    idx = list(range(n))
    if label == 'id':
        return idx
    if label == 'rev':
        return idx[::-1]
    random.Random('%s:%s:%d' % (salt, label, n)).shuffle(idx)
    return idx


def make_run(base, cfg, rid, cachedir):
    """apply one configuration to a concrete base -> a run for harness/c16run.py"""
    salt = rid.rsplit('#', 1)[0]
    heads = base['headers']
    feed = [s for i in perm(cfg['h'], len(heads), salt) for s in heads[i][1]]
    if cfg['ts'] != 'id':
        # the body of a tag takes another place among the feed positions of its typedef(s); two typedef names of
        # one tag keep their relative order (which one names "the" record is sibling order, not typedef/struct order)
        rnd = random.Random('%s:%s' % (salt, cfg['ts']))
        for pr in base['pairs']:
            tds, b = list(pr[:-1]), pr[-1]
            at = sorted(i for i, s in enumerate(feed) if s['sid'] in pr)
            cur = [feed[i]['sid'] for i in at].index(b)
            if cfg['ts'] == 'swap':
                k = 0 if cur != 0 else len(at) - 1
            elif cfg['ts'] == 'mid':
                k = 1 if len(at) == 3 else cur
            else:
                k = rnd.randrange(len(at))
            order = tds[:k] + [b] + tds[k:]
            bysid = {feed[i]['sid']: feed[i] for i in at}
            for i, sid_ in zip(at, order):
                feed[i] = bysid[sid_]
    cfs = base['cfiles']
    comments = []
    for i in perm(cfg['f'], len(cfs), salt):
        blk = cfs[i][1]
        if cfg['b'] == 'rev':
            blk = blk[::-1]
        elif cfg['b'].startswith('r'):
            blk = [blk[j] for j in perm(cfg['b'], len(blk), salt + cfs[i][0])]
        comments += blk
    if cfg['b'].startswith('x'):            # any order of the whole list, across files
        comments = [comments[j] for j in perm(cfg['b'], len(comments), salt)]
    return dict(rid=rid, ns=base['ns'], includes=base['includes'], girpath=base['girpath'], pkgs=base['pkgs'],
                cincs=base['cincs'], roots=base['roots'], symbols=feed, comments=comments, dump=base['dump'],
                cache='off' if cfg['cache'] == 'off' else cachedir)


# ------------------------------------------------------------------ configurations
def configs(rng, quick, seedpool):
    """configurations of one input: a star around the baseline (pairs differing in one dimension) + combinations.
    A warm run reads the cache directory (group g) that a cold run filled in another process.  The random
    hash seeds come from a small pool drawn once per check run (one interpreter per seed and job)."""
    B = dict(seed=0, b='id', f='id', ts='id', cache='off', h='id')
    R = rng.sample(seedpool, 4)
    out = [B]
    if quick:
        out += [dict(B, seed=1), dict(B, seed=R[0]), dict(B, b='rev'), dict(B, f='rev'), dict(B, ts='swap'), dict(B, ts='mid'),
                dict(B, cache='cold', g=0), dict(B, cache='warm', g=0),
                dict(seed=R[1], b='x1', f='id', ts='mix1', cache='warm', h='id', g=0),
                dict(B, h='rev')]
    else:
        out += [dict(B, seed=s) for s in (1, 2, 3, R[0], R[1], R[2], R[3])]
        out += [dict(B, b=x) for x in ('rev', 'r1', 'x1')]
        out += [dict(B, f=x) for x in ('rev', 'r1')]
        out += [dict(B, ts=x) for x in ('swap', 'mid', 'mix1', 'mix2')]
        out += [dict(B, cache='cold', g=0), dict(B, cache='warm', g=0), dict(B, seed=1, cache='cold', g=1), dict(B, seed=3, cache='warm', g=1)]
        out += [dict(seed=R[0], b='x2', f='id', ts='mix3', cache='warm', h='id', g=0),
                dict(seed=2, b='rev', f='rev', ts='swap', cache='warm', h='id', g=1),
                dict(seed=R[3], b='r2', f='r2', ts='mix4', cache='off', h='id'),
                dict(seed=3, b='x3', f='id', ts='swap', cache='cold', h='id', g=2)]
        out += [dict(B, h='rev'), dict(B, h='r1')]
    return out


# ------------------------------------------------------------------ generator (same schema as OrderCases, more kinds)
def gen_case(rng, idx, dup=False):
    nd = rng.randint(4, 14)
    ns = rng.sample(range(1, 60), nd)
    decls, owners = [], []
    nh = rng.randint(1, 3)
    for n in ns:
        k = rng.choice(['rec', 'rec', 'uni', 'alias', 'enum', 'flags', 'const', 'cb', 'class', 'iface', 'boxed'])
        d = dict(kind=k, n=n, pat='-', owner=0, uses='-', h=rng.randint(1, nh))
        if k in ('rec', 'uni', 'boxed', 'class', 'iface'):
            d['pat'] = rng.choice(['TS', 'TS', 'T', 'S', 'A', 'TTS', 'TTS']) if k in ('rec', 'uni') else 'TS'
            d['n2'] = n + 100
            d['th'] = rng.choice([0, d['h']])
            if k == 'class':
                d['cth'] = rng.choice([0, d['h']])
                d['nprops'], d['nsigs'] = rng.randint(0, 4), rng.randint(0, 3)
                d['impl'] = rng.sample(['GAsyncResult', 'DepBIface'], rng.randint(0, 2))
            if d['pat'] in ('TS', 'A', 'TTS') or k in ('class', 'boxed'):
                owners.append(n)
        decls.append(d)
    ifaces = [d for d in decls if d['kind'] == 'iface']
    for d in decls:
        if d['kind'] == 'class' and ifaces:
            d['impl'] = d['impl'] + [tname(i) for i in rng.sample(ifaces, rng.randint(0, min(2, len(ifaces))))]
    if dup:
        d = dict(kind='rec', n=rng.choice([x for x in range(60, 70)]), pat='TSS', owner=0, uses='-', h=1, th=0,
                 samebase=(idx % 2 == 0))
        decls.append(d)
    fav = rng.choice(owners) if owners else 0          # several methods on one type: their order is the writer's business
    for n in rng.sample([x for x in range(70, 89)], rng.randint(3, 9)):
        d = dict(kind='fn', n=n, pat='-', owner=(fav if rng.random() < 0.5 else rng.choice(owners + [0])) if owners else 0,
                 uses=rng.choice(['-', 't1', 't2', 't3', 't4', 't5', 't6']), h=rng.randint(1, nh))
        d['ctor'] = bool(d['owner']) and rng.random() < 0.25
        d['async'] = rng.random() < 0.2
        d['throws'] = rng.random() < 0.3
        decls.append(d)
    deps = rng.choice(['chain', 'diamond', 'diamond'])
    if deps == 'chain':
        for d in decls:
            if 'impl' in d:
                d['impl'] = [i for i in d['impl'] if i != 'DepBIface']
            if d['kind'] == 'fn' and d['uses'] in ('t3', 't4', 't6'):
                d['uses'] = rng.choice(['-', 't1', 't2', 't5'])
    case = dict(id='g%d' % idx, decls=decls, deps=deps, nprefix=rng.choice([1, 1, 2]), npkgs=rng.randint(2, 5), ncincs=rng.randint(2, 3))
    blocks = []
    pay = 1
    for d in decls:
        if rng.random() < 0.7:
            b = dict(ident=d['n'], cf=rng.randint(1, 3), pay=pay)
            if d['kind'] == 'fn' and rng.random() < 0.3:
                b['unknown'] = ['nope_z', 'nope_a', 'nope_m'][:rng.randint(2, 3)]
            blocks.append(b)
            pay += 1
        if d['kind'] == 'class':
            T = tname(d, 'Fx' if (case['nprefix'] == 2 and d['n'] % 3 == 0) else 'Foo')
            for p in rot(PROPS, d['n'], d.get('nprops', 2)):
                if rng.random() < 0.5:
                    blocks.append(dict(ident='%s:%s' % (T, p), cf=rng.randint(1, 3), pay=pay))
                    pay += 1
            for s in rot(SIGS, d['n'], d.get('nsigs', 2)):
                if rng.random() < 0.5:
                    blocks.append(dict(ident='%s::%s' % (T, s), cf=rng.randint(1, 3), pay=pay))
                    pay += 1
    for i in rng.sample(range(90, 99), rng.randint(0, 3)):
        blocks.append(dict(ident=i, cf=rng.randint(1, 3), pay=pay))
        pay += 1
    if deps == 'diamond':
        inc = ['DepC-1.0', 'Gio-2.0', 'GLib-2.0', 'DepA-1.0', 'DepB-1.0', 'GObject-2.0']
        rng.shuffle(inc)
        case['includes'] = inc[:rng.randint(2, 6)]
        if not any(x.startswith(('DepC', 'DepB')) for x in case['includes']):
            case['includes'].append('DepC-1.0')
        if not any(x.startswith(('DepC', 'Gio', 'DepB')) for x in case['includes']):
            case['includes'].append('Gio-2.0')
    case['blocks'] = blocks
    return case


# ------------------------------------------------------------------ running
def run_jobs(ck, jobs, outdir, build):
    """jobs: [(seed, [key...])] -> {rid: result}; every job is one interpreter with its own PYTHONHASHSEED;
    build(key) -> run (built late: a run carries all its symbols and comments)"""
    res = {}

    def one(job):
        seed, keys = job
        runs = [build(k) for k in keys]
        env = dict(os.environ, PYTHONHASHSEED=str(seed), PYTHONDONTWRITEBYTECODE='1')
        env.pop('GI_SCANNER_DISABLE_CACHE', None)
        p = subprocess.run([PY, '-m', 'harness.c16run'], input=json.dumps(dict(outdir=outdir, runs=runs)), text=True,
                           stdout=subprocess.PIPE, stderr=subprocess.PIPE, env=env, cwd=VERIF, timeout=6000)
        if p.returncode != 0:
            raise MachineryError('runner failed (seed %s): %s' % (seed, p.stderr[-2000:]))
        out = [json.loads(l) for l in p.stdout.splitlines() if l.startswith('{')]
        if len(out) != len(runs):
            raise MachineryError('runner returned %d of %d results: %s' % (len(out), len(runs), p.stderr[-1500:]))
        return out

    with cf.ThreadPoolExecutor(max_workers=NCPU) as ex:
        for out in ex.map(one, jobs):
            for r in out:
                res[r['rid']] = r
    return res


def split_jobs(runs_with_seed, target):
    by = {}
    for seed, run in runs_with_seed:
        by.setdefault(seed, []).append(run)
    total = sum(len(v) for v in by.values()) or 1
    jobs = []
    for seed, runs in sorted(by.items()):
        k = max(1, round(target * len(runs) / total))
        size = -(-len(runs) // k)
        for i in range(0, len(runs), size):
            jobs.append((seed, runs[i:i + size]))
    return jobs


def first_diff(outdir, sha1, sha2):
    try:
        a = open(os.path.join(outdir, sha1 + '.gir'), encoding='utf-8').read().split('\n')
        b = open(os.path.join(outdir, sha2 + '.gir'), encoding='utf-8').read().split('\n')
    except OSError:
        return '(one of the runs produced no GIR)'
    for i, (x, y) in enumerate(zip(a, b), 1):
        if x != y:
            return 'line %d: %r  vs  %r' % (i, x.strip()[:160], y.strip()[:160])
    return 'lengths differ: %d vs %d lines' % (len(a), len(b))


TAGFIX = str.maketrans('', '', ':-')


def run():
    ck = Check(PID, 'model_checking')
    rng = ck.rng
    quick = ck.quick
    ck.assumptions += [
        'the C lexer/parser is replaced by symgen (harness/scan.py): a run is fed SourceSymbol objects; every symbol keeps its '
        '(file, line), feed order = order in which the translation unit reaches the declarations',
        'runtime dump = a fixed gdump XML document per input; options (prefixes, include list in command-line order, packages, '
        'c:includes, source roots) fixed per input',
        'preconditions of the statement (excluded from the generated inputs, lifted only in what-if model configurations): comment '
        'block identifiers are unique (duplicates are diagnosed, the last one wins); no C type is defined by two dependency GIRs; '
        'a typedef NAME is declared once (a repeated typedef is a fatal namespace conflict); a tag may have two typedef names: the '
        'one fed first names the record of the tag, their relative order is kept, the body takes every position',
        'input class duptag (the body of one struct tag fed twice, accepted by the scanner without diagnostic; the defect repaired '
        'by fd38255) is judged like every other input',
        'PYTHONHASHSEED is set per interpreter; a warm run reads a cache directory filled by a different interpreter '
        '(often with a different hash seed); dependency GIRs: harness/data/gir + generated DepA/DepB/DepC (diamond)',
        'the order of diagnostics and the effect of permuting the header files are outside the statement: reported as notes',
    ]
    replay = json.load(open(ck.args.replay))['replay'] if ck.args.replay else None
    depdir = os.path.join(ck.tmp, 'gir')
    outdir = os.path.join(ck.tmp, 'girout')
    cacheroot = os.path.join(ck.tmp, 'cache')
    for d in (depdir, outdir, cacheroot):
        os.makedirs(d)
    for fn, text in DEP_GIRS.items():
        with open(os.path.join(depdir, fn), 'w') as f:
            f.write(text)
        os.utime(os.path.join(depdir, fn), (1000000000, 1000000000))

    inputs = []         # dict(id, cls, case, base, cfgs)
    # TLC jobs run beside the scanner subprocesses; how many at once follows the CPU budget (VERIF_NCPU)
    pool = cf.ThreadPoolExecutor(max_workers=max(1, NCPU // 4))
    tw = max(1, min(4, NCPU // 4)) if NCPU >= 8 else NCPU
    wit = {}
    if not replay:
        # ---------------------------------------------------------------- 1. model checking
        cfile = os.path.join(ck.tmp, 'cases.json')
        wlist = QUICK_WITNESS if quick else list(WITNESS)
        wlist = ['Order_w_dupbody'] + [w for w in wlist if w != 'Order_w_dupbody']       # its counterexample is replayed below
        wit[wlist[0]] = pool.submit(ck.tlc_mc, 'OrderMC', wlist[0] + '.cfg', timeout=3000, workers=tw, expect_ok=False, coverage=False,
                                    label='witness: ' + WITNESS[wlist[0]])
        exported = pool.submit(ck._tlc, 'OrderCases.tla', 'OrderCases.cfg', [], dict(CASES_FILE=cfile), 3000, 1)
        mc = pool.submit(ck.tlc_mc, 'OrderMC', 'Order_q1.cfg' if quick else 'Order_t1.cfg', timeout=20000,
                         workers=max(1, NCPU // 2) if NCPU >= 8 else NCPU,
                         label='two-copy determinism + sibling order: every declaration pattern x block subset x dependency graph')
        extra = [pool.submit(ck.tlc_mc, 'OrderMC', 'Order_dup.cfg', timeout=3000, workers=tw,
                             label='as above with the body of one struct tag fed twice (get_main_position over sorted positions, fd38255)')]
        if not quick:
            extra.append(pool.submit(ck.tlc_mc, 'OrderMC', 'Order_t2.cfg', timeout=20000, workers=tw,
                                     label='as above, up to three comment blocks (all 6 block orders) on the record-heavy inputs'))
            extra.append(pool.submit(ck.tlc_mc, 'OrderMC', 'Order_perm.cfg', timeout=20000, workers=tw,
                                     label='as above, every feed order of the declarations themselves'))
        for cfg in wlist[1:]:
            wit[cfg] = pool.submit(ck.tlc_mc, 'OrderMC', cfg + '.cfg', timeout=3000, workers=tw, expect_ok=False, coverage=False,
                                   label='witness: ' + WITNESS[cfg])
        exported.result()
        if not os.path.exists(cfile):
            raise MachineryError('OrderCases exported nothing')
        tcases = sorted(json.load(open(cfile)), key=lambda c: json.dumps(c, sort_keys=True))
        for c in tcases:                    # struct or union is a rendering choice: record 3 is a union
            for d in c['decls']:
                if d['kind'] == 'rec' and d['n'] == 3:
                    d['kind'] = 'uni'
        if quick:
            # stratified: distinct pairs of record patterns, both dependency graphs; two-typedef tags first
            seen, pick = set(), []
            rng.shuffle(tcases)
            tcases.sort(key=lambda c: -sum(d['pat'] == 'TTS' for d in c['decls']))
            for c in tcases:
                key = tuple(sorted((d['kind'], d['pat']) for d in c['decls'] if d['kind'] in ('rec', 'uni'))) + (c['deps'],)
                if key not in seen and len(pick) < 30:
                    seen.add(key)
                    pick.append(c)
            tcases = pick
        for i, c in enumerate(tcases):
            c = dict(c, id='t%d' % i)
            inputs.append(dict(id='tlc-%d' % i, cls='tlc', case=c))
        for i in range(14 if quick else 300):
            inputs.append(dict(id='gen-%d' % i, cls='gen', case=gen_case(rng, i)))
        # S->C for the model's duplicate-body counterexample: rendered from the error trace, plus generated relatives
        r = wit['Order_w_dupbody'].result()
        st = parse_error_trace(r['out'])
        if r.get('violated') and st and 'input' in st[0][1]:
            c = tla_to_py(st[0][1]['input'])
            c['id'] = 'w0'
            inputs.append(dict(id='duptag-w', cls='duptag', case=c))
        for i in range(2 if quick else 12):
            inputs.append(dict(id='duptag-%d' % i, cls='duptag', case=gen_case(rng, 1000 + i, dup=True)))
        seedpool = [rng.randrange(4, 2 ** 32) for _ in range(4 if quick else 8)]
        for inp in inputs:
            inp['base'] = render(inp['case'], depdir)
            inp['cfgs'] = configs(rng, quick, seedpool)
    else:
        base = replay['base']
        base['girpath'] = [depdir, DATA_GIR]
        inputs.append(dict(id=replay['id'], cls=replay['cls'], case=replay.get('case'), base=base, cfgs=replay['cfgs']))

    # ---------------------------------------------------------------- 3. the real pipeline, in subprocesses
    phaseA, phaseB = [], []
    for k, inp in enumerate(inputs):
        for j, cfg in enumerate(inp['cfgs']):
            (phaseB if cfg['cache'] == 'warm' else phaseA).append((cfg['seed'], (k, j)))
            ck.count()

    def build(key):
        k, j = key
        inp = inputs[k]
        cfg = inp['cfgs'][j]
        return make_run(inp['base'], cfg, '%s#%d' % (inp['id'], j), os.path.join(cacheroot, '%d-%d' % (k, cfg.get('g', 0))))
    results = run_jobs(ck, split_jobs(phaseA, 2 * NCPU), outdir, build)
    results.update(run_jobs(ck, split_jobs(phaseB, 2 * NCPU), outdir, build))

    # ---------------------------------------------------------------- 4. observations -> TLC
    obs, meta = [], {}
    nwarm = nwarm_ok = ncold = ncold_ok = nfail = 0
    notwarm = []
    for inp in inputs:
        runs, outs, seen = [], [], {}
        for j, cfg in enumerate(inp['cfgs']):
            r = results['%s#%d' % (inp['id'], j)]
            ok = not r['error']
            nfail += 0 if ok else 1
            if cfg['cache'] == 'warm':
                nwarm += 1
                if r['cache']['hits'] > 0 and r['cache']['misses'] == 0:
                    nwarm_ok += 1
                else:
                    notwarm.append(dict(rid=r['rid'], cache=r['cache']))
            if cfg['cache'] == 'cold':
                ncold += 1
                ncold_ok += 1 if (r['cache']['misses'] > 0 and r['cache']['stores'] == r['cache']['misses']) else 0    # (an include named twice is a hit the second time)
            runs.append(dict(seed=cfg['seed'], b=cfg['b'], f=cfg['f'], ts=cfg['ts'], cache=cfg['cache'], h=cfg['h'],
                             sha=r['sha'], dsha=r['dsha'], ok=ok))
            if r['sha'] and r['sha'] not in seen:
                seen[r['sha']] = True
                pr = json.load(open(os.path.join(outdir, r['sha'] + '.proj.json')))
                groups = [dict(parent=g['parent'], ptag=g['ptag'].translate(TAGFIX),
                               items=[dict(tag=i['tag'].translate(TAGFIX), name=i['name'], key=i['key']) for i in g['items']])
                          for g in pr['groups']]
                outs.append(dict(sha=r['sha'], groups=groups, decl=pr['decl']))
        if all(not x['ok'] for x in runs):
            raise MachineryError('input %s fails in every configuration (generator bug?): %s' % (
                inp['id'], results['%s#0' % inp['id']]['error'][-800:]))
        obs.append(dict(id=inp['id'], cls=inp['cls'], runs=runs, outs=outs, declared=inp['base']['declared']))
        meta[inp['id']] = inp
        if len({x['sha'] for x in runs}) >= 1 and len(runs) > 1:
            ck.nontrivial(results['%s#0' % inp['id']]['sha'])
    if not replay:
        if nwarm and nwarm_ok * 10 < nwarm * 9:
            raise MachineryError('only %d of %d warm runs were served from the cache: the cold/warm history was not produced' % (nwarm_ok, nwarm))
        if ncold and ncold_ok * 10 < ncold * 9:
            raise MachineryError('only %d of %d cold runs parsed afresh and stored' % (ncold_ok, ncold))
    ck.cov['cache_histories'] = dict(cold=ncold, cold_parsed_and_stored=ncold_ok, warm=nwarm, warm_served_from_cache=nwarm_ok,
                                    not_fully_warm=notwarm[:10])
    ck.cov['failed_runs'] = nfail

    rejected, exercised = ck.tlc_verdict('OrderTrace', obs, chunk=150, timeout=6000)
    for oid, clause, detail in rejected:
        inp = meta[oid]
        text = '%s (%s): %s rejected (%s)' % (oid, inp['cls'], clause, detail)
        if detail.startswith('runs '):
            i, j = [int(x) - 1 for x in detail[5:].split(',')]
            ri, rj = results['%s#%d' % (oid, i)], results['%s#%d' % (oid, j)]
            text += '\n cfg %s -> %s\n cfg %s -> %s\n first difference: %s' % (
                json.dumps(inp['cfgs'][i], sort_keys=True), ri['sha'][:16] or ri['error'][-200:],
                json.dumps(inp['cfgs'][j], sort_keys=True), rj['sha'][:16] or rj['error'][-200:],
                first_diff(outdir, ri['sha'], rj['sha']) if clause not in ('NOTE_DiagOrder',) else '(diagnostics) %r vs %r' % (ri['diag'][:6], rj['diag'][:6]))
        if clause.startswith('NOTE_'):
            if len(ck.notes) < 12:
                ck.notes.append(text)
            ck.cov.setdefault('notes_count', {}).setdefault(clause, 0)
            ck.cov['notes_count'][clause] += 1
            continue
        ck.violation(dict(clause=clause, cls=inp['cls']), text,
                     dict(id=oid, cls=inp['cls'], case=inp['case'], base={k: v for k, v in inp['base'].items()}, cfgs=inp['cfgs']))

    if not replay:
        mc.result()
        for f in extra:
            f.result()
        for cfg, f in wit.items():
            r = f.result()
            if not r.get('violated'):
                raise MachineryError('what-if configuration %s produced no counterexample: %s' % (cfg, (r.get('error') or r['out'][-600:])))
        ck.cov['witnesses'] = {cfg: f.result().get('violated') for cfg, f in wit.items()}
        ck.cov['exhaustive'] = True
        core = ['HashSeed', 'BlockOrder', 'FileOrder', 'TypedefStructOrder', 'ColdWarm', 'OneDigest', 'SiblingOrder', 'DeclOrder']
        dead = [c for c in core if not exercised.get(c)]
        if dead:
            raise MachineryError('clauses never exercised: %s' % dead)
    pool.shutdown()
    ck.cov['rule'] = ('evaluation = one execution of the real pipeline (one input under one configuration: PYTHONHASHSEED, block order, '
                      'source-file order, typedef/struct order, cache history, header order); trace = one input with all its '
                      'configurations judged by OrderTrace; distinct = distinct baseline GIR digests (distinct inputs); inputs: the case '
                      'set exported by TLC (OrderCases: %s), seeded generated namespaces (12 declaration kinds, runtime dump), and the '
                      'rendered duplicate-body counterexample of the model' % ('stratified sample' if quick else 'all'))
    for o in obs[:1] + obs[-1:]:
        ck.sample(dict(id=o['id'], cls=o['cls'], runs=[dict(r) for r in o['runs'][:4]], distinct_outputs=len(o['outs']),
                       groups=[dict(parent=g['parent'], order=[i['tag'] + ':' + i['name'] for i in g['items']]) for g in (o['outs'][0]['groups'][:3] if o['outs'] else [])]))
    return ck.finish()


if __name__ == '__main__':
    main_wrapper(PID, run)

"""C07 -- GIR files survive a read/write cycle unchanged.

tla/GirIO.tla      writer/reader pair as a table of channels (kind, ast field, attribute/child, write rule,
                   read rule, reader default) transcribed from GIRWriter._write_* / GIRParser._parse_*;
                   property layer FixedPoint / Agree / Readable on one node (View = API-relevant projection).
tla/GirIOMC.tla    TLC enumerates per node kind and section all combinations of representative values and
                   checks the cycle on the channel model (GirIO_design*.cfg must hold; GirIO_w_*.cfg -- one
                   asymmetry of the code as found each, or unreachable models admitted -- must FAIL).
tla/GirIOCases.tla exports the vocabulary (fields/attributes per kind) and the channel cases.
S->C  (a) every exported case is instantiated as real giscanner.ast objects, written by the real GIRWriter,
          read by the real GIRParser, written again; tla/GirIOConf.tla compares with the table (DRIFT) and
          evaluates the property (CANDIDATE) -- notes only: a candidate counts only if a scan produces it;
      (b) generated namespaces (harness/girio.py: all node kinds, all annotations, comment-parser text)
          are scanned by the REAL pipeline; the resulting models go through W, R, W (also through
          scannermain.passthrough_gir and write_output --reparse-validate);
C->S  tla/GirIOTrace.tla judges byte identity (FixedPoint, Identity for files produced by this writer),
      Readable, Reparse, SameNodes and Agree on (b), on every GIR file in the tree and on
      second-generation outputs.  Only these verdicts produce VIOLATION lines.
"""
import glob, json, os, random

from ..common import Check, MachineryError, main_wrapper, REPO, NCPU

PID = 'C07'
WITNESS_CFGS = [('GirIO_w_boxedfn.cfg', 'reader ignores <function> children of <glib:boxed>'),
                ('GirIO_w_fieldlen.cfg', 'array length of a field re-attached by <field> position, ignoring anonymous members'),
                ('GirIO_w_maparray.cfg', 'reader ignores <array> children of a GLib.HashTable <type>'),
                ('GirIO_w_barecontainer.cfg', 'scanner emits a childless <type name="GLib.List"/>, read back as a list with an element')]


def witness_specs(G, S):
    """minimal hand-written scans, one per round-trip defect found (stable ids/signatures)"""
    out = {}
    out['wit-boxed-function'] = dict(
        symbols=[S.function('foo_boxed_get_type', 'GType', []), S.function('foo_boxed_new', 'FooBoxed *', []),
                 S.function('foo_boxed_stat', 'int', [('int', 'x')])],
        comments=[], dump_xml='<?xml version="1.0"?><dump><boxed name="FooBoxed" get-type="foo_boxed_get_type"/></dump>')
    u = S.member(S.RT(S.CTYPE_UNION, None, children=[S.member('int', 'a'), S.member('double', 'b')]), 'u')
    out['wit-field-length-after-anon'] = dict(
        symbols=[S.typedef_struct('FooRec', '_FooRec'), S.struct_def('_FooRec', [u, ('int', 'n'), ('int *', 'arr'), ('int', 'tail')])],
        comments=[('/**\n * FooRec:\n * @arr: (array length=n): data\n */', '/src/foo.c', 1)], dump_xml='<?xml version="1.0"?><dump></dump>')
    out['wit-field-length-reader-crash'] = dict(
        symbols=[S.typedef_struct('FooRec', '_FooRec'), S.struct_def('_FooRec', [u, ('int *', 'arr'), ('int', 'n')])],
        comments=[('/**\n * FooRec:\n * @arr: (array length=n): data\n */', '/src/foo.c', 1)], dump_xml='<?xml version="1.0"?><dump></dump>')
    out['wit-map-array-value'] = dict(
        symbols=[S.function('foo_map', 'GHashTable *', [])],
        comments=[('/**\n * foo_map:\n *\n * Returns: (element-type utf8 GStrv) (transfer full): map\n */', '/src/foo.c', 1)],
        dump_xml='<?xml version="1.0"?><dump></dump>')
    out['wit-unknown-type-on-list'] = dict(
        symbols=[S.function('foo_take', 'void', [('GList **', 'l')])],
        comments=[('/**\n * foo_take:\n * @l: (type Foo.Unknown): a list\n */', '/src/foo.c', 1)], dump_xml='<?xml version="1.0"?><dump></dump>')
    for k, v in out.items():
        for n, s in enumerate(v['symbols']):
            s.line = n + 1
        v['options'] = dict(c_includes=[], shared_libraries=[], packages=[], doc_format='unknown', roots=[])
    return out


def c01_spec(seed, per):
    """annotated callables in the abstract case schema of C01 (tla/Annotate.tla), rendered by C01's own
    renderer (harness/c01lib.py; not edited here) -- a second, independent generator of scanner input"""
    from .. import c01lib as L
    from . import c01 as C1
    r = random.Random(seed)
    syms, comments = list(L.prelude()), []
    for n in range(per):
        sym, com, _ = L.render(C1.random_case(r, n), n)
        syms.append(sym)
        comments.append(com)
    return dict(symbols=syms, comments=comments, dump_xml=L.DUMP,
                options=dict(c_includes=[], shared_libraries=[], packages=[], doc_format='unknown', roots=['/src']))


def run():
    ck = Check(PID, 'model_checking')
    from .. import scan as S
    from .. import girio as G
    ck.assumptions += [
        'symgen conventions of harness/scan.py (the yacc parser cannot be built); runtime type data supplied as a gdump XML document',
        'models the scanner can produce are sampled by a seeded generator over all node kinds/annotations (harness/girio.py), not enumerated; '
        'TLC enumerates the channel cases, whose reachability is judged only through real scans',
        'Agree compares the API view defined in tla/GirIO.tla (View): None == "" for optional text, 5 == "5", skip/introspectable merged, '
        'c:type = complete_ctype or ctype, direction None == in, positions modulo the source root given to the writer; fields outside the '
        'GIR vocabulary of a kind (Type.gtype_name/is_const, Record.tag_name, Enum.c_symbol_prefix, Interface.parent_type, '
        'Function.is_inline of constructors/static functions, disguised/opaque/pointer of unions, Function.is_constructor) are not compared',
        'XML text layer (escaping, attribute-value normalisation) is C20\'s property; here it is exercised with comment-parser text only',
        'CR characters in documentation are out of scope (XML end-of-line normalisation; same exclusion as C20)',
        'GIRParser.parse() does not load <include>d namespaces (only Transformer does), so no GIR file of the tree is skipped for '
        'unresolvable includes; shipped gir/*.gir are judged on W(R(x)) = W(R(W(R(x)))), *-expected.gir additionally on x = W(R(x))']
    replay = json.load(open(ck.args.replay))['replay'] if ck.args.replay else None
    fast = bool(os.environ.get('VERIF_C07_FAST'))        # development aid (mutation experiments): skip the model checking runs

    # ------------------------------------------------------------------ model checking of the channel model
    if not replay and not fast:
        r = ck.tlc_mc('GirIOMC', 'GirIO_design.cfg', workers=min(8, NCPU), timeout=4500,
                      label='channel model, design (no asymmetry): all kinds x sections x value combinations (2 values per text field)')
        if not ck.quick:
            ck.tlc_mc('GirIOMC', 'GirIO_design_rich.cfg', workers=NCPU, timeout=12000,
                      label='channel model, design: 3-5 values per text field, undivided own sections')
            ck.tlc_mc('GirIOMC', 'GirIO_ops.cfg', workers=min(4, NCPU), timeout=4500, coverage=False, label='stepwise cycle == operator-level FixedPoint/R1')
        ck.cov['exhaustive'] = True
        for cfg, what in (WITNESS_CFGS[:2] if ck.quick else WITNESS_CFGS) + ([('GirIO_w_unreachable.cfg', 'models the scanner cannot produce admitted (target_foreign, shadows+shadowed-by)')]
                                         if not ck.quick else []):
            r = ck.tlc_mc('GirIOMC', cfg, workers=min(2, NCPU), timeout=3000, coverage=False, expect_ok=False, label='what-if (must fail): ' + what)
            if r['ok'] or not r.get('violated'):
                raise MachineryError('witness configuration %s did not produce a counterexample: %s' % (cfg, r.get('error')))

    # ------------------------------------------------------------------ vocabulary + channel cases from TLC
    cases_file = os.path.join(ck.tmp, 'cases.json')
    r = ck._tlc('GirIOCases.tla', 'GirIOCases.cfg', ['-seed', str(ck.seed + 1)],
                dict(TIER='quick' if (ck.quick or replay) else 'thorough', CASES_FILE=cases_file), 9000, min(2, NCPU))
    if not os.path.exists(cases_file):
        raise MachineryError('TLC did not export the vocabulary/cases:\n' + r['out'][-2000:])
    exported = json.load(open(cases_file))
    voc = exported['vocabulary']
    cy = G.Cycler(ck.tmp, voc)

    # ------------------------------------------------------------------ S->C (a): channel cases on real ast objects
    if not replay:
        cobs, cby = [], {}
        for n, c in enumerate(exported['cases'][:600] if fast else exported['cases']):
            o = G.conformance(c, 'case-%d' % n, cy)
            cobs.append(o)
            cby[o['id']] = c
            ck.count()
        rej, ex = ck.tlc_verdict('GirIOConf', cobs, chunk=6000, timeout=7500)
        drift, cand = {}, {}
        for oid, clause, detail in rej:
            (drift if clause.startswith('Conform') else cand).setdefault((clause, detail), []).append(oid)
        for (clause, detail), ids in sorted(drift.items()):
            ck.notes.append('DRIFT %s %s: %d cases, e.g. %s' % (clause, detail, len(ids), json.dumps(cby[ids[0]])[:300]))
            print('DRIFT property=%s %s %s (%d channel cases): the channel table of tla/GirIO.tla no longer matches the code' % (PID, clause, detail, len(ids)))
        for (clause, detail), ids in sorted(cand.items()):
            ck.notes.append('CANDIDATE %s %s: %d channel cases on hand-built ast objects (counts only if a scan produces it)' % (clause, detail, len(ids)))
        ck.cov['channel_cases'] = dict(n=len(cobs), drift=len(drift), candidate_classes=sorted('%s %s' % k for k in cand),
                                       reader_follows=dict(asfound=ex.get('asfound', 0), design=ex.get('design', 0)))

    # ------------------------------------------------------------------ S->C (b) / C->S: cycles on the real pair
    obs, meta = [], {}
    census = set()

    def note_census(model):
        for path, kind, obj, ctx in G.walk(model):
            v = voc.get(kind)
            if not v:
                continue
            for f in v['fields']:
                val = G.enc(G.get_field(obj, kind, f, path, ctx))
                if val != v['dflt'][f]:
                    census.add((kind, f))
            ck.nontrivial((kind, tuple(sorted(f for f in v['fields'] if G.enc(G.get_field(obj, kind, f, path, ctx)) != v['dflt'][f]))))

    def add(o, m):
        o.pop('_x1', None)
        o.pop('_x2', None)
        obs.append(o)
        meta[o['id']] = m
        ck.count()

    def run_spec(oid, spec, via, m, regen=False):
        m = dict(m, concrete=G.dump_spec(spec))          # the replay file carries the concrete scanner input
        sr = G.scan_generated(spec)
        note_census(sr.ns)
        o = cy.run(oid, 'scan', model=sr.ns, roots=spec['options']['roots'], via=via, keep_xml=regen)
        x1, x2 = o.get('_x1'), o.get('_x2')
        add(o, m)
        if regen and x1 is not None:
            # (c) second generation: a file that was itself produced by a write
            add(cy.run(oid + '/regen', 'regen', data=x1), dict(m, regen=True))
            if x2 is not None and x2 != x1:
                add(cy.run(oid + '/regen2', 'regen', data=x2), dict(m, regen=True))

    def run_file(rel, m):
        path = os.path.join(REPO, rel)
        src = 'expected' if rel.endswith('-expected.gir') else 'shipped'
        add(cy.run(rel, src, data=open(path, 'rb').read(), name=os.path.basename(rel)), m)

    vias = ['direct', 'passthrough', 'reparse']
    if replay:
        if replay['kind'] in ('gen', 'witness', 'c01'):
            meta_in = {k: v for k, v in replay.items() if k != 'concrete'}
            run_spec(replay['id'], G.load_spec(replay['concrete']), replay['via'], meta_in, regen=bool(replay.get('regen')))
        else:
            run_file(replay['path'], replay)
    else:
        for name, spec in witness_specs(G, S).items():
            run_spec(name, spec, 'reparse', dict(kind='witness', id=name, via='reparse'))
        n_gen = 45 if ck.quick else 600
        for n in range(n_gen):
            seed = ck.rng.getrandbits(40)
            spec = G.gen_namespace(random.Random(seed), n, 1.0)
            via = vias[n % 3]
            run_spec('gen-%d' % n, spec, via, dict(kind='gen', id='gen-%d' % n, seed=seed, n=n, via=via, regen=(n % 4 == 0)), regen=(n % 4 == 0))
        try:
            for n in range(2 if ck.quick else 20):
                seed = ck.rng.getrandbits(40)
                per = 120 if ck.quick else 250
                run_spec('c01-%d' % n, c01_spec(seed, per), vias[n % 3], dict(kind='c01', id='c01-%d' % n, seed=seed, per=per, via=vias[n % 3]))
        except ImportError as e:
            ck.notes.append('C01 renderer not usable as an extra scan source: %s' % e)
        files = sorted(glob.glob(os.path.join(REPO, 'tests/scanner/*-expected.gir'))) + sorted(glob.glob(os.path.join(REPO, 'gir/*.gir')))
        for f in files:
            run_file(os.path.relpath(f, REPO), dict(kind='file', path=os.path.relpath(f, REPO)))
        ck.cov['files'] = len(files)

    # identical raw copies have identical views: only pairs whose copies differ are shipped to TLC
    for o in obs:
        o['nsame'] = len([q for q in o['pairs'] if q['k1'] == q['k2'] and q['f1'] == q['f2']])
        o['pairs'] = [q for q in o['pairs'] if not (q['k1'] == q['k2'] and q['f1'] == q['f2'])]
    rejected, exercised = ck.tlc_verdict('GirIOTrace', obs, chunk=40 if not replay else 10, timeout=7500)
    for oid, clause, detail in rejected:
        m = meta[oid]
        o = next(x for x in obs if x['id'] == oid)
        text = '%s (%s): clause %s rejected [%s]' % (oid, o['src'], clause, detail)
        if o['err']:
            text += '\n%s raised %s' % (o['errwhere'], o['err'])
        if o['diffline']:
            text += '\nfirst differing line %d:\n  - %s\n  + %s' % (o['diffline'], o['diffa'], o['diffb'])
        if o['onlyOrig'] or o['onlyBack']:
            text += '\nnodes lost on re-read: %s; gained: %s' % ([x['p'] for x in o['onlyOrig'][:3]], [x['p'] for x in o['onlyBack'][:3]])
        ck.violation(dict(clause=clause, detail=detail), text, m)

    if not replay:
        unseen = sorted('%s.%s' % (k, f) for k, v in voc.items() for f in v['fields']
                        if (k, f) not in census and v['api'][f] != '-' and len(set(map(tuple, [v['dflt'][f]]))) == 1)
        ck.cov['fields_never_nondefault_in_scans'] = unseen
        ck.cov['nodes_compared'] = sum(o['nodes'] for o in obs)
    ck.cov['rule'] = ('states = channel models x cycle steps explored by TLC (GirIOMC); traces = cycles on the real writer/reader pair judged by TLC '
                      '(witness scans + seeded generated namespaces through the real scan pipeline + second-generation outputs + every GIR file '
                      'in the tree) plus TLC-exported channel cases on real ast objects (notes only); distinct_nontrivial = distinct '
                      '(node kind, set of non-default fields) shapes seen in scan-produced models')
    for o in obs[:1] + obs[-1:]:
        ck.sample({k: o[k] for k in ('id', 'src', 'h0', 'h1', 'h2', 'err', 'rv', 'nodes', 'nsame', 'via')})
    return ck.finish()


if __name__ == '__main__':
    main_wrapper(PID, run)

"""C05 - everything left introspectable is bindable and every reference resolves.

1. TLC model-checks tla/Introspect.tla (the nine walks of IntrospectablePass.validate over every small
   namespace graph / flag assignment / namespace order): implementation layer => Closed, modulo the
   shapes recorded as findings (NoUnknownViolation); a witness configuration re-derives the known
   counterexample as a TLC error trace.
2. S->C: every violating final case TLC exports (without padding nodes), a sample of the closed ones,
   the witness and seeded random graphs beyond the exhaustive bound are rendered as real symbol sets
   (harness/c05proj.render + harness/scan symgen), scanned by the REAL pipeline, flattened
   (c05proj.project: structure only) and judged by TLC (tla/IntrospectTrace.tla: Closed of
   tla/IntrospectProp.tla; DRIFT = the code no longer follows the implementation-shaped layer).
3. C->S corpus: the same judgement on every GIR file in tests/scanner/*-expected.gir and gir/*.gir.
Python never decides: it renders, runs, flattens and relays TLC's rejections.
"""
import glob, json, os, re, sys

from ..common import Check, MachineryError, main_wrapper, REPO, VERIF, tla_to_py

PID = 'C05'
MC_QUICK = [('q1', 'N=3 alias/callback/function, every order'),
            ('q2', 'N=2 with (skip) on nodes and values, GList containers'),
            ('q3', 'N=2 with a GObject class: property/setter, vfunc/invoker, signal')]
MC_THOROUGH = [('t1', 'N=4 alias/callback/function in C declaration order'),
               ('t2', 'N=4 every order, chain alphabet'),
               ('t3', 'N=5 alias/callback chains in C declaration order'),
               ('t4', 'N=3 all kinds and flags'),
               ('t5', 'N=3 full type alphabet'),
               ('perm3', 'N=3 all 6 namespace orders explicitly (symmetry argument)')]
STEP = ('step', 'N=2 one action per walk, both orders, flags only go down')
WITNESS_QUICK = [('w_alias_cb', 'alias-to-nonintrospectable-callback')]
WITNESS_THOROUGH = [('w_alias_alias', 'alias-to-nonintrospectable-alias@use-before-declaration'),
                    ('w_fn_cb', 'function-to-nonintrospectable-callback@use-before-declaration'),
                    ('w_cb_cb', 'callback-to-nonintrospectable-callback@use-before-declaration')]
PARTIAL = ['GLib', 'GObject', 'Gio']      # harness/data/gir are stubs of these namespaces
NOSITE = dict(role='none', cont='none', tk='fund', tgt=0, xfer=True, scope=False, vskip=False)


# ---------------------------------------------------------------------------------- cases from TLC
def exported_cases(out, src):
    """<< "C05CASE", "viol"|"ok", {shapes}, [nodes, order], cdeclarable >> blocks printed by Introspect!Write"""
    cases = []
    for m in re.finditer(r'<< "C05CASE"', out):
        v = tla_to_py(out[m.start():m.start() + 20000])
        cases.append(dict(src=src, verdict=v[1], shapes=sorted(v[2]), case=v[3], cdecl=bool(v[4])))
    return cases


def case_from_trace(out):
    """the final state of a TLC error trace -> case"""
    blocks = re.split(r'^State \d+: ', out, flags=re.M)[1:]
    if not blocks:
        return None
    last = blocks[-1]

    def var(name):
        m = re.search(r'^/\\ %s = (.*?)(?=^/\\ |\Z)' % name, last, flags=re.M | re.S)
        return tla_to_py(m.group(1)) if m else None
    nodes, order = var('nodes'), var('order')
    if not nodes or not order:
        return None
    return dict(nodes=nodes, order=order), [re.match(r'<(\w+)', b).group(1) for b in blocks if re.match(r'<(\w+)', b)]


# ---------------------------------------------------------------------------------- random cases
def random_case(rng, n):
    """a C-declarable case of n nodes in the schema of tla/IntrospectWalks.tla (aliases, callbacks and
    functions only name earlier typedefs; classes last)"""
    kinds = []
    ncls = rng.choice([0, 0, 0, 1, 1, 2])
    for i in range(n - ncls):
        kinds.append(rng.choice(['alias', 'alias', 'callback', 'callback', 'callback', 'function', 'function',
                                 'record', 'record', 'enum']))
    kinds += ['class'] * ncls
    tdef = lambda i: kinds[i - 1] != 'function'

    def site(i, role, tks, allow_list):
        k = kinds[i - 1]
        earlier = [j for j in range(1, n + 1) if j != i and tdef(j) and
                   (kinds[j - 1] == 'class' or j < i or k in ('record', 'class'))]
        if role == 'property':
            earlier = [j for j in range(1, n + 1) if kinds[j - 1] == 'class']
        cont = 'list' if allow_list and rng.random() < 0.2 else 'none'
        pool = [t for t in tks if t != 'node' or earlier]
        if cont == 'list':
            pool = [t for t in ('any', 'fund', 'unres', 'node') if t != 'node' or earlier]
        tk = rng.choice(pool + (['node'] * 3 if earlier else []))
        tgt = rng.choice(earlier) if tk == 'node' else 0
        tkind = kinds[tgt - 1] if tgt else None
        xfer = True
        if role == 'return' and (cont == 'list' or tkind in ('record', 'class')):
            xfer = rng.random() < 0.6
        scope = (role == 'param' and cont == 'none' and tkind in ('callback', 'alias') and rng.random() < 0.6)
        vskip = role in ('param', 'return') and rng.random() < 0.1
        return dict(role=role, cont=cont, tk=tk, tgt=tgt, xfer=xfer, scope=scope, vskip=vskip)

    nodes = []
    for i in range(1, n + 1):
        k = kinds[i - 1]
        nd = dict(kind=k, nskip=rng.random() < 0.12, moved=False, site=dict(NOSITE), psite=dict(NOSITE), ssite=dict(NOSITE))
        if k == 'alias':
            nd['site'] = site(i, 'target', ['fund', 'valist', 'longlong', 'unres', 'foreign', 'node'], False)
        elif k in ('callback', 'function'):
            if rng.random() < 0.3:
                nd['site'] = site(i, 'return', ['fund', 'longlong', 'unres', 'foreign', 'node'], True)
            else:
                nd['site'] = site(i, 'param', ['fund', 'valist', 'longlong', 'longdouble', 'varargs', 'unres', 'foreign', 'node'], True)
            nd['moved'] = k == 'function' and rng.random() < 0.1
        elif k == 'record':
            nd['site'] = site(i, 'field', ['fund', 'longlong', 'unres', 'foreign', 'node'], True)
        elif k == 'class':
            nd['site'] = site(i, 'param', ['fund', 'valist', 'varargs', 'unres', 'node'], False)
            nd['psite'] = site(i, 'property', ['fund', 'unres', 'node'], False)
            ss = site(i, 'property', ['fund', 'unres', 'node'], False)
            ss['role'] = 'param'
            nd['ssite'] = ss
        nodes.append(nd)
    return dict(nodes=nodes, order=list(range(1, n + 1)))


def brief(case):
    out = []
    for i, n in enumerate(case['nodes']):
        s = n['site']
        t = ('list<%s>' % s['tk'] if s['cont'] == 'list' else s['tk']) + (str(s['tgt']) if s['tgt'] else '')
        out.append('%d:%s%s(%s %s%s%s%s)' % (i + 1, n['kind'], '[skip]' if n['nskip'] else '', s['role'], t,
                                             ' scope' if s['scope'] else '', '' if s['xfer'] else ' noxfer',
                                             ' vskip' if s['vskip'] else ''))
    return ' '.join(out) + ' order=%s' % case['order']


# ---------------------------------------------------------------------------------- the check
def run():
    ck = Check(PID, 'model_checking')
    a = ck.args
    from .. import scan as S
    from .. import c05proj as P
    ck.assumptions += [
        'symgen (harness/scan.py) stands in for the C lexer/parser: symbols are fed to Transformer.parse() in declaration '
        'order; generated inputs that are judged declare every typedef name before its use, as any C translation unit does '
        '(cases TLC finds under other orders are replayed as diagnostics only)',
        'dependency namespaces GLib/GObject/Gio are the synthetic stubs of harness/data/gir: a name they lack is counted as '
        'not judged, never as unresolved',
        '"not marked introspectable=0" means neither the element nor an enclosing element is marked; values carrying skip="1" '
        'are exempt from the per-value obligations (varargs, transfer, scope, element type) - counted as LiteralOnly',
        'a gpointer element type of a list/array parameter or return value counts as "no element type stated" '
        '(the writer emits that placeholder); fields and properties only need the child type',
        'model: one parameter or return value per callable, one field per record, one property/method/vfunc/signal per class',
    ]
    replay = json.load(open(a.replay))['replay'] if a.replay else None

    items = []       # dict(id, kind 'case'|'corpus', case, cdecl, src, shapes, file)

    if not replay:
        # ---------------------------------------------------------------- 1. model checking
        mcs = MC_QUICK + ([] if ck.quick else MC_THOROUGH)
        for cfg, what in mcs:
            r = ck.tlc_mc('IntrospectMC', 'Introspect_%s.cfg' % cfg, timeout=900, coverage=False,
                          label='exhaustive: %s; invariant NoUnknownViolation' % what)
            for c in exported_cases(r['out'], 'TLC Introspect_%s.cfg' % cfg):
                c['id'] = 'mc-%s-%d' % (cfg, len(items))
                c['kind'] = 'case'
                items.append(c)
        r = ck.tlc_mc('IntrospectMC', 'Introspect_%s.cfg' % STEP[0], timeout=600, coverage=True,
                      label='exhaustive: %s' % STEP[1])
        ck.cov['exhaustive'] = True
        for cfg, shape in WITNESS_QUICK + ([] if ck.quick else WITNESS_THOROUGH):
            r = ck.tlc_mc('IntrospectMC', 'Introspect_%s.cfg' % cfg, timeout=600, coverage=False, expect_ok=False,
                          label='witness search: a final state violating Closed with shape ' + shape)
            if r.get('violated') != 'NoWitness':
                raise MachineryError('model has no witness for shape %s (cfg %s): %s' % (shape, cfg, r.get('error')))
            w = case_from_trace(r['out'])
            if not w:
                raise MachineryError('cannot parse the witness trace of %s' % cfg)
            items.append(dict(id='witness-' + cfg, kind='case', case=w[0], cdecl='@' not in shape, shapes=[shape],
                              verdict='viol', src='TLC counterexample Introspect_%s.cfg (%s)' % (cfg, ' > '.join(w[1]))))
        # ---------------------------------------------------------------- 2b. random graphs beyond the bound
        nrand = 150 if ck.quick else 3000
        for i in range(nrand):
            n = ck.rng.randint(4, 10)
            items.append(dict(id='rand-%d' % i, kind='case', case=random_case(ck.rng, n), cdecl=True, shapes=[],
                              verdict='?', src='random graph of %d nodes, seed %d' % (n, ck.seed)))
        # a stratified subset of the closed cases TLC exported (all violating ones are kept)
        keep, strata = [], {}
        for it in items:
            if it.get('verdict') != 'ok':
                keep.append(it)
                continue
            key = (tuple(sorted(n['kind'] for n in it['case']['nodes'])),
                   tuple(sorted(n['site']['tk'] for n in it['case']['nodes'])), it['cdecl'])
            strata[key] = strata.get(key, 0) + 1
            if strata[key] <= (2 if ck.quick else 6):
                keep.append(it)
        items = keep
    else:
        if replay['kind'] == 'case':
            items.append(dict(id=replay['id'], kind='case', case=replay['case'], cdecl=replay.get('cdecl', True),
                              shapes=[], verdict='?', src='replay'))

    # -------------------------------------------------------------------- 2. S->C: run the real scanner
    obs, by_id = [], {}
    dep = [(n, P.defs_of(S.girabs(open(os.path.join(S.DATA, 'gir', n + '-2.0.gir'), 'rb').read()))[1]) for n in PARTIAL]
    for it in items:
        rr = P.render(it['case'], S)
        try:
            res = S.scan(rr['symbols'], rr['comments'], dump_xml=rr['dump_xml'], warnings=False)
        except (SystemExit, Exception) as e:      # the scanner refused the input: no GIR, nothing to judge
            ck.notes.append('scanner raised %r on %s (%s)' % (e, it['id'], brief(it['case'])))
            continue
        tree = S.girabs(res.xml)
        o = P.project(tree, it['id'], dep, partial=PARTIAL)
        o['marks'] = P.marks_of(tree)
        o['model'] = dict(nodes=it['case']['nodes'], order=it['case']['order'], names=rr['names'])
        obs.append(o)
        it['xml'] = res.xml
        by_id[it['id']] = it
        ck.count()
    # -------------------------------------------------------------------- 3. C->S corpus
    corpus_dirs = [os.path.join(REPO, 'tests', 'scanner'), os.path.join(REPO, 'gir')]
    allg = P.load_gir_dirs(corpus_dirs + [os.path.join(S.DATA, 'gir')])
    by_ns, defs_ns = {}, {}
    for f, tree, ns, d in allg:           # corpus directories take precedence over the harness stubs
        if ns not in by_ns:
            by_ns[ns], defs_ns[ns] = tree, d
    stub_ns = set(ns for f, t, ns, d in allg if f.startswith(S.DATA) and by_ns[ns] is t)
    for f, tree, ns, d in allg:
        if f.startswith(S.DATA) or not f.endswith('.gir'):
            continue
        if replay and not (replay['kind'] == 'corpus' and replay['file'] == os.path.relpath(f, REPO)):
            continue
        inc = P.included_closure(tree, by_ns)
        wanted = P.includes_of(tree)
        o = P.project(tree, 'corpus:' + os.path.relpath(f, REPO), [(n, defs_ns[n]) for n in inc],
                      partial=sorted(stub_ns & set(inc)))
        o['marks'] = []
        o['model'] = dict(nodes=[], order=[], names=[])
        obs.append(o)
        by_id[o['id']] = dict(id=o['id'], kind='corpus', file=os.path.relpath(f, REPO), cdecl=True,
                              src='repository file', missing=[n for n in wanted if n not in by_ns])
        ck.count()

    if not obs:
        raise MachineryError('nothing to judge')
    # -------------------------------------------------------------------- 4. verdicts by TLC
    rejected, exercised = ck.tlc_verdict('IntrospectTrace', obs, chunk=1500, timeout=900)
    ndrift, ndiag = 0, 0
    drift_ids = set()
    for oid, clause, shape, element in rejected:
        it = by_id[oid]
        if clause == 'DRIFT':
            ndrift += 1
            if oid not in drift_ids and len(drift_ids) < 12:
                ck.notes.append('DRIFT %s: %s at %s (%s)' % (oid, shape, element, brief(it['case'])))
            drift_ids.add(oid)
            continue
        if it['kind'] == 'corpus':
            sig = dict(clause=clause, shape=shape, file=it['file'], element=element)
            ck.violation(sig, '%s: %s violated (%s) at %s' % (it['file'], clause, shape, element),
                         dict(kind='corpus', id=oid, file=it['file'], clause=clause, element=element))
            continue
        if not it['cdecl']:
            ndiag += 1      # TLC candidate under an order no C header can declare: reproduced, not judged
            if ndiag <= 6:
                ck.notes.append('candidate reproduced under a use-before-declaration order (outside the quantifier): %s %s %s [%s]'
                                % (clause, shape, element, brief(it['case'])))
            continue
        sig = dict(clause=clause, shape=shape)
        ck.violation(sig, '%s violated (%s) at %s\n  case %s: %s\n  from %s' % (clause, shape, element, oid, brief(it['case']), it['src']),
                     dict(kind='case', id=oid, case=it['case'], cdecl=it['cdecl'], clause=clause, shape=shape, element=element,
                          gir=it.get('xml', '')[:20000]))
    # model counterexamples the real code does not reproduce: spec drift, reported as notes
    rej_ids = set(r[0] for r in rejected if r[1] != 'DRIFT')
    for it in items:
        if it.get('verdict') == 'viol' and it['id'] in by_id and it['id'] not in rej_ids:
            ck.notes.append('model counterexample not reproduced by the real code: %s %s' % (it['shapes'], brief(it['case'])))
    ck.cov['drift_records'] = ndrift
    ck.cov['drifted_cases'] = len(drift_ids)
    ck.cov['unrealizable_order_candidates_reproduced'] = ndiag
    ck.cov['cases'] = dict(scanned=sum(1 for o in obs if not o['id'].startswith('corpus:')),
                           corpus=sum(1 for o in obs if o['id'].startswith('corpus:')),
                           tlc_violating=sum(1 for it in items if it.get('verdict') == 'viol'),
                           tlc_closed=sum(1 for it in items if it.get('verdict') == 'ok'),
                           random=sum(1 for it in items if it['id'].startswith('rand-')))
    ck.cov['corpus_missing_includes'] = {v['file']: v['missing'] for v in by_id.values() if v['kind'] == 'corpus' and v.get('missing')}
    ck.cov['rule'] = ('an evaluation = one GIR (a scanned generated namespace or a repository file) judged by TLC; non-trivial = '
                      'the GIR contains at least one element marked introspectable="0" or a rejected element; distinct by case')
    for o in obs:
        if any(m['marked'] for m in o['marks']) or any(u['marked'] for u in o['uses']):
            ck.nontrivial(o['id'])
    for it in items[:2]:
        ck.sample(dict(id=it['id'], src=it['src'], case=brief(it['case'])))
    core = ['UsesResolve', 'UsesIntrospectable', 'NoVarargs', 'NoLongLong', 'TransferStated', 'ScopeStated', 'ElementTyped',
            'IndexInRange', 'TypeStructMutual', 'AccessorAgree', 'InvokerIsMethod', 'ShadowsMutual']
    if not replay:
        vac = [c for c in core if not exercised.get(c)]
        if vac:
            raise MachineryError('clauses never exercised: %s' % vac)
    return ck.finish()


if __name__ == '__main__':
    main_wrapper(PID, run)

"""C05 - everything left introspectable is bindable and every reference resolves.

1. TLC model-checks tla/Introspect.tla (the nine walks of IntrospectablePass.validate over every small
   namespace graph / flag assignment / namespace order): implementation layer => Closed.  Under C
   declaration order no violation is reachable; under use-before-declaration orders (which no C header
   can produce) the known shapes are (NoUnknownViolation); witness configurations re-derive one
   counterexample per shape as a TLC error trace, and the defect fixed by /repo 8003e8e in the what-if
   variant AliasRecheck = FALSE.
2. S->C: every violating final case TLC exports (without padding nodes), a sample of the closed ones,
   the witnesses, seeded random graphs beyond the exhaustive bound and a sweep over cross-reference
   features (array lengths, closures, rename-to, accessors, invokers, containers, exotic C types;
   harness/c05proj.py EXTRA_VARIANTS) are rendered as real symbol sets
   (harness/c05proj.render + harness/scan symgen), scanned by the REAL pipeline, flattened
   (c05proj.project: structure only) and judged by TLC (tla/IntrospectTrace.tla: Closed of
   tla/IntrospectProp.tla; DRIFT = the code no longer follows the implementation-shaped layer).
3. C->S corpus: the same judgement on every GIR file in tests/scanner/*-expected.gir and gir/*.gir.
Python never decides: it renders, runs, flattens and relays TLC's rejections.
"""
import glob, json, os, re, sys
from concurrent.futures import ThreadPoolExecutor

from ..common import Check, MachineryError, main_wrapper, REPO, VERIF, NCPU, tla_to_py

PID = 'C05'
MC_QUICK = [('q1', 'N=3 alias/callback/function, every order'),
            ('q2', 'N=2 with (skip) on nodes and values, GList containers'),
            ('q3', 'N=2 with a GObject class: property/setter, vfunc/invoker, signal, cross-scope rename-to'),
            ('q4', 'N=3 record/callback/alias/function with methods of records, C declaration order')]
MC_THOROUGH = [('t1', 'N=4 alias/callback/function in C declaration order'),
               ('t2', 'N=4 every order, chain alphabet'),
               ('t3', 'N=5 alias/callback chains in C declaration order'),
               ('t4', 'N=2 all kinds, all flags (skip on nodes and values, GList, return sites, moved-to copies)'),
               ('t5', 'N=3 full type alphabet'),
               ('t6', 'N=3 with (skip) on nodes and values: skip propagation chains'),
               ('t7', 'N=3 with GObject classes'),
               ('perm3', 'N=3 all 6 namespace orders explicitly (symmetry argument)')]
STEP = ('step', 'N=2 one action per walk, both orders, flags only go down')
# (cfg, shape, what-if variant or False): a what-if witness re-derives a defect that has been fixed in /repo from the
# implementation-shaped layer with the corresponding constant switched back; the current code must not reproduce it
WITNESS_QUICK = [('w_alias_cb', 'alias-to-nonintrospectable-callback', 'AliasRecheck = FALSE, the walks before /repo 8003e8e'),
                 ('w_rename', 'shadows-not-mutual / shadowed-by-not-mutual', 'RenameScopeCheck = FALSE, rename-to before /repo 207651c'),
                 ('w_fn_alias', 'function-to-nonintrospectable-alias@use-before-declaration', False)]
WITNESS_THOROUGH = [('w_one_walk', 'method-to-nonintrospectable-callback', 'CallableWalks = 1, a single callable-analysis walk'),
                    ('w_alias_alias', 'alias-to-nonintrospectable-alias@use-before-declaration', False),
                    ('w_fn_cb', 'function-to-nonintrospectable-callback@use-before-declaration', False),
                    ('w_cb_cb', 'callback-to-nonintrospectable-callback@use-before-declaration', False)]
PARTIAL = ['GLib', 'GObject', 'Gio']      # harness/data/gir are stubs of these namespaces
NOSITE = dict(role='none', cont='none', tk='fund', tgt=0, xfer=True, scope=False, vskip=False)


# ---------------------------------------------------------------------------------- cases from TLC
def exported_cases(out, src):
    """<< "C05CASE", "viol"|"ok", {shapes}, [nodes, order], cdeclarable >> blocks printed by Introspect!Write"""
    cases = []
    for m in re.finditer(r'<< "C05CASE"', out):
        v = tla_to_py(out[m.start():m.start() + 20000])
        cases.append(dict(src=src, verdict=v[1], shapes=sorted(v[2]), case=v[3], cdecl=bool(v[4])))
    return cases


def case_from_trace(out):
    """the final state of a TLC error trace -> case"""
    blocks = re.split(r'^State \d+: ', out, flags=re.M)[1:]
    if not blocks:
        return None
    last = blocks[-1]

    def var(name):
        m = re.search(r'^/\\ %s = (.*?)(?=^/\\ |\Z)' % name, last, flags=re.M | re.S)
        return tla_to_py(m.group(1)) if m else None
    nodes, order = var('nodes'), var('order')
    if not nodes or not order:
        return None
    return dict(nodes=nodes, order=order), [re.match(r'<(\w+)', b).group(1) for b in blocks if re.match(r'<(\w+)', b)]


# ---------------------------------------------------------------------------------- random cases
def random_case(rng, n):
    """a C-declarable case of n nodes in the schema of tla/IntrospectWalks.tla (aliases, callbacks and
    functions only name earlier typedefs; classes last)"""
    kinds = []
    ncls = rng.choice([0, 0, 0, 1, 1, 2])
    for i in range(n - ncls):
        kinds.append(rng.choice(['alias', 'alias', 'callback', 'callback', 'callback', 'function', 'function',
                                 'record', 'record', 'enum']))
    kinds += ['class'] * ncls
    tdef = lambda i: kinds[i - 1] != 'function'

    def site(i, role, tks, allow_list):
        k = kinds[i - 1]
        earlier = [j for j in range(1, n + 1) if j != i and tdef(j) and
                   (kinds[j - 1] == 'class' or j < i or k in ('record', 'class'))]
        if role == 'property':
            earlier = [j for j in range(1, n + 1) if kinds[j - 1] == 'class']
        cont = 'list' if allow_list and rng.random() < 0.2 else 'none'
        pool = [t for t in tks if t != 'node' or earlier]
        if cont == 'list':
            pool = [t for t in ('any', 'fund', 'unres', 'node') if t != 'node' or earlier]
        tk = rng.choice(pool + (['node'] * 3 if earlier else []))
        tgt = rng.choice(earlier) if tk == 'node' else 0
        tkind = kinds[tgt - 1] if tgt else None
        xfer = True
        if role == 'return' and (cont == 'list' or tkind in ('record', 'class')):
            xfer = rng.random() < 0.6
        scope = (role == 'param' and cont == 'none' and tkind in ('callback', 'alias') and rng.random() < 0.6)
        vskip = role in ('param', 'return') and rng.random() < 0.1
        return dict(role=role, cont=cont, tk=tk, tgt=tgt, xfer=xfer, scope=scope, vskip=vskip)

    nodes = []
    for i in range(1, n + 1):
        k = kinds[i - 1]
        nd = dict(kind=k, nskip=rng.random() < 0.12, moved=False, ren=0, host=0, site=dict(NOSITE), psite=dict(NOSITE), ssite=dict(NOSITE))
        if k == 'alias':
            nd['site'] = site(i, 'target', ['fund', 'valist', 'longlong', 'unres', 'foreign', 'node'], False)
        elif k in ('callback', 'function'):
            if rng.random() < 0.3:
                nd['site'] = site(i, 'return', ['fund', 'longlong', 'unres', 'foreign', 'node'], True)
            else:
                nd['site'] = site(i, 'param', ['fund', 'valist', 'longlong', 'longdouble', 'varargs', 'unres', 'foreign', 'node'], True)
            nd['moved'] = k == 'function' and rng.random() < 0.1
            if k == 'function' and ncls and rng.random() < 0.15:
                nd['ren'] = n - rng.randrange(ncls)
            recs = [j for j in range(1, i) if kinds[j - 1] == 'record'
                    and sum(1 for x in nodes if x.get('host') == j) < 2]      # (the model follows two methods per record)
            if k == 'function' and recs and rng.random() < 0.35:        # a method of an earlier record
                nd['host'], nd['moved'], nd['ren'] = rng.choice(recs), False, 0
        elif k == 'record':
            nd['site'] = site(i, 'field', ['fund', 'longlong', 'unres', 'foreign', 'node'], True)
        elif k == 'class':
            nd['site'] = site(i, 'param', ['fund', 'valist', 'varargs', 'unres', 'node'], False)
            nd['psite'] = site(i, 'property', ['fund', 'unres', 'node'], False)
            ss = site(i, 'property', ['fund', 'unres', 'node'], False)
            ss['role'] = 'param'
            nd['ssite'] = ss
        nodes.append(nd)
    case = dict(nodes=nodes, order=list(range(1, n + 1)))
    case['extras'] = [random_extra(rng, kinds) for _ in range(rng.choice([0, 0, 1, 1, 2, 3]))]
    return case


def random_extra(rng, kinds):
    """a cross-reference feature (schema: harness/c05proj.py EXTRA_VARIANTS) attached to the graph"""
    from .. import c05proj as P
    k = rng.choice(['arrlen', 'fieldarr', 'clos', 'clos', 'shadow', 'shadow', 'klass', 'cont', 'cont', 'exotic',
                    'movedm', 'movedm', 'vslot'])
    recs = [i + 1 for i, x in enumerate(kinds) if x == 'record']
    tdefs = [i + 1 for i, x in enumerate(kinds) if x not in ('function', )]
    return dict(kind=k, v=rng.choice(P.EXTRA_VARIANTS[k]), tgt=rng.choice(tdefs + [0]) if tdefs else 0,
                host=rng.choice(recs + [0, 0]) if recs else 0)


def sweep_cases(full):
    """every variant of every extra over a fixed 4-node base graph: record R1, callback Cb2, alias A3 of the
    callback, enum E4.  Each variant is rendered (A) as a top-level declaration over the plain base and (B) as
    a method of the record (where that applies) over a base whose callback is not introspectable - for a reason
    found by the first pass (varargs) or only by the callable-analysis walks (va_list, long long), so that the
    alias and whatever uses them have to be demoted by the later walks.  full: the whole product instead."""
    from .. import c05proj as P
    out = []
    i = 0
    bads = ['varargs', 'valist', 'longlong']
    for k in sorted(P.EXTRA_VARIANTS):
        for v in P.EXTRA_VARIANTS[k]:
            combos = [(h, b, t) for h in (0, 1) for b in ['fund'] + bads for t in (2, 3, 1, 4, 0)] if full else \
                     [(0, 'fund', [3, 2, 1, 4, 0][i % 5]), (1, bads[i % 3], [2, 3][(i // 3) % 2])]
            if full and (k in ('klass', 'exotic', 'fieldarr', 'shadow', 'movedm', 'vslot') or (k == 'cont' and ':node:' not in v)):
                combos = [c for c in combos if c[2] == 2]                     # no type slot: the target does not matter
            for host, bad, tgt in combos:
                site = lambda role, tk, t=0: dict(role=role, cont='none', tk=tk, tgt=t, xfer=True, scope=False, vskip=False)
                nodes = [dict(kind='record', site=site('field', 'fund')),
                         dict(kind='callback', site=site('param', bad)),
                         dict(kind='alias', site=site('target', 'node', 2)),
                         dict(kind='enum', site=dict(NOSITE))]
                for nd in nodes:
                    nd.update(nskip=False, moved=False, ren=0, host=0, psite=dict(NOSITE), ssite=dict(NOSITE))
                out.append(dict(nodes=nodes, order=[1, 2, 3, 4], extras=[dict(kind=k, v=v, tgt=tgt, host=host)]))
            i += 1
    return out


def brief(case):
    out = []
    for i, n in enumerate(case['nodes']):
        s = n['site']
        t = ('list<%s>' % s['tk'] if s['cont'] == 'list' else s['tk']) + (str(s['tgt']) if s['tgt'] else '')
        out.append('%d:%s%s%s%s(%s %s%s%s%s)' % (i + 1, n['kind'], '[skip]' if n['nskip'] else '', '[moved]' if n.get('moved') else '',
                                                 (('[rename-to %d.set_p]' % n['ren']) if n.get('ren') else '') + (('[method of %d]' % n['host']) if n.get('host') else ''),
                                                 s['role'], t,
                                             ' scope' if s['scope'] else '', '' if s['xfer'] else ' noxfer',
                                             ' vskip' if s['vskip'] else ''))
    ex = ''.join(' +%s:%s%s%s' % (x['kind'], x['v'], ('@r%d' % x['host']) if x.get('host') else '',
                                  ('->%d' % x['tgt']) if x.get('tgt') else '') for x in case.get('extras', []))
    return ' '.join(out) + ' order=%s' % case['order'] + ex


# ---------------------------------------------------------------------------------- TLC runs, side by side
def mc_many(ck, jobs, concurrent):
    """jobs: [dict(cfg, label, coverage, expect_ok, workers, heap)].  Runs TLC on IntrospectMC for all of them,
    `concurrent` at a time (the configurations are small: one JVM start each dominates when run one after the
    other), then does the bookkeeping of Check.tlc_mc for each in job order.  -> {cfg: TLCResult}"""
    def one(j):
        extra = ['-coverage', '1'] if j.get('coverage') else []
        env = dict(JAVA_TOOL_OPTIONS='-Xmx%s -XX:ParallelGCThreads=%d' % (j.get('heap', '3g'), max(1, min(NCPU, j['workers']) // 2 + 1)))
        return ck._tlc('IntrospectMC.tla', 'Introspect_%s.cfg' % j['cfg'], extra, env, j.get('timeout', 3000), j['workers'])
    with ThreadPoolExecutor(max_workers=concurrent) as ex:
        results = list(ex.map(one, jobs))
    out = {}
    for j, r in zip(jobs, results):
        cfg = 'Introspect_%s.cfg' % j['cfg']
        ck.cov['states'] += r['distinct']
        ck.cov['transitions'] += r['generated']
        ck.cov['tlc_runs'].append(dict(module='IntrospectMC', cfg=cfg, label=j['label'], generated=r['generated'],
                                       distinct=r['distinct'], depth=r['depth'], wall_s=r['wall_s'], ok=r['ok'], mode='exhaustive',
                                       violated=r.get('violated'),
                                       actions_never_taken=sorted(a for a, (d, g) in r['coverage'].items()
                                                                  if g == 0 and a not in j.get('disabled_actions', ()))))
        if j.get('expect_ok', True) and not r['ok']:
            raise MachineryError('TLC on IntrospectMC/%s did not complete cleanly: %s\n%s' % (cfg, r.get('error'), r['out'][-3000:]))
        out[j['cfg']] = r
    return out


WALK_ACTIONS = ['AliasAnalysis', 'SkipPropagation', 'AnalyzeNode', 'CallableAnalysis1', 'CallableAnalysis2', 'PropertyAnalysis',
                'Pass3', 'BackcompatRemoval', 'SymbolCollisions', 'Build', 'StartWalks', 'Write']
CORE = ['UsesResolve', 'UsesIntrospectable', 'NoVarargs', 'NoLongLong', 'TransferStated', 'ScopeStated', 'ElementTyped',
        'IndexInRange', 'IndexNames', 'TypeStructMutual', 'AccessorAgree', 'AccessorMutual', 'InvokerIsMethod', 'ShadowsMutual']


def fill_wants(case, idx, P):
    """idx records of the declarations rendered from extra i (their GIR paths carry x<i>): want = the parameter /
    field name the rendered annotation named (harness/c05proj.extra_wants)"""
    for i, x in enumerate(case.get('extras', []), 1):
        wants = P.extra_wants(x)
        if not wants:
            continue
        pat = re.compile(r'(?<![0-9A-Za-z])[xX]%d(?![0-9])' % i)
        for r in idx:
            leaf = r['id'].rsplit('/', 1)[-1]
            if (r['kind'], leaf) in wants and pat.search(r['id']):
                r['want'] = wants[(r['kind'], leaf)]


def features_of(case, element):
    """the extras (kind:variant) whose declarations the GIR path `element` belongs to (names carry x<index>)"""
    label = lambda x: 'klass:' + x['v'].split(':')[1] if x['kind'] == 'klass' else '%s:%s' % (x['kind'], x['v'])
    return sorted(set(label(x) for i, x in enumerate(case.get('extras', []), 1)
                      if re.search(r'(?<![0-9A-Za-z])[xX]%d(?![0-9])' % i, element)))


# ---------------------------------------------------------------------------------- the check
def run():
    ck = Check(PID, 'model_checking')
    a = ck.args
    from .. import scan as S
    from .. import c05proj as P
    ck.assumptions += [
        'symgen (harness/scan.py) stands in for the C lexer/parser: symbols are fed to Transformer.parse() in declaration '
        'order; generated inputs that are judged declare every typedef name before its use, as any C translation unit does '
        '(the lexer only knows a typedef name after its declaration; cases TLC finds under other orders are replayed as '
        'diagnostics only)',
        'dependency namespaces GLib/GObject/Gio are the synthetic stubs of harness/data/gir: a name they lack is counted as '
        'not judged, never as unresolved',
        '"not marked introspectable=0" means neither the element nor an enclosing element is marked; values carrying skip="1" '
        'are exempt from the per-value obligations (varargs, transfer, scope, element type) - counted as LiteralOnly',
        'a gpointer element type of a list/array parameter or return value counts as "no element type stated" '
        '(the writer emits that placeholder); fields, properties and alias targets only need the child type; a GHashTable '
        'is neither a list nor an array (it needs its two children, their names are not judged)',
        'closure/destroy/length indices count <parameter> elements (the instance parameter has no index); a field array length '
        'counts the <field>/<record>/<union> children of the enclosing compound',
        'setter/getter agreement is demanded from the property towards the method it names (AccessorAgree, when the type has '
        'such a method) and from a method towards the property it names (AccessorMutual); the latter only on generated inputs, '
        'whose accessor attributes are known to be inferred (the renderer writes no accessor annotations) - in a repository '
        'file one cannot tell an inferred glib:get-property from an annotated one',
        'model: one parameter or return value per callable, one field per record, one property/method/vfunc/signal per class; '
        'the cross-reference features (arrays with lengths, closures, rename-to, accessor sets, containers, exotic C types) '
        'are generated inputs outside the implementation-shaped layer: judged by Closed, not compared with predicted marks',
    ]
    replay = json.load(open(a.replay))['replay'] if a.replay else None

    items = []       # dict(id, kind 'case'|'corpus', case, cdecl, src, shapes, file)

    def corpus_pass():
        """C->S corpus: every GIR file of tests/scanner and gir/, judged by TLC in one batch.  Runs in a thread next to
        the model checking (it needs nothing from it); touches no bookkeeping key the main thread uses meanwhile."""
        corpus_obs, ids = [], {}
        corpus_dirs = [os.path.join(REPO, 'tests', 'scanner'), os.path.join(REPO, 'gir')]
        allg = P.load_gir_dirs(corpus_dirs + [os.path.join(S.DATA, 'gir')])
        by_ns, defs_ns = {}, {}
        for f, tree, ns, d in allg:           # corpus directories take precedence over the harness stubs
            if ns not in by_ns:
                by_ns[ns], defs_ns[ns] = tree, d
        stub_ns = set(ns for f, t, ns, d in allg if f.startswith(S.DATA) and by_ns[ns] is t)
        for f, tree, ns, d in allg:
            if f.startswith(S.DATA) or not f.endswith('.gir'):
                continue
            if replay and not (replay['kind'] == 'corpus' and replay['file'] == os.path.relpath(f, REPO)):
                continue
            inc = P.included_closure(tree, by_ns)
            wanted = P.includes_of(tree)
            o = P.project(tree, 'corpus:' + os.path.relpath(f, REPO), [(n, defs_ns[n]) for n in inc],
                          partial=sorted(stub_ns & set(inc)), inferred=False)
            o['marks'] = []
            o['model'] = dict(nodes=[], order=[], names=[])
            corpus_obs.append(o)
            ids[o['id']] = dict(id=o['id'], kind='corpus', file=os.path.relpath(f, REPO), cdecl=True,
                                src='repository file', missing=[n for n in wanted if n not in by_ns])
        rj, ex = ck.tlc_verdict('IntrospectTrace', corpus_obs, chunk=1000, timeout=1500) if corpus_obs else ([], {})
        return corpus_obs, ids, rj, ex

    # (on a capped machine - VERIF_NCPU - one TLC at a time: the corpus pass then runs after the scans instead)
    corpus_future = ThreadPoolExecutor(max_workers=1).submit(corpus_pass) if NCPU >= 8 else None

    if not replay:
        # ---------------------------------------------------------------- 1. model checking (all configurations side by side)
        mcs = MC_QUICK + ([] if ck.quick else MC_THOROUGH)
        wits = WITNESS_QUICK + ([] if ck.quick else WITNESS_THOROUGH)
        w = min(3 if ck.quick else 4, NCPU)          # TLC workers per configuration (NCPU honours VERIF_NCPU)
        jobs = [dict(cfg=c, label='exhaustive: %s; invariant NoUnknownViolation' % what, workers=w) for c, what in mcs]
        jobs.append(dict(cfg=STEP[0], label='exhaustive: %s' % STEP[1], coverage=True, workers=w, heap='4g',
                         disabled_actions=('Finish', )))       # Stepwise = TRUE: the one-step composition is switched off
        for c, shape, whatif in wits:
            jobs.append(dict(cfg=c, expect_ok=False, workers=min(2, NCPU),
                             label='witness search%s: a final state violating Closed with shape %s'
                                   % ((' in the what-if variant (%s)' % whatif) if whatif else '', shape)))
        big = ['t1', 't2', 't3', 't5', 't6', 't7', 't4', 'perm3']          # longest first
        jobs.sort(key=lambda j: big.index(j['cfg']) if j['cfg'] in big else len(big))
        # on 16 cores: quick = all eight JVMs at once (small state spaces, the JVM start dominates), thorough = four at a
        # time; with VERIF_NCPU=3: one at a time
        res = mc_many(ck, jobs, concurrent=max(1, (NCPU // 2 if ck.quick else NCPU // 4)))
        ck.cov['exhaustive'] = True
        for c, what in mcs:
            for e in exported_cases(res[c]['out'], 'TLC Introspect_%s.cfg' % c):
                e['id'] = 'mc-%s-%d' % (c, len(items))
                e['kind'] = 'case'
                items.append(e)
        never = [x for x in WALK_ACTIONS if res[STEP[0]]['coverage'].get(x, (0, 0))[1] == 0]
        if never:
            raise MachineryError('walk actions never taken in Introspect_%s.cfg: %s' % (STEP[0], never))
        for c, shape, whatif in wits:
            r = res[c]
            if r.get('violated') != 'NoWitness':
                raise MachineryError('model has no witness for shape %s (cfg %s): %s' % (shape, c, r.get('error')))
            wt = case_from_trace(r['out'])
            if not wt:
                raise MachineryError('cannot parse the witness trace of %s' % c)
            items.append(dict(id='witness-' + c, kind='case', case=wt[0], cdecl='@' not in shape, shapes=[shape], whatif=whatif,
                              verdict='viol', src='TLC counterexample Introspect_%s.cfg (%s)' % (c, ' > '.join(wt[1]))))
        # a stratified subset of the closed cases TLC exported (all violating ones are kept)
        keep, strata = [], {}
        for it in items:
            if it.get('verdict') != 'ok':
                keep.append(it)
                continue
            key = (tuple(sorted(n['kind'] for n in it['case']['nodes'])),
                   tuple(sorted(n['site']['tk'] for n in it['case']['nodes'])), it['cdecl'])
            strata[key] = strata.get(key, 0) + 1
            if strata[key] <= (2 if ck.quick else 6):
                keep.append(it)
        items = keep
        # ---------------------------------------------------------------- 2b. beyond the bound: random graphs, feature sweep
        nrand = 150 if ck.quick else 3000
        for i in range(nrand):
            n = ck.rng.randint(4, 10)
            items.append(dict(id='rand-%d' % i, kind='case', case=random_case(ck.rng, n), cdecl=True, shapes=[],
                              verdict='?', src='random graph of %d nodes, seed %d' % (n, ck.seed)))
        for i, c in enumerate(sweep_cases(not ck.quick)):
            items.append(dict(id='sweep-%d' % i, kind='case', case=c, cdecl=True, shapes=[], verdict='?',
                              src='cross-reference feature sweep'))
    else:
        if replay['kind'] == 'case':
            items.append(dict(id=replay['id'], kind='case', case=replay['case'], cdecl=replay.get('cdecl', True),
                              shapes=[], verdict='?', src='replay'))

    # -------------------------------------------------------------------- 2. S->C: run the real scanner
    obs, by_id = [], {}
    dep = [(n, P.defs_of(S.girabs(open(os.path.join(S.DATA, 'gir', n + '-2.0.gir'), 'rb').read()))[1]) for n in PARTIAL]
    refused = 0
    for it in items:
        for nd in it['case']['nodes']:
            nd.setdefault('ren', 0)
            nd.setdefault('host', 0)
        rr = P.render(it['case'], S)
        try:
            res_ = S.scan(rr['symbols'], rr['comments'], dump_xml=rr['dump_xml'], warnings=False)
        except (SystemExit, Exception) as e:      # the scanner refused the input: no GIR, nothing to judge
            refused += 1
            if refused <= 8:
                ck.notes.append('scanner raised %r on %s (%s)' % (e, it['id'], brief(it['case'])))
            continue
        tree = S.girabs(res_.xml)
        o = P.project(tree, it['id'], dep, partial=PARTIAL, inferred=True)     # the renderer writes no accessor annotations
        fill_wants(it['case'], o['idx'], P)
        o['marks'] = P.marks_of(tree)
        o['model'] = dict(nodes=it['case']['nodes'], order=it['case']['order'], names=rr['names'])
        obs.append(o)
        it['xml'] = res_.xml
        by_id[it['id']] = it
        ck.count()
    ck.cov['inputs_refused_by_scanner'] = refused
    # -------------------------------------------------------------------- 3. C->S corpus (started before the model checking)
    corpus_obs, corpus_ids, rejected_corpus, ex_corpus = corpus_future.result() if corpus_future else corpus_pass()
    by_id.update(corpus_ids)
    ck.count(len(corpus_obs))

    if not obs and not corpus_obs:
        raise MachineryError('nothing to judge')
    # -------------------------------------------------------------------- 4. verdicts by TLC
    rejected, ex_gen = list(rejected_corpus), {}
    if obs:
        rj, ex_gen = ck.tlc_verdict('IntrospectTrace', obs, chunk=1000, timeout=1500)
        rejected += rj
    ck.cov['clauses_exercised_by_generated_inputs'] = ex_gen
    ck.cov['clauses_exercised_by_corpus'] = ex_corpus
    ndrift, ndiag = 0, 0
    drift_ids = set()
    for oid, clause, shape, element in rejected:
        it = by_id[oid]
        if clause == 'DRIFT':
            ndrift += 1
            if oid not in drift_ids and len(drift_ids) < 12:
                ck.notes.append('DRIFT %s: %s at %s (%s)' % (oid, shape, element, brief(it['case'])))
            drift_ids.add(oid)
            continue
        if it['kind'] == 'corpus':
            sig = dict(clause=clause, shape=shape, file=it['file'], element=element)
            ck.violation(sig, '%s: %s violated (%s) at %s' % (it['file'], clause, shape, element),
                         dict(kind='corpus', id=oid, file=it['file'], clause=clause, element=element))
            continue
        if not it['cdecl']:
            ndiag += 1      # TLC candidate under an order no C header can declare: reproduced, not judged
            if ndiag <= 8:
                ck.notes.append('candidate reproduced under a use-before-declaration order (outside the quantifier): %s %s %s [%s]'
                                % (clause, shape, element, brief(it['case'])))
            continue
        feature = features_of(it['case'], element)
        sig = dict(clause=clause, shape=shape, feature=feature)
        ck.violation(sig, '%s violated (%s) at %s\n  case %s: %s\n  from %s' % (clause, shape, element, oid, brief(it['case']), it['src']),
                     dict(kind='case', id=oid, case=it['case'], cdecl=it['cdecl'], clause=clause, shape=shape, element=element,
                          gir=it.get('xml', '')[:20000]))
    # model counterexamples the real code does not reproduce
    rej_ids = set(r[0] for r in rejected if r[1] != 'DRIFT')
    for it in items:
        if it.get('verdict') == 'viol' and it['id'] in by_id and it['id'] not in rej_ids:
            if it.get('whatif'):
                ck.notes.append('what-if witness (%s) is NOT reproduced by the current code, as expected: %s %s'
                                % (it['whatif'], it['shapes'], brief(it['case'])))
            else:
                ck.notes.append('model counterexample not reproduced by the real code (spec drift): %s %s' % (it['shapes'], brief(it['case'])))
    ck.cov['drift_records'] = ndrift
    ck.cov['drifted_cases'] = len(drift_ids)
    ck.cov['unrealizable_order_candidates_reproduced'] = ndiag
    ck.cov['cases'] = dict(scanned=len(obs), corpus=len(corpus_obs),
                           tlc_violating=sum(1 for it in items if it.get('verdict') == 'viol'),
                           tlc_closed=sum(1 for it in items if it.get('verdict') == 'ok'),
                           random=sum(1 for it in items if it['id'].startswith('rand-')),
                           feature_sweep=sum(1 for it in items if it['id'].startswith('sweep-')))
    ck.cov['corpus_missing_includes'] = {v['file']: v['missing'] for v in by_id.values() if v['kind'] == 'corpus' and v.get('missing')}
    ck.cov['rule'] = ('an evaluation = one GIR (a scanned generated namespace or a repository file) judged by TLC; non-trivial = '
                      'the GIR contains at least one element marked introspectable="0" or a rejected element; distinct by case')
    for o in obs + corpus_obs:
        if any(m['marked'] for m in o['marks']) or any(u['marked'] for u in o['uses']):
            ck.nontrivial(o['id'])
    for it in items[:2] + [x for x in items if x['id'].startswith('sweep-')][:1]:
        ck.sample(dict(id=it['id'], src=it['src'], case=brief(it['case'])))
    if not replay:
        vac = [c for c in CORE if not ex_gen.get(c)]
        if vac:
            raise MachineryError('clauses never exercised by generated inputs: %s' % vac)
    return ck.finish()


if __name__ == '__main__':
    main_wrapper(PID, run)

"""C09 -- the repository API and g-ir-generate report what the typelib contains.

1. TLC model-checks the section arithmetic of tla/Typelib.tla (part 2): for every container kind and every vector of
   member counts (0..2 quick / 0..3 thorough) x odd/even index arrays x every subset of fields with an embedded
   callback, the closed form MemberOffset the accessors must implement lands exactly where the writer's cursor put each
   member (contiguous, aligned, no overlap, no hole).
   member (contiguous, aligned, no overlap, no hole), and that the C accessors as transcribed (Typelib!AccessorOffset, TypelibApi
   part 4b) meet it.  One witness configuration per what-if switch Dev (behaviour of an earlier version, repaired by a fix:
   commit) must FAIL: Typelib_w_union / _uniondep / _boxed / _genenum / _genunion / _gendouble / _genstring.cfg.
2. Typelibs: compiled by REPO's g-ir-compiler from generated documents (every combination of empty / non-empty member
   sections per container kind -- the shapes TLC exports --, the element case families of C06, seeded random documents
   with attributes on every node) AND the system GLib/GObject/Gio/GModule typelibs.
3. harness/cdrv/drv_walk.c loads each typelib through the REAL g_irepository API, enumerates get_n_infos/get_info and
   calls every accessor of every info (count + i-th of every section, flags, types recursively, attributes by iteration
   and by name for present and absent names, find_method/find_vfunc/find_signal/find_field); REPO's g-ir-generate writes
   the XML of the same typelib.
4. harness/tlabs.py decodes the same bytes independently; harness/tlapi.py pairs blob and report; tla/TypelibTrace.tla
   (clause families of tla/TypelibApi.tla) judges every reported value against the blob at the offset the format's
   arithmetic gives, every directory entry reported once with the right kind, and the XML element by element.
   The decoder itself is calibrated in the same run: the layout invariants and the reader view (MemberOffset) must hold
   on the system typelibs.  Verdicts come from TLC only.
"""
import json, os, random, shutil, time

from ..common import Check, MachineryError, main_wrapper, REPO, VERIF, NCPU
from ..cbuild import CBuild
from .. import tlgir as T
from .. import tlcases as TC
from .. import tlapi as A
from .. import tlabs
from .c06 import export_cases, mark_env

PID = 'C09'
SYSDIR = '/usr/lib/x86_64-linux-gnu/girepository-1.0'
SYSLIBS = ['GModule-2.0', 'GObject-2.0', 'GLib-2.0', 'Gio-2.0']
CDRV = os.path.join(VERIF, 'harness', 'cdrv')
PROBES = ['tst.a0', 'tst.b0', 'c:identifier', 'm0', 'm1', 's0', 'v0', 'f0', 'new', 'get_type']


class Runner(object):
    def __init__(self, ck):
        self.ck = ck
        t = time.time()
        self.cb = CBuild(os.path.join(ck.tmp, 'build')).build()
        self.walk = self.cb.driver(os.path.join(CDRV, 'drv_walk.c'))
        ck.notes.append('C build %.1fs' % (time.time() - t))
        self.work = os.path.join(ck.tmp, 'docs')
        self.deps = os.path.join(ck.tmp, 'deps')
        os.makedirs(self.work, exist_ok=True)
        os.makedirs(self.deps, exist_ok=True)
        self.obs, self.roles, self.envs = [], {}, {T.NOENV_KEY: T.NOENV}
        self.cases = {}
        # the two dependency namespaces as typelibs
        inc = os.path.join(self.work, 'inc')
        T.write_includes(inc)
        for n in ('GLib-2.0', 'GObject-2.0'):
            p = self.cb.compile_gir(os.path.join(inc, n + '.gir'), os.path.join(self.deps, n + '.typelib'), includedirs=[inc])
            if p.returncode != 0:
                raise MachineryError('cannot compile the dependency namespace %s: %s' % (n, p.stderr[-500:]))

    def task(self, cid, **kw):
        t = dict(compiler=self.cb.compiler, generate=self.cb.generate, walk=self.walk, workdir=self.work, deps=self.deps, cid=cid,
                 keep=bool(self.ck.args.keep), probes=PROBES)
        t.update(kw)
        return t

    def run_tasks(self, tasks):
        from concurrent.futures import ProcessPoolExecutor
        if len(tasks) == 1:
            results = [A.c09_worker(tasks[0])]
        else:
            with ProcessPoolExecutor(max(1, NCPU // 2) if NCPU >= 12 else NCPU) as ex:
                results = list(ex.map(A.c09_worker, tasks))
        for r in results:
            self.ck.count(r['runs'])
            self.obs += r['obs']
            self.roles.update(r['roles'])
            self.cases[r['cid']] = r['case']
            self.ck.notes += r['notes']
            if r['obs']:
                self.ck.nontrivial(r['cid'])


def run():
    ck = Check(PID, 'model_checking')
    a = ck.args
    ck.assumptions += [
        'C side built from REPO against the GLib declaration shim (cshim/include) and linked with the system GLib 2.74 runtime',
        'harness/tlabs.py (independent decoder written from gitypelib-internal.h) is the reference for "what the typelib contains"; it is '
        'calibrated in this run: the system GLib/GObject/Gio/GModule typelibs decode completely, satisfy the layout invariants, every '
        'member sits where MemberOffset puts it, and the C accessors agree with it on every sampled value',
        'the blob offset an accessor resolved is read from GIRealInfo.offset (girepository-private.h) by the driver; everything else is public API',
        'pairing is positional (i-th info of a section <-> i-th blob of that section); XML elements are paired with blobs by kind and position',
        'names in the XML of g-ir-generate are read as [namespace, name] (unqualified = own namespace); legacy attribute spellings '
        '(glib:ref-function / glib:ref-func ...) are both accepted: the statement is about the API described, not schema conformance',
        'g_registered_type_info_get_g_type, the *_function_pointer accessors and invoke are not called (they dlopen the shared library)',
        'system typelibs were written by the distribution\'s compiler (same format 4.0): an extra corpus beyond the statement\'s quantifier',
    ]
    replay = json.load(open(a.replay))['replay'] if a.replay else None
    tphase = time.time()
    mc_jobs = []
    if not replay and not os.environ.get('C09_DEV_FAST'):
        from concurrent.futures import ThreadPoolExecutor
        pool = ThreadPoolExecutor(2 if NCPU >= 12 else 1)
        W = max(1, NCPU // 2) if NCPU >= 12 else NCPU
        mc_jobs.append((None, pool.submit(ck.tlc_mc, 'TypelibMC', 'Typelib_layout2.cfg' if ck.quick else 'Typelib_layout3.cfg', workers=W, timeout=9000,
                        coverage=False,
                        label='section arithmetic: reader (MemberOffset) meets writer, the transcribed C accessors meet the reader, for every container '
                              'shape, counts 0..%d, odd/even index arrays, every subset of callback fields' % (2 if ck.quick else 3))))
        wpool = ThreadPoolExecutor(max(1, NCPU // 2))
        for cfg, inv, what in (('Typelib_w_union.cfg', 'InvAccessor', 'Dev union_multiplies (before f2204c4)'),
                               ('Typelib_w_uniondep.cfg', 'InvApi', 'Dev union_not_deprecated (before 5e762b5)'),
                               ('Typelib_w_boxed.cfg', 'InvApi', 'Dev boxed_refused (before 9e9f49a)'),
                               ('Typelib_w_genenum.cfg', 'InvApi', 'Dev gen_no_enum_methods (before d05070a)'),
                               ('Typelib_w_genunion.cfg', 'InvApi', 'Dev gen_union_no_prefix (before 0aee3e2)'),
                               ('Typelib_w_gendouble.cfg', 'InvApi', 'Dev gen_percent_f (before 66699dc)'),
                               ('Typelib_w_genstring.cfg', 'InvApi', 'Dev gen_raw_newline (before cb67ae0)')):
            mc_jobs.append(((cfg, inv), wpool.submit(ck.tlc_mc, 'TypelibMC', cfg, workers=1, timeout=3000, coverage=False, expect_ok=False,
                                                     label='witness (must fail): ' + what)))
        if NCPU < 12:                           # few cores: one thing at a time
            for _cfg, _f in mc_jobs:
                _f.exception()
        ck.cov['exhaustive'] = True
    tphase = time.time()
    R = Runner(ck)
    if replay:
        if replay['kind'] == 'doc':
            R.run_tasks([R.task(replay['docid'], doc=replay['doc'])])
        else:
            R.run_tasks([R.task('sys-replay', path=replay['path'], dirs=[os.path.dirname(replay['path'])], ns=replay['ns'],
                                version=replay['version'], indices=replay.get('indices'))])
    else:
        # the case sets of the quick export in both tiers (every combination of empty / non-empty sections = counts 0..1); the
        # thorough tier adds seeded shapes with counts 0..3, more of every family, more random documents, every system entry
        cases = export_cases(ck, 'quick')
        docs = TC.docs_from_shapes(cases['shapes'], chunk=150)
        if not ck.quick:
            docs += TC.docs_from_shapes(TC.random_shapes(random.Random('c09-shapes/%d' % ck.seed), 600), chunk=150, prefix='rshape')
        lim = 150 if ck.quick else 600
        sub = {k: (v[:lim] if isinstance(v, list) else v) for k, v in cases.items()}
        docs += TC.docs_from_cases(sub, chunk=150, families=['field', 'value', 'constant', 'function', 'property', 'signal', 'vfunc', 'sig',
                                                             'object', 'interface', 'struct', 'enum', 'doc', 'arg', 'type'])
        rd = TC.RandomDocs(random.Random('c09/%d' % ck.seed))
        for k in range(4 if ck.quick else 12):
            docs.append(('rand%d' % k, rd.doc(n_entries=25 if ck.quick else 50), dict(family='random')))
        for what, n in ([('methods', 256)] if ck.quick else [('methods', 1023), ('methods', 1024), ('properties', 1024), ('fields', 300)]):
            docs.append(('bound-%s-%d' % (what, n), TC.boundary_doc(n, what), dict(family='bound')))
        only = set(filter(None, os.environ.get('C09_ONLY', '').split(',')))     # development aid, see C06
        if only:
            docs = [x for x in docs if x[2].get('family') in only]
            ck.cov['exhaustive'] = False
        tasks = [R.task(docid, doc=mark_env(doc)) for docid, doc, meta in docs]
        for lib in (SYSLIBS if not only or 'system' in only else []):
            path = os.path.join(SYSDIR, lib + '.typelib')
            if not os.path.exists(path):
                ck.notes.append('system typelib %s not present' % path)
                continue
            ns, ver = lib.split('-')
            n = tlabs.decode(path)['header']['n_local_entries']
            idx = None
            if ck.quick and n > 60:
                rng = random.Random('%s/%d' % (lib, ck.seed))
                idx = sorted(set(list(range(5)) + list(range(n - 5, n)) + rng.sample(range(n), 50)))
            tasks.append(R.task('sys-' + lib, path=path, dirs=[SYSDIR], ns=ns, version=ver, indices=idx, calibrate=True))
        R.run_tasks(tasks)
    ck.notes.append('walk+generate+decode %.1fs (%d typelibs, %d observations)' % (time.time() - tphase, len(R.cases), len(R.obs)))
    tphase = time.time()

    for cfg, fut in mc_jobs:
        r = fut.result()
        if cfg and r.get('violated') != cfg[1]:
            raise MachineryError('witness %s did not violate %s (model vacuous?): %s' % (cfg[0], cfg[1], r.get('error')))
    if mc_jobs:
        ck.notes.append('model checking done %.1fs after start' % (time.time() - ck.t0))
    rejected, exercised = T.parallel_verdict(ck, 'TypelibTrace', R.obs, R.envs)
    ck.notes.append('TLC verdict %.1fs' % (time.time() - tphase))
    byid = {o['id']: o for o in R.obs}
    for oid, clause, kind in rejected:
        if clause.startswith('DRIFT'):
            continue
        o = byid[oid]
        cid, path, _ = oid.split('|')
        role = R.roles.get(oid, '')
        if role == 'calibration':
            raise MachineryError('decoder calibration failed: %s %s on %s' % (clause, kind, oid))
        corpus = 'system' if cid.startswith('sys-') else 'generated'
        sig = dict(clause=clause, kind=kind, role=role)
        if kind in ('gen_constant', 'api_constant') and o['found']:      # which basic type the constant has
            t0 = o['g']['type'][0]
            sig['type'] = tlabs.TAGS[t0['tag']] if t0['simple'] and t0['tag'] < len(tlabs.TAGS) else 'complex'
        text = '%s [%s]: %s %s of %s (%s)\n  blob (decoded): %s\n  reported: %s' % (
            clause, role, kind, path, cid, corpus, _brief(o['g'], clause), _brief(o['b'], clause))
        rp = dict(R.cases.get(cid, {}))
        rp.update(path_in_typelib=path, clause=clause)
        ck.violation(sig, text, rp)
    # every distinct failing input class (common.finish prints and stores the first 25 only)
    ck.cov['violation_classes'] = sorted({json.dumps(s, sort_keys=True) for s, _, _ in ck.violations})
    if not replay:
        core = ['ApiName', 'ApiOffset', 'ApiAttrIter', 'ApiAttrByName', 'ApiFnFlags', 'ApiFnProperty', 'ApiArgDirection', 'ApiArgType',
                'ApiFieldFlags', 'ApiPropFlags', 'ApiPropSetter', 'ApiConstValue', 'ApiValue', 'ApiCounts', 'ApiFind', 'ApiInterfaces',
                'ApiObjectParent', 'ApiDirectory', 'ApiNInfos', 'ApiNoCritical', 'ApiReturnType', 'ApiVFuncInvoker', 'ApiSignalFlags',
                'GenEntries', 'GenMembers', 'GenArgs', 'GenReturnType', 'GenPropFlags', 'GenFieldFlags', 'GenConstValue', 'GenValues',
                'ReaderView', 'LayoutNoOverlap']
        empty = [c for c in core if not exercised.get(c)]
        if empty and not os.environ.get('C09_ONLY'):
            raise MachineryError('clauses never exercised: %s' % empty)
    ck.cov['rule'] = ('an evaluation = one run of the API walker or of g-ir-generate on a typelib; a trace = one info (all its accessors) or one '
                      'XML element judged against the decoded blob; non-trivial = typelibs')
    for o in [x for x in R.obs if x['kind'] == 'api_function'][:1] + [x for x in R.obs if x['kind'] == 'api_object'][:1] + \
            [x for x in R.obs if x['kind'] == 'gen_property'][:1]:
        ck.sample(dict(id=o['id'], blob=json.dumps(o['g'])[:300], reported=json.dumps(o['b'])[:300]))
    return ck.finish()


FIELDS_OF = {
    'ApiDeprecated': (['deprecated'], ['dep']), 'ApiOffset': (['pos'], ['off']), 'ApiName': (['name'], ['name']),
    'ApiAttrIter': (['attrs'], ['at']), 'ApiAttrByName': (['attrs'], ['ab']),
}


def _brief(rec, clause):
    s = json.dumps(rec, sort_keys=True)
    return s if len(s) <= 700 else s[:700] + '...'


if __name__ == '__main__':
    main_wrapper(PID, run)

"""C06 -- a compiled typelib encodes exactly the API of the GIR it came from.

1. TLC model-checks tla/TypelibMC.tla: for every element kind the attribute cross product, the transcription
   Build<Kind> of girparser.c/girnode.c against the property layer <Kind>Clauses; every container shape (member
   counts 0..MaxCnt per section, odd/even index arrays, every subset of fields with an embedded callback): the
   writer's cursor walk against the format's closed-form section arithmetic (aligned, in bounds, no overlap, no hole).
   The witness configurations must FAIL: Typelib_w_field.cfg (the current code on the inputs of the known findings) and one
   Typelib_w_*.cfg per what-if switch Dev (behaviour of an earlier version, repaired by a fix: commit).
2. tla/TypelibCases.tla exports exactly those case sets (Strict, valid documents only) plus the header-level case
   sets; harness/tlcases.py wraps them into abstract GIR documents; seeded random documents in the same schema go
   beyond the exhaustive bound (nested types, cross-namespace references, attributes on every node, interleaved
   members, boundary counts 255/256 and in the thorough tier 1023/1024/65535).
3. harness/tlgir.py renders the documents to GIR XML (own renderer, not GIRWriter); REPO's g-ir-compiler (rebuilt
   from the working tree every run) compiles each twice; harness/tlabs.py (independent decoder, written from
   gitypelib-internal.h) decodes the bytes.
4. tla/TypelibTrace.tla judges every element clause by clause (Encodes), the layout invariants on the decoded
   offsets, the compiler's own validation, and determinism.  Verdicts come from TLC only.

Development aids (mutation exercise): C06_DEV_FAST=1 skips the model-checking runs, C06_ONLY=fam1,fam2 keeps only the named
document families (arg type sig function property signal vfunc field value object interface struct enum constant doc shape
random bound); the evidence then says exhaustive=false.
"""
import json, os, random, shutil, time

from ..common import Check, MachineryError, main_wrapper, REPO, VERIF, NCPU
from ..cbuild import CBuild
from .. import tlgir as T
from .. import tlcases as TC

PID = 'C06'


def export_cases(ck, tier):
    pre = os.environ.get('TYPELIB_CASES')       # development aid: a case file exported earlier by this very function
    if pre and os.path.exists(pre):
        ck.cov['exhaustive'] = False
        return json.load(open(pre))
    cf = os.path.join(ck.tmp, 'cases.json')
    r = ck._tlc('TypelibCases.tla', 'TypelibCases_%s.cfg' % tier, [], dict(CASES_FILE=cf), 3000, 1)
    if not os.path.exists(cf):
        raise MachineryError('TypelibCases produced no case file:\n%s' % r['out'][-2000:])
    if pre:
        shutil.copy(cf, pre)
    return json.load(open(cf))


class Runner(object):
    def __init__(self, ck):
        self.ck = ck
        t = time.time()
        self.cb = CBuild(os.path.join(ck.tmp, 'build')).build()
        ck.notes.append('C build %.1fs' % (time.time() - t))
        self.work = os.path.join(ck.tmp, 'docs')
        os.makedirs(self.work, exist_ok=True)
        T.write_includes(os.path.join(self.work, 'inc'))
        self.obs = []
        self.docs = {}          # docid -> doc (replay)
        self.meta = {}
        self.rejected_docs = []
        self.roles = {}
        self.envs = {}

    def run_docs(self, docs, nproc=None):
        """docs: [(docid, doc, meta)].  One worker process per document (compile twice, decode, observe; bisection of rejected
        family documents happens inside the worker)."""
        from concurrent.futures import ProcessPoolExecutor
        ck = self.ck
        tasks = [(self.cb.compiler, self.work, docid, doc, meta, bool(ck.args.keep)) for docid, doc, meta in docs]
        if len(tasks) == 1:
            results = [T.c06_worker(tasks[0])]
        else:
            with ProcessPoolExecutor(nproc or (max(1, NCPU // 2) if NCPU >= 12 else NCPU)) as ex:
                results = list(ex.map(T.c06_worker, tasks))
        for res in results:
            for r in res:
                ck.count(r['runs'])
                self.docs[r['docid']] = r['doc']
                self.meta[r['docid']] = r['meta']
                self.obs += r['obs']
                self.roles.update(r['roles'])
                self.envs.update(r['envs'])
                if r['rc'] != 0:
                    self.rejected_docs.append((r['docid'], r['rc'], r['stderr']))
                if r['decode_error']:
                    ck.notes.append('%s: decoder: %s' % (r['docid'], r['decode_error']))


def mark_env(doc):
    """entries every sub-document of a bisection keeps: the environment + support entries (referenced by the cases)"""
    names = set()
    for e in doc['entries']:
        n = T.final_name(e)
        if e['tag'] == 'alias' or n in ('Rec', 'Dis', 'En', 'Base', 'OClass', 'IIface', 'I0', 'I1', 'I2', 'I3', 'J0', 'J1', 'J2', 'J3'):
            e['_env'] = True
    return doc


def sig_of(oid, clause, kind, role):
    """signature of a failing input class (matched against known_findings.json): the clause and the structural position
    of the element (entry kind/member kind/...)"""
    return dict(clause=clause, kind=kind, role=role)


def run():
    ck = Check(PID, 'translation_validation')
    a = ck.args
    ck.assumptions += [
        'C side built from REPO against the GLib declaration shim (cshim/include) and linked with the system GLib 2.74 runtime',
        'harness/tlabs.py is the trusted decoder: written from the struct definitions of gitypelib-internal.h (bit-fields LSB first, '
        'little endian); calibrated by C09: the system GLib/GObject/Gio/GModule typelibs decode without inconsistency and every value '
        'agrees with what the C accessors of libgirepository report',
        'documents are rendered by harness/tlgir.py; a document is "valid GIR" when it follows docs/gir-1.2.rnc and only refers to '
        'names that exist (includes GLib-2.0/GObject-2.0 are two tiny namespaces written by the harness)',
        'names in TLC-enumerated cases are placeholders instantiated with unique names per case; many cases share one document '
        '(a document the compiler rejects is bisected; rejected single elements are reported as notes, the statement is about accepted documents)',
        'constant values are compared as the value the literal denotes (integers decimal, booleans 0/1, floating point as the shortest '
        'repr of the IEEE value of the declared width)',
        'struct_offset / size / alignment / storage_type (C08) and the directory index section (C14) are not judged here',
    ]
    replay = json.load(open(a.replay))['replay'] if a.replay else None
    tphase = time.time()
    mc_jobs = []
    if not replay:
        fast = bool(os.environ.get('C06_DEV_FAST'))
        if not fast:
            # the model-checking runs proceed in the background while the C side is built and the documents are compiled
            from concurrent.futures import ThreadPoolExecutor
            pool = ThreadPoolExecutor(4 if NCPU >= 12 else 1)       # with few cores the runs simply queue up one after the other
            W = max(1, NCPU // 2) if NCPU >= 12 else NCPU
            if ck.quick:
                mc_jobs.append((None, pool.submit(ck.tlc_mc, 'TypelibMC', 'Typelib_quick.cfg', workers=W, timeout=4500, coverage=False,
                                label='Build<Kind> => <Kind>Clauses over the attribute cross products; layout + accessor arithmetic of every container shape, counts 0..2')))
            else:
                mc_jobs.append((None, pool.submit(ck.tlc_mc, 'TypelibMC', 'Typelib_full.cfg', workers=W, timeout=9000, coverage=False,
                                label='Build<Kind> => <Kind>Clauses, all three spellings of every boolean attribute, types to depth 3')))
                mc_jobs.append((None, pool.submit(ck.tlc_mc, 'TypelibMC', 'Typelib_layout3.cfg', workers=W, timeout=9000, coverage=False,
                                label='writer cursor walk vs format section arithmetic vs transcribed accessors, every container shape with counts 0..3')))
            # witness configurations (must FAIL): the current code on the inputs of the known findings, and one per what-if switch
            # for the behaviour of an earlier version (each repaired by a fix: commit)
            wpool = ThreadPoolExecutor(max(1, NCPU // 2))
            for cfg, what in (('Typelib_w_field.cfg', 'as-is: field readable= inverted, bits= not written (known findings)'),
                              ('Typelib_w_sig.cfg', 'Dev skip_only_function (before ca5fac5)'),
                              ('Typelib_w_prop.cfg', 'Dev prop_deprecated_unread (before 43698fe)'),
                              ('Typelib_w_attrs.cfg', 'Dev attrs_to_container (before f9052ff)'),
                              ('Typelib_w_rattrs.cfg', 'Dev cb_return_attrs_dropped (before 803c7ba)'),
                              ('Typelib_w_unichar.cfg', 'Dev no_unichar_constant (before 403fa2b)')):
                mc_jobs.append((cfg, wpool.submit(ck.tlc_mc, 'TypelibMC', cfg, workers=1, timeout=3000, coverage=False, expect_ok=False,
                                                  label='witness (must fail): ' + what)))
            if NCPU < 12:                       # few cores: one thing at a time
                for _cfg, _f in mc_jobs:
                    _f.exception()
            ck.cov['exhaustive'] = True
    cases = None
    R = Runner(ck)
    if replay:
        meta = dict(replay.get('meta', dict(types=True)), nobisect=True)
        R.run_docs([(replay['docid'], replay['doc'], meta)])
    else:
        cases = export_cases(ck, ck.tier)
        ck.notes.append('case export %.1fs: %s' % (time.time() - tphase, {k: (len(v) if isinstance(v, list) else {kk: len(vv) for kk, vv in v.items()})
                                                                            for k, v in cases.items()}))
        tphase = time.time()
        docs = TC.docs_from_cases(cases, chunk=300)
        docs += TC.docs_from_shapes(cases['shapes'])
        rd = TC.RandomDocs(random.Random('c06/%d' % ck.seed))
        nrand = 6 if ck.quick else 40
        for k in range(nrand):
            docs.append(('rand%d' % k, rd.doc(n_entries=30 if ck.quick else 60), dict(family='random', cases=0, types=True)))
        bounds = [('methods', 255), ('methods', 256), ('properties', 256), ('values', 300), ('args', 130)]
        if not ck.quick:
            bounds += [('methods', 1023), ('methods', 1024), ('methods', 1025), ('properties', 1023), ('properties', 1024),
                       ('values', 65535), ('fields', 1000), ('methods', 5000)]
        for what, n in bounds:
            # the boundary documents are about counts and index fields: judge the containers, the members that carry an index
            # (properties, vfuncs, accessor methods are covered through them) and, for the long signature, its arguments
            kinds = ['object', 'enum', 'property', 'vfunc'] + (['sig', 'arg', 'function'] if what in ('args', 'properties') else [])
            docs.append(('bound-%s-%d' % (what, n), TC.boundary_doc(n, what),
                         dict(family='bound', cases=1, types=False, what=what, n=n, focus=dict(kinds=kinds))))
        only = set(filter(None, os.environ.get('C06_ONLY', '').split(',')))
        if only:            # development aid (mutation exercise): only these families; the evidence then says exhaustive=false
            docs = [d for d in docs if d[2].get('family') in only]
            cap = int(os.environ.get('C06_MAXDOCS', '100000'))
            if len(docs) > cap:
                docs = docs[::(len(docs) + cap - 1) // cap]         # evenly spaced over the enumeration order
            ck.cov['exhaustive'] = False
        R.run_docs([(docid, mark_env(doc), meta) for docid, doc, meta in docs])
        for docid in R.docs:
            ck.nontrivial(docid)
    ck.notes.append('compile+decode %.1fs (%d documents, %d observations)' % (time.time() - tphase, len(R.docs), len(R.obs)))
    tphase = time.time()
    for docid, rc, err in R.rejected_docs[:20]:
        ck.notes.append('compiler rejected %s (rc=%s): %s' % (docid, rc, err))

    for cfg, fut in mc_jobs:
        r = fut.result()
        if cfg and r.get('violated') != 'BuildEncodes':
            raise MachineryError('what-if %s did not violate BuildEncodes (model vacuous?): %s' % (cfg, r.get('error')))
    if mc_jobs:
        ck.notes.append('model checking done %.1fs after start' % (time.time() - ck.t0))
    rejected, exercised = T.parallel_verdict(ck, 'TypelibTrace', R.obs, R.envs)
    ck.notes.append('TLC verdict %.1fs' % (time.time() - tphase))
    byid = {o['id']: o for o in R.obs}
    drift = {}
    for oid, clause, kind in rejected:
        if clause.startswith('DRIFT'):
            drift[clause] = drift.get(clause, 0) + 1
            continue
        o = byid[oid]
        docid, path, _ = oid.split('|')
        sig = sig_of(oid, clause, kind, R.roles.get(oid, ''))
        if clause == 'FieldReadable' and o['found']:     # which spelling of readable= was written ('' = absent)
            sig['readable'] = o['g']['readable']
        if clause == 'FieldBits' and o['found']:
            sig['bits'] = 'set' if o['g']['bits'] > 0 else 'unset'
        if kind == 'constant' and o['found']:
            sig['type'] = o['g']['type'][0]['rname']
        if R.meta.get(docid, {}).get('family') == 'bound':        # 10-bit index fields / 16-bit counts: say which boundary
            sig['bound'] = '%s-%s' % (R.meta[docid].get('what'), R.meta[docid].get('n'))
        doc = R.docs.get(docid)
        small = minimal_doc(doc, path) if doc else None
        text = '%s [%s]: %s %s of %s\n  GIR element: %s\n  typelib says: %s' % (clause, R.roles.get(oid, ''), kind, path, docid, json.dumps(o['g'], sort_keys=True)[:600],
                                                                         json.dumps(o['b'], sort_keys=True)[:600])
        ck.violation(sig, text, dict(docid=docid, doc=small or doc, meta=dict(types=True), path=path, clause=clause))
    # every distinct failing input class (common.finish prints and stores the first 25 only)
    ck.cov['violation_classes'] = sorted({json.dumps(s, sort_keys=True) for s, _, _ in ck.violations})
    ck.cov['drift'] = drift
    for c, n in drift.items():
        ck.notes.append('%s on %d documents (directory order differs from document order; not part of the statement)' % (c, n))
    if not replay:
        core = ['ArgDirection', 'ArgNullable', 'ArgTransfer', 'ArgScope', 'ArgClosure', 'SigCallerOwns', 'SigArgsInOrder', 'FnAccessor',
                'PropFlags', 'PropSetter', 'SignalWhen', 'VFuncInvoker', 'FieldReadable', 'ValueValue', 'ConstValue', 'ObjParent',
                'ObjInterfacesInOrder', 'IfacePrerequisitesInOrder', 'StructGType', 'EnumErrorDomain', 'Attributes', 'TypeArray',
                'TypeInterfaceRef', 'DocDependencies', 'DocSharedLibrary', 'LayoutNoOverlap', 'LayoutHeaderSizes', 'ReaderView',
                'Deterministic', 'Validates']
        empty = [c for c in core if not exercised.get(c)]
        if empty and not os.environ.get('C06_ONLY'):
            raise MachineryError('clauses never exercised: %s' % empty)
    ck.cov['rule'] = ('an evaluation = one compiler run on a generated document; a trace = one GIR element (or document / layout / '
                      'container / determinism record) judged against the decoded typelib by TypelibTrace; non-trivial = documents')
    for o in R.obs[2:3] + [x for x in R.obs if x['kind'] == 'arg'][:1] + [x for x in R.obs if x['kind'] == 'object'][:1]:
        ck.sample(dict(id=o['id'], g=json.dumps(o['g'])[:300], b=json.dumps(o['b'])[:300]))
    return ck.finish()


def minimal_doc(doc, path):
    """the document restricted to the environment entries and the top-level element the failing path lies in"""
    top = path.split('/')[0]
    ents = [e for e in doc['entries'] if e.get('_env') or T.final_name(e) == top or e.get('tag') in ('interface',) and top.startswith(('O', 'If', 'Sh'))]
    if not any(T.final_name(e) == top for e in ents):
        return None
    d = dict(doc)
    d['entries'] = ents
    return d


if __name__ == '__main__':
    main_wrapper(PID, run)

"""C01 -- parameter and return annotations are reflected exactly in the GIR.

1. TLC model-checks tla/Annotate.tla over the bounded case spaces of tla/AnnotateMC.tla
   (implementation-shaped layer => property layer for every single value: declaration kind x pointer
   depth x const x direction x annotation subsets, and for pairs/triples of parameters related by
   (array length=), (closure), (destroy)), and exports exactly the cases it counted (A.4).
2. The exported cases, plus seeded random callables with 5-8 parameters and several relational
   annotations at once, are rendered (harness/c01lib.py: symgen symbols + GTK-Doc comment text), packed
   some hundred independent callables per namespace, and run through the REAL pipeline
   (harness/scan.py).  Each case is scanned together with its variants "without annotation group g of
   value i" (the reference for "leaves that attribute unchanged").
3. Every observation is judged by TLC (tla/AnnotateTrace.tla = property layer of Annotate.tla).
   Python renders and projects only.
"""
import json, os, sys, time

from ..common import Check, MachineryError, main_wrapper, NCPU
from .. import c01lib as L

PID = 'C01'
# (config, sampling modulus in the quick tier; 1 = whole space)
MC_QUICK = [('strat', 1), ('ondata', 1), ('lenret', 16), ('lenparam', 16), ('callbacks', 12)]
MC_THOROUGH = [('single', 1), ('ondata', 1), ('lenret', 1), ('lenparam', 1), ('callbacks', 1),
               ('pairsparam', 1), ('pairsret', 1), ('null3', 1), ('cont3', 1)]
BATCH = 120          # cases per namespace (each case brings its variants: ~2-4 callables)


# ------------------------------------------------------------------ variants
def variants(case):
    """[(value index, group)] for every annotation group present whose "unchanged" clause needs a reference,
    plus ('ret', 'all')"""
    out = []
    vals = [case['ret']] + case['params']
    for i, v in enumerate(vals):
        a = v['ann']
        for g in L.WO_ORDER:
            if a[g] != L.EMPTY_ANN[g]:
                out.append((i, g))
    if case['ret']['ck'] == 'void' and case['ret']['ptr'] == 0 and case['ret']['ann'] != L.EMPTY_ANN:
        out.append((0, 'all'))
    return out


def without(case, i, g):
    c = json.loads(json.dumps(case))
    v = c['ret'] if i == 0 else c['params'][i - 1]
    if g == 'all':
        v['ann'] = dict(L.EMPTY_ANN, et=[])
    else:
        v['ann'][g] = [] if g == 'et' else L.EMPTY_ANN[g]
    return c


# ------------------------------------------------------------------ execution (runs in worker processes)
def observe_batch(cases):
    """cases: normalized abstract cases with ids.  -> observations (one per case)"""
    from .. import scan as S
    plan = []          # (case idx, variant key or None, callable number)
    syms = L.prelude()
    comments = []
    n = 0
    rendered = {}
    for ci, case in enumerate(cases):
        todo = [(None, case)] + [((i, g), without(case, i, g)) for i, g in variants(case)]
        for key, c in todo:
            n += 1
            sym, cm, where = L.render(c, n)
            syms.append(sym)
            comments.append(cm)
            rendered[(ci, key)] = (n, c, where)
    try:
        r = S.scan(syms, comments, dump_xml=L.DUMP)
    except Exception as e:      # the scanner crashed on this namespace: isolate the case
        if len(cases) == 1:
            return [crash_obs(cases[0], repr(e))]
        out = []
        for c in cases:
            out += observe_batch([c])
        return out
    tree = S.girabs(r.xml)
    idx = L.index_callables(tree)
    bylines = {}
    for rec in r.log:
        if rec['file'] == L.CFILE:
            bylines.setdefault(rec['line'], []).append(rec['text'])
    obs = []
    for ci, case in enumerate(cases):
        nvals = len(case['params']) + 1
        n0, c0, where0 = rendered[(ci, None)]
        outs, info = L.project_callable(case, idx.get(L.symbol_name(case, n0)))
        warned = [L.warned_names(bylines.get(where0.get(i), [])) if i in where0 else [] for i in range(nvals)]
        wo = []
        for i in range(nvals):
            ref = {}
            for g in L.WO_ORDER:
                hit = rendered.get((ci, (i, g)))
                if hit is None:
                    ref[g] = outs[i]
                else:
                    o2, _ = L.project_callable(hit[1], idx.get(L.symbol_name(hit[1], hit[0])))
                    ref[g] = o2[i]
            wo.append(dict(transfer=ref['transfer']['transfer'], nullable=ref['nullable']['nullable'],
                           optional=ref['optional']['optional'], anNullable=ref['allownone']['nullable'],
                           anOptional=ref['allownone']['optional'], scope=ref['scope']['scope'],
                           closure=ref['closure']['closure'], destroy=ref['destroy']['destroy'],
                           etElems=ref['et']['elems'], etTname=ref['et']['tname'], etTkind=ref['et']['tkind']))
        hit = rendered.get((ci, (0, 'all')))
        if hit is None:
            ret_bare = outs[0]
        else:
            o2, _ = L.project_callable(hit[1], idx.get(L.symbol_name(hit[1], hit[0])))
            ret_bare = o2[0]
        obs.append(dict(id=case['id'], case=case, out=outs, warned=warned, wo=wo, retBare=ret_bare,
                        crashed=False, found=info['found'], tag=info['tag'], introspectable=info['introspectable'],
                        throwsAttr=info['throws'], errorEmitted=bool(info.get('errorEmitted')),
                        selfEmitted=bool(info.get('selfEmitted'))))
    return obs


def crash_obs(case, text):
    nvals = len(case['params']) + 1
    absent = [dict(L.ABSENT_OUT, elems=[], attrs=[]) for _ in range(nvals)]
    wo = [dict(transfer='', nullable=False, optional=False, anNullable=False, anOptional=False, scope='', closure=-1,
               destroy=-1, etElems=[], etTname='', etTkind='missing') for _ in range(nvals)]
    return dict(id=case['id'], case=case, out=absent, warned=[[] for _ in range(nvals)], wo=wo, retBare=absent[0],
                crashed=True, found=False, tag=text[:200], introspectable=False, throwsAttr=False, errorEmitted=False,
                selfEmitted=False)


def observe_all(cases, procs):
    batches = [cases[k:k + BATCH] for k in range(0, len(cases), BATCH)]
    if procs <= 1 or len(batches) <= 1:
        out = []
        for b in batches:
            out += observe_batch(b)
        return out
    import multiprocessing as mp
    with mp.get_context('fork').Pool(min(procs, len(batches))) as pool:
        res = pool.map(observe_batch, batches, chunksize=1)
    return [o for part in res for o in part]


# ------------------------------------------------------------------ random cases beyond the exhaustive bound
PARAM_KINDS = ['int', 'bool', 'double', 'char', 'gpointer', 'enumT', 'flagsT', 'recordT', 'boxedT', 'unionT', 'objectT',
               'ifaceT', 'callbackT', 'GList', 'GSList', 'GHashTable', 'GArray', 'GPtrArray', 'GByteArray', 'aliasT',
               'gvariant', 'gclosure', 'destroyNotify', 'asyncReady', 'unknownT', 'cancellable']
PTRS = {'int': [0, 1, 2], 'recordT': [0, 1, 2], 'char': [0, 1, 2, 3], 'bool': [0, 1], 'double': [0, 1], 'enumT': [0, 1],
        'flagsT': [0, 1], 'aliasT': [0, 1], 'gpointer': [0, 1], 'callbackT': [0], 'destroyNotify': [0], 'asyncReady': [0],
        'boxedT': [1, 2], 'objectT': [1, 2], 'gvariant': [1, 2], 'GList': [1, 2], 'GHashTable': [1, 2], 'GPtrArray': [1, 2]}
SPELL = ['utf8', 'guint8', 'Foo.Rec', 'FooObj', 'gint', 'filename', 'Foo.Unknown']


def random_value(rng, kinds=PARAM_KINDS):
    ck = rng.choice(kinds)
    ptr = rng.choice(PTRS.get(ck, [1]))
    return L.value(ck, ptr, const=(ptr == 1 and rng.random() < 0.25))


def random_ann(rng, a, weight=1.0):
    r = rng.random
    if r() < 0.25 * weight:
        a['transfer'] = rng.choice(['none', 'container', 'full', 'floating'])
    if r() < 0.3 * weight:
        a['dir'] = rng.choice(['in', 'out', 'inout', 'outcaller', 'outcallee', 'out'])
    if r() < 0.2 * weight:
        a['nullable'] = True
    if r() < 0.15 * weight:
        a['optional'] = True
    if r() < 0.1 * weight:
        a['allownone'] = True
    if r() < 0.1 * weight:
        a['notn'] = rng.choice(['nullable', 'optional'])
    if r() < 0.08 * weight:
        a['skip'] = True
    if r() < 0.1 * weight:
        a['attrs'] = rng.choice(['kv', 'k'])
    if r() < 0.1 * weight:
        a['et'] = [rng.choice(SPELL) for _ in range(rng.choice([1, 1, 1, 2]))]
    if r() < 0.06 * weight:
        a['type'] = rng.choice(SPELL + ['GLib.List(utf8)'])
    if r() < 0.06 * weight:
        a['scope'] = rng.choice(['call', 'async', 'notified', 'forever'])
    if r() < 0.08 * weight:
        a['array'] = True
        if r() < 0.4:
            a['afixed'] = rng.choice([0, 3, 16])
        if r() < 0.5:
            a['azt'] = rng.choice(['bare', '0', '1'])


def random_case(rng, n):
    kind = rng.choice(['function', 'function', 'method', 'callback'])
    np_ = rng.randint(5, 8)
    params = [random_value(rng) for _ in range(np_)]
    rk = rng.choice(['void', 'void', 'int', 'char', 'gpointer', 'recordT', 'boxedT', 'objectT', 'GList', 'GHashTable',
                     'GPtrArray', 'enumT', 'aliasT', 'gvariant', 'unknownT'])
    ret = L.value(rk, 0 if rk == 'void' else rng.choice(PTRS.get(rk, [1])))
    free = list(range(1, np_ + 1))
    rng.shuffle(free)
    # relational structure 1: arrays with a length parameter (sometimes shared, sometimes on the return value)
    for _ in range(rng.choice([0, 1, 1, 2])):
        if len(free) < 2:
            break
        ai, li = free.pop(), free.pop()
        arr_on_ret = rng.random() < 0.25 and rk != 'void'
        tgt = ret if arr_on_ret else params[ai - 1]
        if not arr_on_ret:
            ck = rng.choice(['int', 'char', 'recordT', 'gpointer', 'GPtrArray', 'objectT'])
            params[ai - 1] = tgt = L.value(ck, {'gpointer': 0}.get(ck, rng.choice([1, 2])))
        params[li - 1] = L.value(rng.choice(['int', 'int', 'aliasT', 'gpointer']), rng.choice([0, 0, 1]))
        tgt['ann'].update(array=True, alen=li)
        if rng.random() < 0.5:
            tgt['ann']['azt'] = rng.choice(['1', '0'])
        if not arr_on_ret and rng.random() < 0.6:
            d = rng.choice(['out', 'inout', 'in', 'outcaller'])
            tgt['ann']['dir'] = d
            if rng.random() < 0.5:
                params[li - 1]['ann']['dir'] = d if rng.random() < 0.8 else 'out'
    # relational structure 2: callback + user data + notifier, annotated explicitly and/or by naming convention
    for _ in range(rng.choice([0, 1, 1, 2])):
        if len(free) < 3:
            break
        trio = sorted([free.pop(), free.pop(), free.pop()])
        if rng.random() < 0.2:
            rng.shuffle(trio)
        ci, di, ni = trio
        params[ci - 1] = L.value(rng.choice(['callbackT', 'callbackT', 'asyncReady', 'gpointer']), 0)
        params[di - 1] = L.value(rng.choice(['gpointer', 'gpointer', 'int', 'char']), {'char': 1}.get('x', 0), ud=rng.random() < 0.5)
        if params[di - 1]['ck'] == 'char':
            params[di - 1]['ptr'] = 1
        params[ni - 1] = L.value(rng.choice(['destroyNotify', 'destroyNotify', 'callbackT', 'int']), 0)
        a = params[ci - 1]['ann']
        if rng.random() < 0.6:
            a['closure'] = di
        if rng.random() < 0.5:
            a['destroy'] = ni
        if rng.random() < 0.5:
            a['scope'] = rng.choice(['call', 'async', 'notified', 'forever'])
        if kind == 'callback' and rng.random() < 0.5:
            params[di - 1]['ann']['closure'] = 0
    # independent annotations everywhere
    for p in params:
        random_ann(rng, p['ann'], 0.7)
    random_ann(rng, ret['ann'], 0.5)
    if rng.random() < 0.1:
        ret['ann']['dir'] = ''
    return L.normalize(dict(id='rand-%d' % n, kind=kind, throws=rng.random() < 0.4, ret=ret, params=params))


# ------------------------------------------------------------------ the check
def run():
    ck = Check(PID, 'model_checking')
    a = ck.args
    ck.assumptions += [
        'giscanner._giscanner (C lexer) is stubbed; C declarations reach Transformer.parse() through harness/scan.py symgen '
        '(conventions read off scannerparser.y, listed in harness/scan.py)',
        'the runtime type dump is a fixed XML document (one class FooObj, one interface FooIface, one boxed FooBox); GLib/GObject/Gio '
        'are the synthetic dependency GIRs of harness/data/gir',
        'some hundred independent callables are packed into one namespace per scan; callables do not influence one another '
        '(each case and its "without annotation" variants are separate callables foo_c<N>)',
        'warned annotation names are derived from the logged warnings positioned on the comment line of the parameter / Returns: tag',
        '(type T) / (element-type T) spellings are drawn from a fixed grammar (utf8, guint8, gint, filename, Foo.Rec, FooObj, '
        'GLib.List(utf8), unknown names), not arbitrary strings',
        'default typing of C declarations (tla/Annotate.tla PART 1) is an assumption of the model, re-validated on every observation (DRIFT)',
    ]
    cases = []
    if a.replay:
        rp = json.load(open(a.replay))['replay']
        cases = [L.normalize(rp['case'])]
    else:
        # ---------------------------------------------------------- 1. model checking + case export
        plan = MC_QUICK if ck.quick else MC_THOROUGH
        for cfg, mod in plan:
            cf = os.path.join(ck.tmp, 'cases-%s.ndjson' % cfg)
            ck.tlc_mc('AnnotateMC', 'Annotate_%s.cfg' % cfg, coverage=False, workers=8, timeout=1700,
                      env={'C01_CASES_FILE': cf, 'C01_SEED': str(ck.seed), 'C01_MOD': str(mod)},
                      label='Impl => property layer on case space %s%s' % (cfg, '' if mod == 1 else ' (every %d-th case)' % mod))
            k = 0
            with open(cf) as f:
                for line in f:
                    if line.strip():
                        c = json.loads(line)
                        c['id'] = '%s-%d' % (cfg, k)
                        cases.append(L.normalize(c))
                        k += 1
            os.unlink(cf)
        ck.cov['exhaustive'] = True
        # ---------------------------------------------------------- 2. random callables beyond the bound
        nrand = 500 if ck.quick else 20000
        for n in range(nrand):
            cases.append(random_case(ck.rng, n))

    # -------------------------------------------------------------- 3. run the real scanner
    t = time.time()
    obs = observe_all(cases, 1 if a.replay else min(NCPU, 8))
    ck.notes.append('scanned %d cases in %.1fs' % (len(cases), time.time() - t))
    ck.count(len(obs))
    by_id = {o['id']: o for o in obs}

    # -------------------------------------------------------------- 4. verdicts by TLC
    slim = [dict(id=o['id'], case=o['case'], out=o['out'], warned=o['warned'], wo=o['wo'], retBare=o['retBare'],
                 crashed=o['crashed']) for o in obs]
    rejected, exercised = ck.tlc_verdict('AnnotateTrace', slim, env={'C01_DRIFT': '1'}, chunk=6000, timeout=1700)
    ndrift = 0
    for oid, clause, detail in rejected:
        o = by_id[oid]
        if clause == 'DRIFT':
            ndrift += 1
            if ndrift <= 20:
                ck.notes.append('DRIFT %s %s: the implementation-shaped layer predicts another value (%s)' % (
                    oid, detail, json.dumps(o['case'])[:600]))
            continue
        vi, _, cls = detail.partition(':')
        sig = dict(clause=clause, cls=cls)
        ck.violation(sig, 'case %s value %s: clause %s rejected (class %s)\n%s\nobserved: %s\nwarned: %s' % (
            oid, vi, clause, cls, describe(o['case']), json.dumps(o['out'][int(vi[1:])]), o['warned'][int(vi[1:])]),
            dict(id=oid, case=o['case'], out=o['out'], warned=o['warned'], wo=o['wo']))
    ck.cov['drifted_observations'] = ndrift
    ck.cov['rule'] = ('an observation = one callable scanned by the real pipeline (+ its without-annotation variants); '
                      'non-trivial = at least one value carries an annotation; distinct by abstract case')
    seen = set()
    for o in obs:
        c = o['case']
        if any(v['ann'] != L.EMPTY_ANN for v in [c['ret']] + c['params']):
            key = json.dumps([c['kind'], c['throws'], c['ret'], c['params']], sort_keys=True)
            if key not in seen:
                seen.add(key)
                ck.nontrivial(hash(key))
    for o in obs[:1] + obs[-1:]:
        ck.sample(dict(id=o['id'], c=describe(o['case']), out=o['out'], warned=o['warned']))
    core = ['Transfer', 'TransferBad', 'Direction', 'Nullable', 'NullableBad', 'Optional', 'OptionalBad', 'Skip', 'Array',
            'ArrayLengthIndex', 'ArrayLengthDirection', 'ElementType', 'Type', 'Scope', 'ScopeBad', 'Closure', 'Destroy', 'Attrs']
    if not a.replay:
        for c in core:
            if not exercised.get(c):
                ck.notes.append('VACUOUS: clause %s was never exercised' % c)
                if not ck.quick:
                    raise MachineryError('core clause %s never exercised' % c)
    return ck.finish()


def describe(case):
    """C-like rendering of an abstract case (for humans)"""
    def one(v, name):
        t = L.ann_text(case, v['ann'])
        return '%s%s%s' % (L.ctext(v), name, ('  /* %s */' % t) if t else '')
    ps = ([('FooObj *self')] if case['kind'] == 'method' else []) + \
         [one(p, L.pname(case, k)) for k, p in enumerate(case['params'], 1)] + \
         (['GError **error'] if case['throws'] else [])
    return '%s %s: %s (%s)' % (case['kind'], case.get('id', ''), one(case['ret'], ''), ', '.join(ps))


if __name__ == '__main__':
    main_wrapper(PID, run)

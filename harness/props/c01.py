"""C01 -- parameter and return annotations are reflected exactly in the GIR.

1. TLC model-checks tla/Annotate.tla over the bounded case spaces of tla/AnnotateMC.tla
   (implementation-shaped layer => property layer for every single value: declaration kind x pointer
   depth x const x direction x annotation subsets, and for pairs/triples of parameters related by
   (array length=), (closure), (destroy)), and exports exactly the cases it counted (A.4).
2. The exported cases, plus seeded random callables with 5-8 parameters and several relational
   annotations at once, are rendered (harness/c01lib.py: symgen symbols + GTK-Doc comment text), packed
   some hundred independent callables per namespace, and run through the REAL pipeline
   (harness/scan.py).  Each case is scanned together with its variants "without annotation group g of
   value i" (the reference for "leaves that attribute unchanged").
3. Every observation is judged by TLC (tla/AnnotateTrace.tla = property layer of Annotate.tla).
   Python renders and projects only.

Quick tier: ONE TLC process model-checks the configuration "quick" (stratified single-value space:
every (declaration kind, direction, annotation) triple once, the variant rotating with the seed; the
whole on-data space; seed-dependent lattice samples of the grid-shaped relational spaces), the ~10 k
exported cases + 600 random callables are scanned by 16 processes, and ONE TLC process with 16 workers
judges the observations slice by slice.  Thorough tier: nine whole spaces (~250 k cases) + 20 000 random
callables, space by space.  A rejected observation is reported with signature (clause, class of the
failing input as defined by Annotate!Deviation on the case alone, how it fails: not-reflected /
unwarned / applied); class "none" = no known deviation class.

The implementation-shaped layer models the CURRENT code (Dev = {}).  The five behaviours of earlier
versions that broke the property (each repaired by a fix: commit, recorded as fixed in
known_findings.json) are what-if switches: for each, a witness configuration Annotate_w_*.cfg switches
it back on, TLC exhibits a case on which it breaks the property (a missing witness is a machinery
failure), and that case is replayed on the real code with the others, where it has to be accepted.
"""
import concurrent.futures as cf
import hashlib, json, math, os, sys, time

from ..common import Check, MachineryError, main_wrapper, NCPU, parse_error_trace, tla_to_py
from .. import c01lib as L

PID = 'C01'
# (case space of tla/AnnotateMC.tla, lattice modulus): the quick tier model-checks and replays a seed-dependent
# lattice sample of the grid-shaped relational spaces (every value of every dimension keeps occurring) and the
# stratified single-value space; the thorough tier takes every space whole
MC_QUICK = ['quick']      # = strat + ondata + lattice samples lenret/8, lenparam/16, callbacks/8 in ONE TLC process
MC_THOROUGH = ['witness', 'shapes', 'single', 'ondata', 'lenret', 'callbacks', 'null3', 'cont3', 'pairsret', 'pairsparam', 'lenparam']
TLC_TIMEOUT = 9000   # seconds per TLC process (generous: the machine may be shared)
BATCH = 120          # cases per namespace (each case brings its variants: ~2-4 callables, i.e. some 400 callables)
# what-if switches of tla/Annotate.tla (behaviours of earlier versions, each repaired by a fix: commit) -> witness configuration
WITNESS = {'not-optional': 'Annotate_w_not_optional.cfg', 'alias-pointer-not-a-pointer': 'Annotate_w_alias_pointer.cfg',
           'nullable-on-enum-value': 'Annotate_w_enum_value.cfg', 'overridden-by-convention': 'Annotate_w_convention.cfg',
           'closure-target-not-gpointer': 'Annotate_w_closure_target.cfg'}


class PCheck(Check):
    """Check whose TLC runs can overlap: model-checking runs are started ahead of time in threads (tlc_mc later picks
    the finished run up and does the usual bookkeeping); batch verdicts are formed by one TLC process whose workers
    each take slices of the batch."""

    def __init__(self, *a, **kw):
        Check.__init__(self, *a, **kw)
        self._pre = {}
        self._pool = None

    @staticmethod
    def _key(module, cfg, env):
        return (module, cfg, tuple(sorted((env or {}).items())))

    def prefetch(self, jobs, concurrency):
        """jobs: [(module.tla, cfg, extra, env, timeout, workers)]"""
        self._pool = cf.ThreadPoolExecutor(max_workers=concurrency)
        for module, cfg, extra, env, timeout, workers in jobs:
            self._pre[self._key(module, cfg, env)] = self._pool.submit(Check._tlc, self, module, cfg, extra, env, timeout, workers)

    def _tlc(self, module, cfg, extra, env, timeout, workers):
        fut = self._pre.pop(self._key(module, cfg, env), None)
        if fut is not None:
            return fut.result()
        return Check._tlc(self, module, cfg, extra, env, timeout, workers)

    def tlc_verdict_par(self, module, obs, env, jobs, timeout=None):
        """tlc_verdict for a trace spec that takes the batch in slices (tla/AnnotateTrace.tla): ONE TLC process, `jobs`
        workers, slice k read from TRACE_FILE.k and judged into VERDICT_FILE.k (same checks, same bookkeeping)."""
        if not obs:
            return [], {}
        timeout = timeout or TLC_TIMEOUT
        nsl = max(1, min(4 * jobs, int(math.ceil(len(obs) / 150.0))))
        size = int(math.ceil(len(obs) / float(nsl)))
        parts = [obs[k:k + size] for k in range(0, len(obs), size)]
        self._vrun = getattr(self, '_vrun', 0) + 1
        tf = os.path.join(self.tmp, 'obs-%s-%d.json' % (module, self._vrun))
        vf = os.path.join(self.tmp, 'verdict-%s-%d.json' % (module, self._vrun))
        for k, part in enumerate(parts, 1):
            with open('%s.%d' % (tf, k), 'w') as f:
                json.dump(part, f)
        e = dict(env or {})
        e.update(TRACE_FILE=tf, VERDICT_FILE=vf, C01_SLICES=str(len(parts)))
        r = Check._tlc(self, module + '.tla', module + '.cfg', [], e, timeout, max(1, min(jobs, len(parts))))
        rejected, exercised = [], {}
        for k, part in enumerate(parts, 1):
            if not os.path.exists('%s.%d' % (vf, k)):
                raise MachineryError('trace spec %s produced no verdict on slice %d:\n%s' % (module, k, r['out'][-3000:]))
            v = json.load(open('%s.%d' % (vf, k)))
            if v.get('n') != len(part):
                raise MachineryError('trace spec %s consumed %s of %d records of slice %d' % (module, v.get('n'), len(part), k))
            rejected += [tuple(x) for x in v.get('rejected', [])]
            for c, cnt in v.get('exercised', {}).items():
                exercised[c] = exercised.get(c, 0) + cnt
            os.unlink('%s.%d' % (tf, k))
            os.unlink('%s.%d' % (vf, k))
        self.cov['traces_validated_against_impl'] += len(obs)
        ev = self.cov.setdefault('clauses_exercised', {})
        for c, cnt in exercised.items():
            ev[c] = ev.get(c, 0) + cnt
        return rejected, exercised


# ------------------------------------------------------------------ variants
def variants(case):
    """[(value index, group)] for every annotation group present whose "unchanged" clause needs a reference,
    plus ('ret', 'all')"""
    out = []
    vals = [case['ret']] + case['params']
    for i, v in enumerate(vals):
        a = v['ann']
        for g in L.WO_ORDER:
            if a[g] != L.EMPTY_ANN[g]:
                out.append((i, g))
    if case['ret']['ck'] == 'void' and case['ret']['ptr'] == 0 and case['ret']['ann'] != L.EMPTY_ANN:
        out.append((0, 'all'))
    return out


def without(case, i, g):
    c = json.loads(json.dumps(case))
    v = c['ret'] if i == 0 else c['params'][i - 1]
    if g == 'all':
        v['ann'] = dict(L.EMPTY_ANN, et=[])
    else:
        v['ann'][g] = [] if g == 'et' else L.EMPTY_ANN[g]
    return c


# ------------------------------------------------------------------ execution (runs in worker processes)
def observe_batch(cases):
    """cases: normalized abstract cases with ids.  -> observations (one per case)"""
    from .. import scan as S
    plan = []          # (case idx, variant key or None, callable number)
    syms, slots = [], []
    comments = []
    n = 0
    rendered = {}
    for ci, case in enumerate(cases):
        todo = [(None, case)] + [((i, g), without(case, i, g)) for i, g in variants(case)]
        for key, c in todo:
            n += 1
            sym, cm, where = L.render(c, n)
            (slots if L.is_member(c) else syms).append(sym)
            comments.append(cm)
            rendered[(ci, key)] = (n, c, where)
    try:
        r = S.scan(L.prelude(slots) + syms, comments, dump_xml=L.DUMP)
    except Exception as e:      # the scanner crashed on this namespace: isolate the case
        if len(cases) == 1:
            return [crash_obs(cases[0], repr(e))]
        out = []
        for c in cases:
            out += observe_batch([c])
        return out
    tree = S.girabs(r.xml)
    idx = L.index_callables(tree)
    bylines = {}
    for rec in r.log:
        if rec['file'] == L.CFILE:
            bylines.setdefault(rec['line'], []).append(rec['text'])
    obs = []
    for ci, case in enumerate(cases):
        nvals = len(case['params']) + 1
        n0, c0, where0 = rendered[(ci, None)]
        outs, info = L.project_callable(case, idx.get(L.symbol_name(case, n0)))
        warned = [L.warned_names(bylines.get(where0.get(i), [])) if i in where0 else [] for i in range(nvals)]
        wo = []
        for i in range(nvals):
            ref = {}
            for g in L.WO_ORDER:
                hit = rendered.get((ci, (i, g)))
                if hit is None:
                    ref[g] = outs[i]
                else:
                    o2, _ = L.project_callable(hit[1], idx.get(L.symbol_name(hit[1], hit[0])))
                    ref[g] = o2[i]
            wo.append(dict(transfer=ref['transfer']['transfer'], nullable=ref['nullable']['nullable'],
                           optional=ref['optional']['optional'], anNullable=ref['allownone']['nullable'],
                           anOptional=ref['allownone']['optional'], scope=ref['scope']['scope'],
                           closure=ref['closure']['closure'], destroy=ref['destroy']['destroy'],
                           etElems=ref['et']['elems'], etTname=ref['et']['tname'], etTkind=ref['et']['tkind']))
        hit = rendered.get((ci, (0, 'all')))
        if hit is None:
            ret_bare = outs[0]
        else:
            o2, _ = L.project_callable(hit[1], idx.get(L.symbol_name(hit[1], hit[0])))
            ret_bare = o2[0]
        obs.append(dict(id=case['id'], case=case, out=outs, warned=warned, wo=wo, retBare=ret_bare,
                        crashed=False, found=info['found'], tag=info['tag'], introspectable=info['introspectable'],
                        throwsAttr=info['throws'], errorEmitted=bool(info.get('errorEmitted')),
                        selfEmitted=bool(info.get('selfEmitted'))))
    return obs


def crash_obs(case, text):
    nvals = len(case['params']) + 1
    absent = [dict(L.ABSENT_OUT, elems=[], attrs=[]) for _ in range(nvals)]
    wo = [dict(transfer='', nullable=False, optional=False, anNullable=False, anOptional=False, scope='', closure=-1,
               destroy=-1, etElems=[], etTname='', etTkind='missing') for _ in range(nvals)]
    return dict(id=case['id'], case=case, out=absent, warned=[[] for _ in range(nvals)], wo=wo, retBare=absent[0],
                crashed=True, found=False, tag=text[:200], introspectable=False, throwsAttr=False, errorEmitted=False,
                selfEmitted=False)


def observe_all(cases, pool):
    batches = [cases[k:k + BATCH] for k in range(0, len(cases), BATCH)]
    if pool is None or len(batches) <= 1:
        out = []
        for b in batches:
            out += observe_batch(b)
        return out
    res = pool.map(observe_batch, batches, chunksize=1)
    return [o for part in res for o in part]


# ------------------------------------------------------------------ random cases beyond the exhaustive bound
PARAM_KINDS = ['int', 'bool', 'double', 'char', 'gpointer', 'enumT', 'flagsT', 'recordT', 'boxedT', 'unionT', 'objectT',
               'ifaceT', 'callbackT', 'GList', 'GSList', 'GHashTable', 'GArray', 'GPtrArray', 'GByteArray', 'aliasT',
               'gvariant', 'gclosure', 'destroyNotify', 'asyncReady', 'unknownT', 'cancellable']
PTRS = {'int': [0, 1, 2], 'recordT': [0, 1, 2], 'char': [0, 1, 2, 3], 'bool': [0, 1], 'double': [0, 1], 'enumT': [0, 1],
        'flagsT': [0, 1], 'aliasT': [0, 1], 'gpointer': [0, 1], 'callbackT': [0], 'destroyNotify': [0], 'asyncReady': [0],
        'boxedT': [1, 2], 'objectT': [1, 2], 'gvariant': [1, 2], 'GList': [1, 2], 'GHashTable': [1, 2], 'GPtrArray': [1, 2]}
SPELL = ['utf8', 'guint8', 'Foo.Rec', 'FooObj', 'gint', 'filename', 'Foo.Unknown']


def random_value(rng, kinds=PARAM_KINDS):
    ck = rng.choice(kinds)
    ptr = rng.choice(PTRS.get(ck, [1]))
    return L.value(ck, ptr, const=(ptr == 1 and rng.random() < 0.25))


def random_ann(rng, a, weight=1.0):
    r = rng.random
    if r() < 0.25 * weight:
        a['transfer'] = rng.choice(['none', 'container', 'full', 'floating'])
    if r() < 0.3 * weight:
        a['dir'] = rng.choice(['in', 'out', 'inout', 'outcaller', 'outcallee', 'out'])
    if r() < 0.2 * weight:
        a['nullable'] = True
    if r() < 0.15 * weight:
        a['optional'] = True
    if r() < 0.1 * weight:
        a['allownone'] = True
    if r() < 0.1 * weight:
        a['notn'] = rng.choice(['nullable', 'optional'])
    if r() < 0.08 * weight:
        a['skip'] = True
    if r() < 0.1 * weight:
        a['attrs'] = rng.choice(['kv', 'k'])
    if r() < 0.1 * weight:
        a['et'] = [rng.choice(SPELL) for _ in range(rng.choice([1, 1, 1, 2]))]
    if r() < 0.06 * weight:
        a['type'] = rng.choice(SPELL + ['GLib.List(utf8)'])
    if r() < 0.06 * weight:
        a['scope'] = rng.choice(['call', 'async', 'notified', 'forever'])
    if r() < 0.08 * weight:
        a['array'] = True
        if r() < 0.4:
            a['afixed'] = rng.choice([0, 3, 16])
        if r() < 0.5:
            a['azt'] = rng.choice(['bare', '0', '1'])


def random_case(rng, n):
    kind = rng.choice(['function', 'function', 'method', 'callback'])
    np_ = rng.randint(5, 8)
    params = [random_value(rng) for _ in range(np_)]
    rk = rng.choice(['void', 'void', 'int', 'char', 'gpointer', 'recordT', 'boxedT', 'objectT', 'GList', 'GHashTable',
                     'GPtrArray', 'enumT', 'aliasT', 'gvariant', 'unknownT'])
    ret = L.value(rk, 0 if rk == 'void' else rng.choice(PTRS.get(rk, [1])))
    free = list(range(1, np_ + 1))
    rng.shuffle(free)
    # relational structure 1: arrays with a length parameter (sometimes shared, sometimes on the return value)
    for _ in range(rng.choice([0, 1, 1, 2])):
        if len(free) < 2:
            break
        ai, li = free.pop(), free.pop()
        arr_on_ret = rng.random() < 0.25 and rk != 'void'
        tgt = ret if arr_on_ret else params[ai - 1]
        if not arr_on_ret:
            ck = rng.choice(['int', 'char', 'recordT', 'gpointer', 'GPtrArray', 'objectT'])
            params[ai - 1] = tgt = L.value(ck, {'gpointer': 0}.get(ck, rng.choice([1, 2])))
        params[li - 1] = L.value(rng.choice(['int', 'int', 'aliasT', 'gpointer']), rng.choice([0, 0, 1]))
        tgt['ann'].update(array=True, alen=li)
        if rng.random() < 0.5:
            tgt['ann']['azt'] = rng.choice(['1', '0'])
        if not arr_on_ret and rng.random() < 0.6:
            d = rng.choice(['out', 'inout', 'in', 'outcaller'])
            tgt['ann']['dir'] = d
            if rng.random() < 0.5:
                params[li - 1]['ann']['dir'] = d if rng.random() < 0.8 else 'out'
    # relational structure 2: callback + user data + notifier, annotated explicitly and/or by naming convention
    for _ in range(rng.choice([0, 1, 1, 2])):
        if len(free) < 3:
            break
        trio = sorted([free.pop(), free.pop(), free.pop()])
        if rng.random() < 0.2:
            rng.shuffle(trio)
        ci, di, ni = trio
        params[ci - 1] = L.value(rng.choice(['callbackT', 'callbackT', 'asyncReady', 'gpointer']), 0)
        params[di - 1] = L.value(rng.choice(['gpointer', 'gpointer', 'int', 'char']), {'char': 1}.get('x', 0), ud=rng.random() < 0.5)
        if params[di - 1]['ck'] == 'char':
            params[di - 1]['ptr'] = 1
        params[ni - 1] = L.value(rng.choice(['destroyNotify', 'destroyNotify', 'callbackT', 'int']), 0)
        a = params[ci - 1]['ann']
        if rng.random() < 0.6:
            a['closure'] = di
        if rng.random() < 0.5:
            a['destroy'] = ni
        if rng.random() < 0.5:
            a['scope'] = rng.choice(['call', 'async', 'notified', 'forever'])
        if kind == 'callback' and rng.random() < 0.5:
            params[di - 1]['ann']['closure'] = 0
    # independent annotations everywhere
    for p in params:
        random_ann(rng, p['ann'], 0.7)
    random_ann(rng, ret['ann'], 0.5)
    if rng.random() < 0.1:
        ret['ann']['dir'] = ''
    shape, copy = 'plain', 1
    if kind == 'method' and rng.random() < 0.5:
        shape, copy = rng.choice(['movedto', 'vfunc']), rng.choice([1, 2])
    return L.normalize(dict(id='rand-%d' % n, kind=kind, throws=rng.random() < 0.4, ret=ret, params=params, shape=shape, copy=copy))


# ------------------------------------------------------------------ the check
CORE = ['Transfer', 'TransferBad', 'Direction', 'DirectionTransfer', 'CallerAllocates', 'Nullable', 'NullableBad', 'NotNullable', 'Optional',
        'OptionalBad', 'AllowNoneOut', 'AllowNonePointer', 'Skip', 'Attrs', 'Array', 'ArrayLengthIndex',
        'ArrayLengthDirection', 'ElementType', 'ElementTypeBad', 'Type', 'Scope', 'ScopeBad', 'Closure', 'ClosureUserData',
        'ClosureBad', 'Destroy', 'DestroyBad', 'ReturnOnlyParam', 'ReturnVoid']


def load_cases(path, prefix):
    out = []
    with open(path) as f:
        for k, line in enumerate(l for l in f if l.strip()):
            c = json.loads(line)
            c['id'] = '%s-%d' % (prefix, k)
            out.append(L.normalize(c))
    return out


def run():
    ck = PCheck(PID, 'model_checking')
    a = ck.args
    ck.assumptions += [
        'giscanner._giscanner (C lexer) is stubbed; C declarations reach Transformer.parse() through harness/scan.py symgen '
        '(conventions read off scannerparser.y, listed in harness/scan.py)',
        'the runtime type dump is a fixed XML document (one class FooObj, one interface FooIface, one boxed FooBox); GLib/GObject/Gio '
        'are the synthetic dependency GIRs of harness/data/gir',
        'some hundred independent callables are packed into one namespace per scan; callables do not influence one another '
        '(each case and its "without annotation" variants are separate callables foo_c<N>)',
        'warned annotation names are derived from the logged warnings positioned on the comment line of the parameter / Returns: tag',
        '(type T) / (element-type T) spellings are drawn from a fixed grammar (utf8, guint8, gint, filename, Foo.Rec, FooObj, '
        'GLib.List(utf8), unknown names), not arbitrary strings',
        'default typing of C declarations (tla/Annotate.tla PART 1) is an assumption of the model, re-validated on every observation (DRIFT)',
        'callable kinds: functions, methods (instance parameter), callback typedefs, each with and without a trailing GError**; signals and '
        'virtual methods go through the same MainTransformer._apply_annotations_callable path and are not rendered separately',
    ]
    state = dict(ndrift=0, seen=set(), exercised={}, scan_s=0.0, verdict_s=0.0, nobs=0)

    def judge(cases, pool, jobs):
        """3. run the real scanner on the cases  4. let TLC judge every observation"""
        t = time.time()
        obs = observe_all(cases, pool)
        state['scan_s'] += time.time() - t
        ck.count(len(obs))
        state['nobs'] += len(obs)
        by_id = {o['id']: o for o in obs}
        slim = [dict(id=o['id'], case=o['case'], out=o['out'], warned=o['warned'], wo=o['wo'], retBare=o['retBare'],
                     crashed=o['crashed']) for o in obs]
        t = time.time()
        rejected, exercised = ck.tlc_verdict_par('AnnotateTrace', slim, dict(C01_DRIFT='1'), jobs)
        state['verdict_s'] += time.time() - t
        for c, n in exercised.items():
            state['exercised'][c] = state['exercised'].get(c, 0) + n
        for oid, clause, detail in rejected:
            o = by_id[oid]
            if clause == 'DRIFT':
                state['ndrift'] += 1
                if state['ndrift'] <= 20:
                    ck.notes.append('DRIFT %s %s: the implementation-shaped layer predicts another value (%s)' % (
                        oid, detail, describe(o['case'])[:600]))
                continue
            vi, cls, how = (detail.split(':') + ['', ''])[:3]
            sig = dict(clause=clause, cls=cls, how=how)
            ck.violation(sig, 'case %s value %s: clause %s rejected (class %s, %s)\n%s\nobserved: %s\nwarned: %s' % (
                oid, vi, clause, cls, how, describe(o['case']), json.dumps(o['out'][int(vi[1:])]), o['warned'][int(vi[1:])]),
                dict(id=oid, case=o['case'], out=o['out'], warned=o['warned'], wo=o['wo']))
        for o in obs:
            c = o['case']
            if any(v['ann'] != L.EMPTY_ANN for v in [c['ret']] + c['params']):
                key = hashlib.sha1(json.dumps([c['kind'], c['throws'], c['ret'], c['params']], sort_keys=True).encode()).hexdigest()[:16]
                if key not in state['seen']:
                    state['seen'].add(key)
                    ck.nontrivial(key)
        for o in obs[:1]:
            ck.sample(dict(id=o['id'], c=describe(o['case']), out=o['out'], warned=o['warned']))

    if a.replay:
        rp = json.load(open(a.replay))['replay']
        judge([L.normalize(rp['case'])], None, 1)
    else:
        import multiprocessing as mp
        plan = MC_QUICK if ck.quick else MC_THOROUGH
        nproc = min(NCPU, 16)
        # worker processes first (fork before any thread exists), then the model-checking runs in the background
        pool = mp.get_context('fork').Pool(nproc)
        try:
            jobs = []
            for cfg in plan:
                env = dict(C01_CASES_FILE=os.path.join(ck.tmp, 'cases-%s.ndjson' % cfg), C01_SEED=str(ck.seed))
                jobs.append((cfg, env))
            # TLC processes at a time / workers of each: the big run(s) plus the tiny witness searches alongside
            if NCPU >= 8:
                conc, wk = (1 + len(WITNESS), NCPU) if ck.quick else (3, NCPU // 2)
            else:
                conc, wk = (2 if NCPU >= 3 else 1), max(1, NCPU - 1)
            ck.prefetch([('AnnotateMC.tla', 'Annotate_%s.cfg' % cfg, [], env, TLC_TIMEOUT, wk) for cfg, env in jobs] +
                        [('AnnotateMC.tla', cfg, [], dict(C01_SEED=str(ck.seed)), TLC_TIMEOUT, 1) for cfg in WITNESS.values()], conc)
            # ------------------------------------------------------ 2. random callables beyond the bound (while TLC works)
            nrand = 600 if ck.quick else 20000
            rand = [random_case(ck.rng, n) for n in range(nrand)]
            if not ck.quick:
                judge(rand, pool, nproc // 2)
                rand = []
            # ------------------------------------------------------ 1. model checking + export of exactly the cases TLC counted
            pending = list(rand)
            for cfg, env in jobs:
                ck.tlc_mc('AnnotateMC', 'Annotate_%s.cfg' % cfg, coverage=False, workers=wk, timeout=TLC_TIMEOUT, env=env,
                          label='Impl => property layer on case space %s' % cfg)
                cases = load_cases(env['C01_CASES_FILE'], cfg)
                os.unlink(env['C01_CASES_FILE'])
                if ck.quick:
                    pending += cases            # one scan + one round of verdicts for everything
                else:
                    judge(cases, pool, nproc)   # space by space (memory)
            # ------------------------------------------------------ witnesses: an earlier behaviour switched back on in the
            # implementation-shaped layer must break the property in the model; TLC's counterexample is replayed on the real code
            for cls, cfg in sorted(WITNESS.items()):
                r = ck.tlc_mc('AnnotateMC', cfg, coverage=False, workers=1, timeout=TLC_TIMEOUT, env=dict(C01_SEED=str(ck.seed)),
                              expect_ok=False, label='witness search: what-if switch %s' % cls)
                trace = parse_error_trace(r['out'])
                if r.get('violated') != 'NoDeviation' or not trace or 'case' not in trace[0][1]:
                    raise MachineryError('model has no witness for %s: %s' % (cls, (r.get('error') or r['out'][-1500:])))
                c = tla_to_py(trace[0][1]['case'])
                c['id'] = 'witness-%s' % cls
                pending.append(L.normalize(c))
                ck.notes.append('witness %s: %s' % (cls, describe(pending[-1])))
            if pending:
                judge(pending, pool, nproc)
        finally:
            pool.terminate()
            if ck._pool is not None:
                ck._pool.shutdown(wait=False)
        ck.cov['exhaustive'] = True
    ck.notes.append('scanned %d cases in %.1fs, verdicts in %.1fs' % (state['nobs'], state['scan_s'], state['verdict_s']))
    ck.cov['drifted_observations'] = state['ndrift']
    ck.cov['rule'] = ('an observation = one callable scanned by the real pipeline (+ its without-annotation variants); '
                      'non-trivial = at least one value carries an annotation; distinct by abstract case')
    if not a.replay:
        for c in CORE:
            if not state['exercised'].get(c):
                ck.notes.append('VACUOUS: clause %s was never exercised' % c)
                if not ck.quick:
                    raise MachineryError('core clause %s never exercised' % c)
    return ck.finish()


def describe(case):
    """C-like rendering of an abstract case (for humans)"""
    def one(v, name):
        t = L.ann_text(case, v['ann'])
        return '%s%s%s' % (L.ctext(v), name, ('  /* %s */' % t) if t else '')
    shape = case.get('shape', 'plain')
    ps = ([('FooRec *self' if shape == 'movedto' else 'FooObj *self')] if case['kind'] == 'method' else []) + \
         [one(p, L.pname(case, k)) for k, p in enumerate(case['params'], 1)] + \
         (['GError **error'] if case['throws'] else [])
    what = case['kind'] if shape == 'plain' else {
        ('movedto', 1): '<method moved-to> made from function foo_recs_*', ('movedto', 2): '<function> foo_recs_* kept next to its moved-to method',
        ('vfunc', 1): '<virtual-method> made from class-structure slot', ('vfunc', 2): '<field><callback> of the class structure'}[(shape, case.get('copy', 1))]
    return '%s %s: %s (%s)' % (what, case.get('id', ''), one(case['ret'], ''), ', '.join(ps))


if __name__ == '__main__':
    main_wrapper(PID, run)

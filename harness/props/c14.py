"""C14 -- every typelib entry can be found by name, GType name and error domain.

1. TLC model-checks tla/DirIndex.tla:
   * lookup model: for EVERY admissible perfect hash h (a state variable chosen in Init: injective
     onto 0..n-1 on the names, arbitrary -- also >= n -- elsewhere), every pack order and every
     probe, indexed lookup = linear lookup = truth (n <= 4, 2 absent probes; thorough n <= 5);
     key scans (GType name / error domain) and the two-pass repository search;
   * what-if configurations (no final strcmp / no clamp) must violate AbsentIsAbsent (non-vacuity);
   * size arithmetic of the index section with the widths of the C variables: the as-is
     configuration (guint16 required_size) yields a counterexample whose n is the smallest entry
     count for which the compiler cannot build the index; a second run proves the failure set is
     exactly n >= that boundary over 1..65535; the 32-bit variant (Inv_Wide32) holds everywhere.
2. Cases: name sets (sizes x styles, seeded) rendered as GIR text (constants / records / enums with
   glib:type-name, glib:error-domain) and compiled by REPO's g-ir-compiler, including the entry
   counts TLC exhibited (boundary-1, boundary); the system typelibs as corpus.
3. harness/cdrv/drv_lookup.c probes the real lookup functions (with index, with the section table
   unreachable, repository level); drv_hash.c drives the hash builder directly.
4. tla/DirIndexTrace.tla judges every observation.  Verdicts come from TLC only.

Development aid (mutation exercise): C14_DEV_FAST=1 keeps only the TLC run that exhibits the boundary
and skips the other model-checking runs; the evidence then says exhaustive=false.
"""
import glob, json, os, random, subprocess, time

from ..common import Check, MachineryError, main_wrapper, REPO, VERIF, parse_error_trace
from ..cbuild import CBuild

PID = 'C14'
SIZES_QUICK = [1, 2, 3, 4, 7, 8, 9, 255, 256, 257, 1000, 4096]
SIZES_THOROUGH = [32767, 32768, 33000, 40000, 65535]
STYLES = ['seq', 'num', 'long', 'near', 'rand']
SYS_TYPELIBS = '/usr/lib/x86_64-linux-gnu/girepository-1.0/*.typelib'
CDRV = os.path.join(VERIF, 'harness', 'cdrv')
ALNUM = 'abcdefghijklmnopqrstuvwxyzABCDEFGHIJKLMNOPQRSTUVWXYZ0123456789_'
B36 = '0123456789abcdefghijklmnopqrstuvwxyz'


# ----------------------------------------------------------------------------- abstract cases
def _seqname(i):
    """bijective base 26: a..z, aa, ab, ... (heavily prefix-related)"""
    s = ''
    i += 1
    while i > 0:
        i, r = divmod(i - 1, 26)
        s = chr(97 + r) + s
    return s


def _b36(i, width):
    s = ''
    for _ in range(width):
        i, r = divmod(i, 36)
        s = B36[r] + s
    return s


def _variants(r):
    out = [r, r + '_', '_' + r, r.upper(), r.lower(), r.swapcase(), r.capitalize(), r + r, r + '0', r + '1', r + 'x']
    if len(r) > 1:
        out.append(r[:-1])
        out.append(r[1:])
    for k in range(len(r)):
        c = r[k]
        nc = ALNUM[(ALNUM.index(c) + 1) % len(ALNUM)] if c in ALNUM else 'q'
        out.append(r[:k] + nc + r[k + 1:])                      # one-character difference
        if k + 1 < len(r):
            out.append(r[:k] + r[k + 1] + r[k] + r[k + 2:])     # transposition
    return out


def gen_names(spec):
    """pure function of spec = {n, style, seed}: n distinct names over [A-Za-z0-9_], 1..300 chars"""
    n, style = spec['n'], spec['style']
    rng = random.Random('%s/%s/%s' % (n, style, spec.get('seed', 0)))
    if style == 'seq':
        return [_seqname(i) for i in range(n)]
    if style == 'num':
        return ['c%d' % i for i in range(n)]
    if style == 'long':
        pre = 'LONGCOMMONPREFIX_' * 18
        return [pre[:(300 - (i % 7) * 45) - 5] + '_' + _b36(i, 4) for i in range(n)]
    if style == 'near':
        roots = ['ab', 'Foo', 'foo_bar', 'X', 'name', 'GObject', 'a', 'Zz9', 'get_type', 'q' * 40]
        seen, out, k = set(), [], 0
        while len(out) < n:
            r = roots[k] if k < len(roots) else _seqname(k * 7 + 3) + 'Root'
            k += 1
            for v in _variants(r):
                if v and v not in seen and len(out) < n:
                    seen.add(v)
                    out.append(v)
        rng.shuffle(out)
        return out
    if style == 'rand':
        seen, out = set(), []
        lens = [1, 1, 2, 2, 3, 5, 8, 13, 40, 120, 299, 300]
        while len(out) < n:
            L = rng.choice(lens) if rng.random() < 0.7 else rng.randint(1, 300)
            s = ''.join(rng.choice(ALNUM) for _ in range(L))
            if s not in seen:
                seen.add(s)
                out.append(s)
        return out
    raise MachineryError('unknown style %r' % style)


def entry_plan(names, mix):
    """per entry (directory order = document order): (xml kind, gtype name or None, error domain or None)"""
    plan = []
    for i, N in enumerate(names, 1):
        if mix == 'const':
            plan.append(('constant', None, None))
            continue
        k = i % 6
        if k == 1:
            plan.append(('record', 'TnsX' + N, None))            # prefix + capital: first repository pass
        elif k == 2:
            plan.append(('enumeration', 'TnsE' + N, 'dom-%s-quark' % N))
        elif k == 3:
            plan.append(('record', None, None))
        elif k == 4:
            plan.append(('enumeration', 'Oth' + N, N))           # foreign prefix: second pass; domain = own name
        elif k == 5:
            plan.append(('enumeration', None, None))
        else:
            plan.append(('constant', None, None))
    return plan


def render_gir(names, plan):
    out = ['<?xml version="1.0"?>',
           '<repository version="1.2" xmlns="http://www.gtk.org/introspection/core/1.0" '
           'xmlns:c="http://www.gtk.org/introspection/c/1.0" xmlns:glib="http://www.gtk.org/introspection/glib/1.0">',
           '<namespace name="Tns" version="1.0" c:identifier-prefixes="Tns" c:symbol-prefixes="tns">']
    for i, (N, (kind, gt, dom)) in enumerate(zip(names, plan), 1):
        if kind == 'constant':
            out.append('<constant name="%s" value="%d" c:type="C%d"><type name="gint" c:type="gint"/></constant>' % (N, i % 1000, i))
        elif kind == 'record':
            g = ' glib:type-name="%s" glib:get-type="tns_t%d_get_type"' % (gt, i) if gt else ''
            out.append('<record name="%s" c:type="TnsR%d"%s></record>' % (N, i, g))
        else:
            g = ' glib:type-name="%s" glib:get-type="tns_t%d_get_type"' % (gt, i) if gt else ''
            d = ' glib:error-domain="%s"' % dom if dom else ''
            out.append('<enumeration name="%s" c:type="TnsE%d"%s%s><member name="v" value="0" c:identifier="TNS_E%d_V"/></enumeration>'
                       % (N, i, g, d, i))
    out.append('</namespace></repository>')
    return '\n'.join(out) + '\n'


def absent_variants(m, j):
    v = [m + 'x', m[:-1], m + m[-1:], m.swapcase(), m[::-1], m[:len(m) // 2], m + '_', m[1:],
         m[:-1] + ('y' if m[-1:] != 'y' else 'z'), m.upper(), m.lower(), m + m]
    return v[j % len(v):] + v[:j % len(v)]


def absent_probes(keys, want, others, rng):
    """strings that are NOT in keys: prefixes, extensions, permutations, case variants, the empty
    string, names from other sets"""
    present = set(keys)
    out, seen = [], set()

    def add(s):
        if s not in present and s not in seen and '\t' not in s and '\n' not in s:
            seen.add(s)
            out.append(s)
    for s in ['', ' ', 'Tns', 'ñame', 'c', '-'] + others:
        add(s)
    j = 0
    order = list(keys)
    if len(order) > want:
        order = rng.sample(order, want)
    for rnd in range(3):
        for m in order:
            if len(out) >= want + 6:
                break
            for s in absent_variants(m, j)[:2]:
                add(s)
            j += 1
    k = 0
    while len(out) < want:
        add('zz%d' % k)
        k += 1
    return out[:max(want, 6)]


# ----------------------------------------------------------------------------- running the real code
class Runner(object):
    def __init__(self, ck):
        self.ck = ck
        t = time.time()
        self.cb = CBuild(os.path.join(ck.tmp, 'build')).build()
        self.lookup = self.cb.driver(os.path.join(CDRV, 'drv_lookup.c'))
        self.hash = self.cb.driver(os.path.join(CDRV, 'drv_hash.c'))
        ck.notes.append('C build %.1fs' % (time.time() - t))
        self.env = dict(os.environ, GI_TYPELIB_PATH='', G_DEBUG='', G_SLICE='always-malloc')
        self.obs = []
        self.info = {}        # obs id -> (case id, kind, probe string)
        self.cases = {}       # case id -> replay dict

    def run(self, cmd, timeout=600, env=None):
        try:
            return subprocess.run(cmd, stdout=subprocess.PIPE, stderr=subprocess.PIPE, env=env or self.env, timeout=timeout)
        except subprocess.TimeoutExpired:
            raise MachineryError('timeout: %s' % ' '.join(cmd[:3]))

    def rec(self, **kw):
        r = dict(id='', kind='none', n=0, isMember=False, expected=[], fIdx=0, fLin=0, fRepo=0, repoAsked=False,
                 hasIndex=False, built=False, packedReal=0, dirmapReal=0)
        r.update(kw)
        self.obs.append(r)
        return r

    def probe_typelib(self, cid, typelib, n, probes, history=''):
        """probes: list of (kind 'N'|'G'|'E', string, isMember, expected list).  Returns header dict or None."""
        d = os.path.dirname(typelib) if typelib.startswith(self.ck.tmp) else self.ck.tmp
        pf = os.path.join(d, cid.replace('/', '_') + '.probes')
        with open(pf, 'w', encoding='utf-8') as f:
            for j, (k, s, _, _) in enumerate(probes):
                f.write('%s\t%d\t%s\n' % (k, j, s))
        env = None
        if not typelib.startswith(self.ck.tmp):     # system typelib: its dependencies must be loadable
            env = dict(self.env, GI_TYPELIB_PATH=os.path.dirname(typelib))
        if history:
            env = dict(env or self.env, DRV_LOOKUP_HISTORY=history)
        p = self.run([self.lookup, 'probe', typelib, pf], env=env)
        os.unlink(pf)
        lines = p.stdout.decode('utf-8', 'replace').split('\n')
        hdr = None
        got = {}
        for ln in lines:
            c = ln.split('\t')
            if c[0] == 'H':
                hdr = dict(n_local=int(c[1]), n_entries=int(c[2]), hasIndex=c[3] == '1', sec_off=int(c[4]),
                           dirmap=int(c[5]), length=int(c[6]))
            elif c[0] == 'P':
                got[int(c[1])] = (int(c[2]), int(c[3]), int(c[4]), c[5] == '1')
        crashed = p.returncode != 0
        kindname = {'N': 'name', 'G': 'gtype', 'E': 'domain'}
        for j, (k, s, ism, exp) in enumerate(probes):
            oid = '%s/%s%d' % (cid, k, j)
            if j in got:
                fi, fl, fr, asked = got[j]
            else:
                # the driver died (signal / abort) before answering: the lookup returned nothing usable
                fi, fl, fr, asked = -9, -9, -9, True
            self.rec(id=oid, kind=kindname[k], n=n, isMember=ism, expected=list(exp), fIdx=fi, fLin=fl, fRepo=fr,
                     repoAsked=asked, hasIndex=bool(hdr and hdr['hasIndex']), built=True)
            self.info[oid] = (cid, k, s)
        if crashed:
            self.ck.notes.append('%s: drv_lookup exited with %d: %s' % (cid, p.returncode, p.stderr.decode('utf-8', 'replace')[-300:]))
        self.ck.count(len(probes))
        return hdr

    def walk(self, typelib):
        p = self.run([self.lookup, 'walk', typelib])
        if p.returncode != 0:
            raise MachineryError('drv_lookup walk failed on %s: %s' % (typelib, p.stderr.decode()[-500:]))
        ents = []
        for ln in p.stdout.decode('utf-8', 'replace').split('\n'):
            c = ln.split('\t')
            if c[0] == 'D':
                ents.append((int(c[1]), int(c[2]), c[3], c[4], c[5]))
        return ents

    # ------------------------------------------------------------------ generated name sets
    def generated_case(self, spec, cap_members, cap_absent, only_probes=None):
        ck = self.ck
        n, style, mix = spec['n'], spec['style'], spec['mix']
        cid = 'gen-%s-%s-%d-s%d' % (style, mix, n, spec.get('seed', 0))
        names = gen_names(spec)
        assert len(names) == n and len(set(names)) == n
        plan = entry_plan(names, mix)
        d = os.path.join(ck.tmp, cid)
        os.makedirs(d, exist_ok=True)
        gir = os.path.join(d, 'Tns-1.0.gir')
        with open(gir, 'w') as f:
            f.write(render_gir(names, plan))
        out = os.path.join(d, 'Tns-1.0.typelib')
        t = time.time()
        p = self.cb.compile_gir(gir, out)
        built = p.returncode == 0 and os.path.exists(out)
        self.cases[cid] = dict(kind='generated', spec=spec)
        b = self.rec(id=cid + '/build', kind='build', n=n, built=built)
        self.info[b['id']] = (cid, 'B', 'g-ir-compiler rc=%s %s' % (p.returncode, (p.stderr or '').strip()[-300:]))
        ck.count()
        if not built:
            return
        rng = random.Random('%s/probes/%d' % (cid, ck.seed))
        idx = {N: i for i, N in enumerate(names, 1)}
        gts = {gt: i for i, (_, gt, _) in enumerate(plan, 1) if gt}
        doms = {dm: i for i, (_, _, dm) in enumerate(plan, 1) if dm}
        if only_probes is not None:
            probes = [(k, s, (s in {'N': idx, 'G': gts, 'E': doms}[k]),
                       [{'N': idx, 'G': gts, 'E': doms}[k][s]] if s in {'N': idx, 'G': gts, 'E': doms}[k] else [])
                      for k, s in only_probes]
        else:
            probes = []
            other = ['c%d' % (n + 1), _seqname(n + 5), 'LONGCOMMONPREFIX_']
            for k, table, cm, ca in (('N', idx, cap_members, cap_absent), ('G', gts, cap_members // 2, cap_absent // 2),
                                     ('E', doms, cap_members // 2, cap_absent // 2)):
                if k != 'N' and not table:
                    continue
                mem = list(table)
                if len(mem) > cm:
                    # always keep the first/last entries and the table edge, sample the rest
                    keep = mem[:50] + mem[-50:]
                    mem = keep + rng.sample(mem[50:-50], cm - len(keep))
                probes += [(k, s, True, [table[s]]) for s in mem]
                cross = list(names[:3]) + list(gts)[:2] + list(doms)[:2]       # keys of the other kinds
                for s in absent_probes(list(table), min(2 * len(table), ca), other + cross, rng):
                    probes.append((k, s, False, []))
        hdr = self.probe_typelib(cid, out, n, probes)
        if n <= 300 and only_probes is None:
            # repository-level lookups must not depend on the HISTORY of the process: every probe asked
            # once before the typelib is registered (negative caches filled), then registered eagerly /
            # lazily (tla/GTypeCache.tla); the same clauses judge the answers given afterwards
            for hist in ('pre', 'pre-lazy'):
                self.probe_typelib(cid + '/h:' + hist, out, n, probes, history=hist)
        if hdr:
            b.update(hasIndex=hdr['hasIndex'], dirmapReal=hdr['dirmap'],
                     packedReal=(hdr['length'] - hdr['sec_off']) if hdr['hasIndex'] else 0)
            if hdr['n_local'] != n:
                ck.notes.append('%s: Header.n_local_entries=%d for %d GIR elements' % (cid, hdr['n_local'], n))
        if n <= 5000:
            w = [e[2] for e in self.walk(out)]
            if w != names:
                ck.notes.append('DRIFT %s: directory order differs from the GIR document order' % cid)
            else:
                self.order_checked = getattr(self, 'order_checked', 0) + 1
        if any(len(N) >= 100 for N in names) or style == 'near':
            ck.nontrivial(cid)
        if os.path.exists(out) and not ck.args.keep:
            os.unlink(out)
            os.unlink(gir)

    # ------------------------------------------------------------------ the hash builder directly
    def hash_case(self, n, style):
        names = gen_names(dict(n=n, style=style, seed=0))
        nf = os.path.join(self.ck.tmp, 'hash-%d.names' % n)
        with open(nf, 'w') as f:
            f.write('\n'.join(names) + '\n')
        p = self.run([self.hash, nf])
        os.unlink(nf)
        c = p.stdout.decode().strip().split('\t')
        if p.returncode != 0 or not c or c[0] != 'S':
            self.ck.notes.append('drv_hash n=%d: rc=%d %s' % (n, p.returncode, p.stderr.decode()[-200:]))
            return
        if c[2] == '1':
            self.rec(id='hash-%s-%d' % (style, n), kind='hash', n=n, built=True, hasIndex=True, packedReal=int(c[3]), dirmapReal=int(c[4]))
            self.info['hash-%s-%d' % (style, n)] = ('hash', 'H', 'drv_hash n=%d packed_size=%s dirmap_offset=%s member_mismatches=%s' % (n, c[3], c[4], c[5]))
            if c[5] != '0':
                self.ck.notes.append('DRIFT drv_hash n=%d: %s members not returned by _gi_typelib_hash_search' % (n, c[5]))
            self.hash_sizes[n] = int(c[3])
        self.ck.count()

    # ------------------------------------------------------------------ system typelibs
    def system_case(self, path, cap_members, only_probes=None):
        ck = self.ck
        cid = 'sys-' + os.path.basename(path)[:-8]
        ents = self.walk(path)
        n = len(ents)
        self.cases[cid] = dict(kind='system', typelib=path)
        tabs = {'N': {}, 'G': {}, 'E': {}}
        for i, bt, name, gt, dom in ents:
            tabs['N'].setdefault(name, []).append(i)
            if gt and bt in (3, 5, 6, 7, 8, 11):      # the blob types the statement calls registered types (struct, enum, flags, object, interface, union)
                tabs['G'].setdefault(gt, []).append(i)
            if dom:
                tabs['E'].setdefault(dom, []).append(i)
        rng = random.Random('%s/%d' % (cid, ck.seed))
        if only_probes is not None:
            probes = [(k, s, s in tabs[k], tabs[k].get(s, [])) for k, s in only_probes]
        else:
            probes = []
            for k in 'NGE':
                mem = list(tabs[k])
                if len(mem) > cap_members:
                    mem = rng.sample(mem, cap_members)
                probes += [(k, s, True, tabs[k][s]) for s in mem]
                for s in absent_probes(list(tabs[k]), 2 * len(mem), ['c1', 'Tns'], rng):
                    probes.append((k, s, False, []))
        self.probe_typelib(cid, path, n, probes)
        ck.nontrivial(cid)


def run():
    ck = Check(PID, 'model_checking')
    a = ck.args
    ck.assumptions += [
        'C side built from REPO against the GLib declaration shim (cshim/include) and linked with the system GLib 2.74 runtime',
        'directory order of a compiled typelib = document order of the top-level GIR elements (girparser.c appends to module->entries; '
        'verified per case for n <= 5000 by an independent linear walk, mismatch = DRIFT note); expected indices are the generator\'s positions',
        'cmph/bdz.c double arithmetic r = ceil(1.23*m/3) equals ceil(123m/300) for all m in 1..65535 (checked at start of every run); '
        'the packed-size model is compared with the real builder (drv_hash) and the real section (typelib header) as DRIFT only',
        'GTypes for repository-level lookups are dummy boxed types registered under the probed name (find_by_gtype only uses g_type_name)',
        'glib:boxed elements (BLOB_TYPE_BOXED) are not generated: by_gtype_name skips them by construction (reported separately)',
        'linear fallback is reached by zeroing Header.sections on a private copy of the typelib bytes (get_section_by_id returns NULL)',
    ]
    import math
    for m in range(1, 65536):
        if math.ceil((1.23 * m) / 3) != -((-123 * m) // 300):
            raise MachineryError('bdz r arithmetic: float and integer model differ at m=%d' % m)

    replay = json.load(open(a.replay))['replay'] if a.replay else None
    R = Runner(ck)
    tphase = time.time()
    R.hash_sizes = {}

    boundary = None
    if not replay:
        # ---------------------------------------------------------------- 1. model checking
        fast = bool(os.environ.get('C14_DEV_FAST'))
        lk = 'DirIndex_lookup.cfg' if ck.quick else 'DirIndex_lookup_t.cfg'
        if not fast:
          ck.tlc_mc('DirIndexMC', lk, workers=8, timeout=170, coverage=False,
                  label='for all perfect hashes h, pack orders, probes: indexed = linear = truth; key scans; repository passes')
        for cfg, what in (('DirIndex_w_nocmp.cfg', 'no final strcmp'), ('DirIndex_w_noclamp.cfg', 'no clamp of out-of-range hash values')):
            if fast:
                break
            r = ck.tlc_mc('DirIndexMC', cfg, workers=1, timeout=170, coverage=False, expect_ok=False, label='what-if: ' + what)
            if r.get('violated') != 'Inv_AbsentIsAbsent':
                raise MachineryError('what-if %s did not violate AbsentIsAbsent (model vacuous?): %s' % (cfg, r.get('error')))
        # repository level: the negative GType cache over every history of lookups and (eager / lazy) registrations
        ck.tlc_mc('GTypeCacheMC', 'GTypeCache_q.cfg', workers=2, timeout=600, coverage=False,
                  label='every history of find_by_gtype / register (eager, lazy): repository answer = typelib-level truth')
        r = ck.tlc_mc('GTypeCacheMC', 'GTypeCache_w_lazy.cfg', workers=1, timeout=600, coverage=False, expect_ok=False,
                      label='what-if: a lazy registration that does not clear the negative cache')
        if r.get('violated') not in ('CacheSound', 'RepoAgrees'):
            raise MachineryError('what-if GTypeCache_w_lazy did not violate CacheSound/RepoAgrees: %s' % r.get('error'))
        # as-is arithmetic (guint16 required_size): TLC exhibits the smallest n whose index cannot be built
        r = ck.tlc_mc('DirIndexMC', 'DirIndex_bisect16.cfg', workers=1, timeout=170, coverage=False, expect_ok=False,
                      label='as-is size arithmetic (guint16 required_size): bisection for the smallest n in 1..65535 that breaks IndexBuilt')
        if r.get('violated') == 'Inv_NoBoundary':
            st = parse_error_trace(r['out'])
            boundary = int(st[-1][1]['hi'])
            ck.notes.append('TLC counterexample of DirIndex_bisect16.cfg: smallest n = %d, %s' % (boundary, st[-1][1].get('sz')))
            if not ck.quick:
                r1 = ck.tlc_mc('DirIndexMC', 'DirIndex_size16_t.cfg', workers=1, timeout=170, coverage=False, expect_ok=False,
                               label='as-is size arithmetic: enumeration of n = 1, 2, ... until IndexBuilt breaks')
                st1 = parse_error_trace(r1['out'])
                if r1.get('violated') != 'Inv_IndexBuilt' or int(st1[-1][1]['n']) != boundary:
                    raise MachineryError('enumeration and bisection disagree on the smallest failing n: %s vs %d' % (st1[-1][1].get('n') if st1 else None, boundary))
        elif r['ok']:
            ck.notes.append('the size arithmetic model as configured builds the index for every n in 1..65535: no boundary')
        else:
            raise MachineryError('DirIndex_bisect16: %s' % r.get('error'))
        if not fast:
            ck.tlc_mc('DirIndexMC', 'DirIndex_bound16.cfg' if ck.quick else 'DirIndex_bound16_t.cfg', workers=8, timeout=170, coverage=False,
                      env={'C14_BOUNDARY': str(boundary or 0)},
                      label='size arithmetic: IndexBuilt fails exactly for n >= %s (%s); monotone; section layout where built; '
                            '32-bit required_size always builds' % (boundary, 'chosen n and boundary +-300' if ck.quick else 'all n in 1..65535'))
        ck.cov['exhaustive'] = not fast

        ck.notes.append('model checking %.1fs' % (time.time() - tphase))
        tphase = time.time()
        # ---------------------------------------------------------------- 2./3. cases on the real code
        cm, ca = (600, 1200) if ck.quick else (10000, 10000)
        specs = []
        for n in SIZES_QUICK:
            styles = STYLES if n <= 9 else [STYLES[(SIZES_QUICK.index(n) + ck.seed) % len(STYLES)], 'near' if n <= 257 else 'num']
            for st in dict.fromkeys(styles):
                for mix in (('mixed', 'const') if n <= 9 else ('mixed',)):
                    specs.append(dict(n=n, style=st, mix=mix, seed=ck.seed))
        big = []
        if boundary:
            big += [boundary - 1, boundary]           # the entry counts TLC exhibited
        big += [27922, 27923]                         # regression: the guint16 boundary repaired by fix 838987b
        if not ck.quick:
            big += SIZES_THOROUGH
        for n in dict.fromkeys(big):
            specs.append(dict(n=n, style='num', mix='const', seed=ck.seed))
        if not ck.quick:
            specs.append(dict(n=20000, style='rand', mix='mixed', seed=ck.seed))
            specs.append(dict(n=(boundary or 27923) - 1, style='long', mix='mixed', seed=ck.seed))
        for sp in specs:
            if sp['n'] == 65535 and not ck.quick:
                R.generated_case(sp, 70000, 20000)      # every member of the largest directory
            else:
                R.generated_case(sp, cm, ca)
        for n in SIZES_QUICK + [20000, 33000, 65535] + ([boundary - 1, boundary] if boundary else []) + ([] if ck.quick else SIZES_THOROUGH):
            if n not in R.hash_sizes:
                R.hash_case(n, 'num')
        for n in ([300] if ck.quick else [300, 3000]):
            R.hash_case(n, 'long')
        for path in sorted(glob.glob(SYS_TYPELIBS)):
            R.system_case(path, 400 if ck.quick else 20000)
    else:
        if replay['kind'] == 'generated':
            R.generated_case(replay['spec'], 10 ** 6, 10 ** 6, only_probes=[tuple(x) for x in replay['probes']] if replay.get('probes') else None)
        else:
            R.system_case(replay['typelib'], 10 ** 6, only_probes=[tuple(x) for x in replay['probes']] if replay.get('probes') else None)

    ck.notes.append('real-code runs %.1fs (%d observations)' % (time.time() - tphase, len(R.obs)))
    tphase = time.time()
    # -------------------------------------------------------------------- 4. verdicts by TLC
    byid = {o['id']: o for o in R.obs}
    rejected, exercised = ck.tlc_verdict('DirIndexTrace', R.obs, chunk=40000, timeout=170)
    drift = {}
    for oid, clause, detail in rejected:
        cid, k, s = R.info.get(oid, ('?', '?', '?'))
        if clause.startswith('DRIFT'):
            drift.setdefault(clause, []).append(oid)
            continue
        case = R.cases.get(cid, {})
        rp = dict(case)
        if clause == 'IndexBuilt':
            sig = dict(clause=clause, n_class=detail)
            text = 'IndexBuilt: %s: no typelib for a namespace of %s entries: %s' % (cid, case.get('spec', {}).get('n'), s)
        else:
            o = byid[oid]
            sig = dict(clause=clause, kind=o['kind'], probe_class=detail, corpus=case.get('kind'),
                       style=case.get('spec', {}).get('style', '-'))
            rp['probes'] = [[k, s]]
            text = ('%s: %s probe %r of %s (n=%d, %s, expected %s): with index -> %d, linear -> %d, repository -> %d'
                    % (clause, o['kind'], s[:80], cid, o['n'], detail, o['expected'], o['fIdx'], o['fLin'], o['fRepo']))
        ck.violation(sig, text, rp)
    ck.notes.append('TLC verdict %.1fs' % (time.time() - tphase))
    for c, ids in drift.items():
        ck.notes.append('%s on %d records, e.g. %s: %s' % (c, len(ids), ids[0], R.info.get(ids[0], ('', '', ''))[2]))
    ck.cov['drift'] = {c: len(v) for c, v in drift.items()}
    if not replay:
        core = ['MemberFound', 'MemberFound_viaIndex', 'RightEntry', 'AbsentIsAbsent', 'LinearAgrees', 'GTypeNameFound',
                'ErrorDomainFound', 'RepoAgrees', 'IndexBuilt']
        empty = [c for c in core if not exercised.get(c)]
        if empty:
            raise MachineryError('clauses never exercised: %s' % empty)
        if not getattr(R, 'order_checked', 0):
            ck.notes.append('directory order could not be confirmed on any case')
    ck.cov['boundary_from_tlc'] = boundary
    ck.cov['real_packed_sizes'] = {str(k): v for k, v in sorted(R.hash_sizes.items())}
    ck.cov['rule'] = ('an evaluation = one probe of a real lookup function (3 typelib-level results + repository level) or one compiler run; '
                      'non-trivial = name sets with long or near-colliding names and the system typelibs')
    for o in R.obs[:1] + [x for x in R.obs if x['kind'] == 'name'][:2]:
        ck.sample(dict(o, probe=R.info.get(o['id'], ('', '', ''))[2][:60]))
    return ck.finish()


if __name__ == '__main__':
    main_wrapper(PID, run)

"""C15 -- whatever the scanner writes, the typelib compiler accepts.

1. TLC model-checks tla/AcceptMC.tla: the producer (GIRWriter as transcribed in tla/Accept.tla, fed with what the scanner's passes
   guarantee) against the consumer (girparser.c's state machine, introspectable_prelude, the start_* functions with the attributes
   they require and the defaults they apply, first-pass aliases, find_entry / accessor / invoker lookups of girnode.c), event by
   event, for six bounded families of documents; the observations the model yields are judged by the property layer
   tla/AcceptProp.tla.  The main configuration models the code as it is today (Code = Known = the recorded findings) and must
   pass; Accept_ideal.cfg (Code = {}) is the pair in which C15 holds without exception; every repaired deviation (Accept_w_<d>.cfg:
   switched back on) and every recorded finding (Accept_k_<d>.cfg: no longer tolerated) must FAIL (quick: a seed-rotating eighth of
   the 16, thorough: all).
2. Scanner outputs: the generators of the finished scanner-side checks are imported (harness/c15lib.py: random annotated callables of
   C01 and a directed attribute grid, un-annotated declarations of C02, the identifier-annotation namespaces and rename-to machine of
   C03, the node/uses graphs and cross-reference sweep of C05, GObject worlds of C12, every-node-kind namespaces of C07, enumerations
   and constants in C13's vocabulary), scanned by the REAL pipeline from REPO, plus tests/scanner/*-expected.gir whose includes can
   be satisfied (system typelibs -> REPO's g-ir-generate -> documented fix-up; gir/cairo-1.0.gir.in configured as meson does).
3. Every GIR is written next to its include GIRs and compiled by REPO's g-ir-compiler --includedir (rebuilt from the working tree
   every run); the typelib is decoded by harness/tlabs.py and re-validated with g_typelib_validate (harness/cdrv/drv_c15_validate.c).
   When the compiler objects, the failing part is isolated (delta debugging on the GIR), reported, taken out, and the rest is
   compiled again so that the remaining elements are still judged (derived documents are marked as such).
4. tla/AcceptTrace.tla judges every record: per document Accepted, Quiet, Validates, Identity; per GIR element Exposed, Absent,
   ShadowedServed and the flag clauses (direction, transfer, nullable/optional/caller-allocates, scope, closure/destroy, skip, throws,
   constructor/method, accessors, property / signal / field flags, deprecated, enumeration and constant values, parent / interfaces /
   prerequisites / type struct, registered type names).  Python renders, runs and projects; verdicts come from TLC only.

Development aids: C15_ONLY=fam1,fam2 (families: c01 c01grid c02 c03 c05 c12 c07 c13 expected), C15_SKIP_MC=1 (no model checking;
the evidence then says exhaustive=false), C15_UNITS=<n> (work units per family).
"""
import json, os, re, shutil, time
from concurrent.futures import ProcessPoolExecutor, ThreadPoolExecutor

from ..common import Check, MachineryError, main_wrapper, REPO, VERIF, NCPU, stable_hash
from ..cbuild import CBuild

PID = 'C15'
JVM = {'JAVA_TOOL_OPTIONS': '-Xss32m -XX:ParallelGCThreads=3'}

# deviations of tla/Accept.tla the code has today (recorded findings, ids C15-* in known_findings.json): how the real pair shows each
# (clause pattern, class pattern); Accept_k_<d>.cfg takes d out of Known and must fail
KNOWN_DEVIATIONS = {
    'hidden_target':       ('Accepted', r'Unknown (setter|getter|member function|property)|type reference'),
    'silent_index':        ('PropAccessors|VFuncInvoker|Accessor', r'target absent'),
    'shadower_hidden':     ('ShadowedServed', r''),
    'nested_same_kind':    ('Accepted', r'state_switch: assertion failed'),
    'field_kept':          ('Absent', r'/field$'),
    'member_kept':         ('Absent', r'/member$'),
    'inout_allow_none':    ('ParamOptional', r'inout nullable allow-none'),
    'inout_caller_allocates': ('ParamCallerAllocates', r'inout caller-allocates'),
    'field_readable':      ('FieldFlags', r'readable='),
    'when_must_collect':   ('SignalWhen', r'must-collect'),
}
# deviations repaired in /repo (fix: commits): Accept_w_<d>.cfg switches d back on and must fail
REPAIRED_DEVIATIONS = {'skipped_value': '5501abd', 'constant_type': 'e2183ca', 'callback_field': '541fd0b', 'alias_first_pass': '7e9f6e2',
                       'alias_attribute': '6f692f2', 'property_deprecated': '43698fe', 'skip_return': 'ca5fac5'}

# work units per family: (quick, thorough)
UNITS = dict(c01=(4, 20), c01grid=(4, 8), c02=(4, 16), c03=(3, 15), c05=(6, 40), c12=(4, 30), c07=(4, 25), c13=(2, 8))

_W = {}


def _init_worker(compiler, validator, workdir):
    _W.update(compiler=compiler, validator=validator, workdir=workdir)


def _unit(task):
    """one work unit in a worker process: generate (real scanner), compile, decode, project"""
    from .. import c15lib as L
    t = time.time()
    fam = task[0]
    out = dict(task=task, obs=[], notes=[], docs=[], error='')
    try:
        docs = L.generate(task)
    except Exception as e:                      # a generator that cannot run is a machinery failure, reported by the parent
        import traceback
        out['error'] = '%s: %s' % (type(e).__name__, traceback.format_exc()[-1500:])
        return out
    budget = [700]                  # compiler runs this unit may spend on delta debugging
    for d in docs:
        obs, notes = L.observe(d, _W['compiler'], os.path.join(_W['workdir'], 'w%d' % os.getpid()), [L.INC_SYNTH], _W['validator'],
                               max_rounds=12, max_runs=200, budget=budget)
        out['obs'] += obs
        out['notes'] += notes
        out['docs'].append((d['docid'], d['family'], len(d['gir'])))
    out['secs'] = round(time.time() - t, 1)
    return out


def _expected_unit(args):
    from .. import c15lib as L
    d, incdir = args
    obs, notes = L.observe(d, _W['compiler'], os.path.join(_W['workdir'], 'w%d' % os.getpid()), [incdir], _W['validator'], max_rounds=12, max_runs=300)
    return dict(task=('expected', 0, d['docid']), obs=obs, notes=notes, docs=[(d['docid'], 'expected', len(d['gir']))], error='', secs=0)


def regenerate(replay):
    """the document a replay file describes, produced by the CURRENT tree"""
    from .. import c15lib as L
    from .. import scan as S
    how = replay['how']
    if how == 'scan':
        gir = L.rescan(replay['spec'])
    elif how == 'world':
        from .. import gdumpgen as G
        r = G.run_world(S, replay['world'])
        if not r['xml']:
            raise MachineryError('replay: the scanner produced no GIR for the recorded world (%s)' % r.get('crashed'))
        gir = r['xml']
    elif how == 'file':
        gir = open(os.path.join(REPO, replay['file']), encoding='utf-8').read()
    else:
        raise MachineryError('replay: unknown kind %r' % how)
    ns, ver = replay.get('ns', 'Foo'), replay.get('version', '1.0')
    return dict(family=replay.get('family', 'replay'), docid=replay.get('docid', 'replay'), gir=gir, replay=replay, ns=ns, version=ver)


def find_replay(task_or_doc, docid):
    """re-generate the unit a rejected record came from and pick the document (only done for records TLC rejected)"""
    from .. import c15lib as L
    for d in L.generate(task_or_doc):
        if d['docid'] == docid:
            return d
    return None


def sig_of(clause, detail, kind, tag=''):
    """signature of a class of failing input (matched against known_findings.json): the clause; cls = for a document the compiler's
    message with names, numbers and paths masked (+ " @ " the place it points at), for an element container/tag (+ " # " sub-class);
    tag = the element's tag; sub = the sub-class alone"""
    cls, _, sub = detail.partition(' # ')
    return dict(clause=clause, cls=detail, kind=kind, tag=tag, sub=sub)


def run():
    ck = Check(PID, 'translation_validation')
    a = ck.args
    from .. import c15lib as L
    ck.assumptions += [
        'giscanner._giscanner (C lexer/parser) is replaced by symgen (harness/scan.py): declarations reach Transformer.parse() as the raw symbol/type '
        'objects scannerparser.y would build; runtime type data is an emulated gdump XML document; the generators are those of C01 C02 C03 C05 C07 C12 '
        '(imported) and the vocabulary of C13; every document is produced by the real Transformer / GDumpParser / MainTransformer / '
        'IntrospectablePass / GIRWriter of REPO',
        'dependencies of generated namespaces are the synthetic GLib/GObject/Gio GIRs of harness/data/gir, given to the scanner and (--includedir) to '
        'the compiler alike; dependencies of tests/scanner/*-expected.gir are produced from the system typelibs by REPO\'s g-ir-generate with the fix-up '
        'repository version 1.0 -> 1.2 and type name "any" -> "gpointer", and gir/cairo-1.0.gir.in configured as gir/meson.build does',
        'C side built from REPO against the GLib declaration shim (cshim/include), linked with the system GLib 2.74 runtime',
        'harness/tlabs.py is the trusted typelib decoder (written from gitypelib-internal.h, calibrated by C09)',
        'Quiet: a line of stderr/stdout containing error, warning, critical or assertion in any case (the compiler prints nothing else unless --verbose/--debug)',
        'an element is "left introspectable" when neither it nor its container carries introspectable="0"; an element carrying shadowed-by is dropped by the '
        'compiler by design: its name has to be served by the shadowing element (ShadowedServed); shadows="n" exposes under n; moved-to changes nothing',
        'silent: aliases (expanded), inline functions and function macros, doc sections, anonymous nested members, type names and c:type (C06), '
        'documentation, positions, attributes without a typelib field; allow-none="1" alone (without nullable/optional) is ambiguous and not judged; '
        'an integer constant whose literal does not fit the stated type is not judged; values are compared by the low 32 bits for enumeration members',
        'when the compiler rejects a document, the part objected to is isolated by delta debugging, reported, removed (with everything that refers '
        'to it) and the rest compiled again (<= 12 rounds): elements of such derived documents are judged like any other',
    ]
    replay = json.load(open(a.replay))['replay'] if a.replay else None
    only = set(filter(None, os.environ.get('C15_ONLY', '').split(',')))
    t0 = time.time()

    # ------------------------------------------------------------------ 1. model checking (in the background)
    mc = []
    pool = None
    if not replay and not os.environ.get('C15_SKIP_MC'):
        pool = ThreadPoolExecutor(3 if NCPU >= 12 else 2)
        W = max(2, NCPU // 2)
        mc.append((None, pool.submit(ck.tlc_mc, 'AcceptMC', 'Accept_quick.cfg' if ck.quick else 'Accept_full.cfg', workers=W, timeout=3000, coverage=False, env=JVM,
                                     label='consumer(producer(n)) |= AcceptProp modulo the recorded findings, for every node of the six families, code as it is today (%s)'
                                           % ('one dimension at a time against a base value' if ck.quick else 'whole cross products'))))
        if not ck.quick:
            mc.append((None, pool.submit(ck.tlc_mc, 'AcceptMC', 'Accept_ideal.cfg', workers=W, timeout=3000, coverage=False, env=JVM,
                                         label='the pair in which C15 holds without exception: Code = Known = {}')))
        wit = [('w', d) for d in sorted(REPAIRED_DEVIATIONS)] + [('k', d) for d in sorted(KNOWN_DEVIATIONS)]
        if ck.quick:
            wit = [x for k, x in enumerate(wit) if (k + ck.seed) % 8 == 0]
        for kind, d in wit:
            mc.append((d, pool.submit(ck.tlc_mc, 'AcceptMC', 'Accept_%s_%s.cfg' % (kind, d), workers=2, timeout=3000, coverage=False, expect_ok=False, env=JVM,
                                      label=('what-if (must fail): repaired deviation %s (%s) switched back on' % (d, REPAIRED_DEVIATIONS[d])) if kind == 'w' else
                                            ('must fail: recorded finding %s taken out of Known' % d))))
        ck.cov['exhaustive'] = True

    # ------------------------------------------------------------------ 2. the C side
    tb = time.time()
    cb = CBuild(os.path.join(ck.tmp, 'build')).build()
    validator = cb.driver(os.path.join(VERIF, 'harness', 'cdrv', 'drv_c15_validate.c'))
    ck.notes.append('C build %.1fs' % (time.time() - tb))
    work = os.path.join(ck.tmp, 'work')
    os.makedirs(work, exist_ok=True)
    incsys = os.path.join(ck.tmp, 'incsys')

    results = []
    if replay:
        _init_worker(cb.compiler, validator, work)
        doc = regenerate(replay)
        incdirs = [L.INC_SYNTH]
        if replay['how'] == 'file':
            L.make_system_includes(cb.generate, incsys)
            L.expected_girs(incsys, cb.compiler)
            incdirs = [incsys]
        obs, notes = L.observe(doc, cb.compiler, work, incdirs, validator, max_rounds=12, max_runs=300)
        results.append(dict(task=('replay', 0, 0), obs=obs, notes=notes, docs=[(doc['docid'], doc['family'], len(doc['gir']))], error=''))
    else:
        # ---------------------------------------------------------------- 3. scanner outputs
        tasks = []
        for fam, (q, t) in sorted(UNITS.items()):
            if only and fam not in only:
                continue
            n = int(os.environ.get('C15_UNITS', 0)) or (q if ck.quick else t)
            tasks += [(fam, ck.seed, k) for k in range(n)]
        # long units first
        weight = dict(c02=9, c05=6, c07=5, c03=5, c01grid=3, c01=3, c12=2, c13=1)
        tasks.sort(key=lambda t: -weight.get(t[0], 1))
        exp_docs, skipped = [], []
        if not only or 'expected' in only:
            inc = L.make_system_includes(cb.generate, incsys)
            missing = [n for n, p in inc.items() if not p]
            if missing:
                ck.notes.append('no include GIR could be produced for %s' % missing)
            exp_docs, skipped = L.expected_girs(incsys, cb.compiler)
            for f, why in skipped:
                ck.notes.append('skipped %s: %s' % (f, why))
            ck.cov['expected_girs'] = dict(compiled=[d['docid'] for d in exp_docs], skipped=[s[0] for s in skipped])
        with ProcessPoolExecutor(NCPU, initializer=_init_worker, initargs=(cb.compiler, validator, work)) as ex:
            futs = [ex.submit(_unit, t) for t in tasks] + [ex.submit(_expected_unit, (d, incsys)) for d in exp_docs]
            results = [f.result() for f in futs]
        for r in results:
            if r['error']:
                raise MachineryError('generator %s failed: %s' % (r['task'], r['error']))
    obs = [o for r in results for o in r['obs']]
    unit_of = {}
    for r in results:
        for docid, fam, size in r['docs']:
            unit_of[docid] = r['task']
        for n in r['notes']:
            ck.notes.append(n)
    ndocs = sum(len(r['docs']) for r in results)
    ck.count(sum(1 for o in obs if o['kind'] == 'doc'))
    ck.notes.append('scan + compile + decode %.1fs: %d scanner outputs, %d compiler runs judged, %d records' % (
        time.time() - tb, ndocs, sum(1 for o in obs if o['kind'] == 'doc'), len(obs)))
    if not obs:
        raise MachineryError('nothing to judge')

    # ------------------------------------------------------------------ 4. verdicts by TLC
    tv = time.time()
    from ..tlgir import parallel_verdict
    rejected, exercised = parallel_verdict(ck, 'AcceptTrace', obs, {}, nproc=NCPU, min_chunk=1200)
    ck.notes.append('TLC verdict %.1fs' % (time.time() - tv))
    byid = {o['id']: o for o in obs}
    # one violation per (clause, class); prefer a record that carries a reduced snippet / comes from a small document
    groups = {}
    for oid, clause, detail in rejected:
        groups.setdefault((clause, detail), []).append(oid)
    fam_of = {}
    for r in results:
        for docid, fam, size in r['docs']:
            fam_of[docid] = (fam, size)
    ck.cov['rejected_signatures'] = {'%s [%s]' % k: len(v) for k, v in sorted(groups.items())}
    for (clause, detail), oids in sorted(groups.items()):
        def rank(oid):
            o = byid[oid]
            docid = oid.split('|')[0]
            return (0 if (o['kind'] == 'doc' and o['b'].get('snippet')) else 1, 1 if o['g'].get('derived') else 0, fam_of.get(docid, ('', 0))[1])
        oid = sorted(oids, key=rank)[0]
        o = byid[oid]
        docid = oid.split('|')[0]
        sig = sig_of(clause, detail, o['kind'], o['g'].get('tag', '') if o['kind'] == 'elem' else '')
        fams = sorted({fam_of.get(x.split('|')[0], ('?', 0))[0] for x in oids})
        if o['kind'] == 'doc':
            text = ('%s: g-ir-compiler on %s%s: exit status %s; %s\n  (%d documents of families %s)\n  GIR it objects to:\n%s' % (
                clause, docid, ' (round %d: earlier culprits removed)' % o['g']['round'] if o['g'].get('derived') else '', o['b']['rc'],
                '; '.join(l['text'] for l in o['b']['flagged'][:3]) or 'no message', len(oids), ','.join(fams), o['b'].get('snippet') or '(not reduced)'))
        else:
            text = '%s [%s]: %s\n  (%d elements of families %s)\n  the GIR states: %s\n  the typelib has: %s' % (
                clause, detail, oid, len(oids), ','.join(fams), json.dumps(o['g'], sort_keys=True)[:900], json.dumps(o['b'], sort_keys=True)[:900])
        if any(f.get('status') == 'known' and all(sig.get(k) == v for k, v in f.get('match', {}).items()) for f in ck.findings):
            ck.violation(sig, text, {})           # a recorded finding: reported as KNOWN-FINDING, no replay file needed
            continue
        # self-contained replay: the concrete scanner input of the document
        rp = None
        if replay:
            rp = replay
        else:
            task = unit_of.get(docid)
            if task and task[0] == 'expected':
                rp = dict(how='file', file=[d for d in exp_docs if d['docid'] == docid][0]['replay']['file'])
                d0 = [d for d in exp_docs if d['docid'] == docid][0]
                rp.update(ns=d0['ns'], version=d0['version'])
            elif task:
                d0 = find_replay(task, docid)
                if d0 is not None:
                    rp = dict(d0['replay'], ns=d0['ns'], version=d0['version'])
        rp = dict(rp or {}, docid=docid, family=fam_of.get(docid, ('?', 0))[0], record=oid, clause=clause)
        ck.violation(sig, text, rp)
        ck.nontrivial(('viol', clause, detail))

    # ------------------------------------------------------------------ 5. model checking results, drift of modelled deviations
    for d, fut in mc:
        r = fut.result()
        if d and not r.get('violated'):
            raise MachineryError('what-if Accept_w_%s.cfg did not violate an invariant (deviation vacuous in the model?): %s' % (d, r.get('error')))
    if mc:
        ck.notes.append('model checking done %.1fs after start' % (time.time() - t0))
    seen = {}
    for (clause, detail) in groups:
        for d, (cl, pat) in KNOWN_DEVIATIONS.items():
            if re.search('^(%s)$' % cl, clause) and re.search(pat, detail):
                seen.setdefault(d, []).append('%s [%s]' % (clause, detail))
    ck.cov['deviations_observed_on_the_real_pair'] = {d: sorted(set(v))[:4] for d, v in sorted(seen.items())}
    if not replay and not only:
        for d in sorted(KNOWN_DEVIATIONS):
            if d not in seen:
                ck.notes.append('DRIFT: deviation %s of tla/Accept.tla (recorded finding) was not observed on the real pair in this run '
                                '(repaired, or not reached by the generators)' % d)

    # ------------------------------------------------------------------ 6. evidence
    fams = {}
    for r in results:
        for docid, fam, size in r['docs']:
            f = fams.setdefault(fam, dict(documents=0, bytes=0))
            f['documents'] += 1
            f['bytes'] += size
    for o in obs:
        if o['kind'] == 'doc' and not o['g'].get('derived'):
            f = fams.setdefault(o['g']['family'], dict(documents=0, bytes=0))
            f['accepted_as_written'] = f.get('accepted_as_written', 0) + (1 if (o['b']['rc'] == 0 and not o['b']['flagged']) else 0)
    ck.cov['families'] = fams
    for o in obs:
        if o['kind'] == 'elem':
            ck.nontrivial((o['g']['tag'], o['g']['ownerTag'], o['g']['marked0'], o['g']['anc0'], o['g']['shadows'] != '', o['g']['shadowedBy'] != '',
                           stable_hash(o['g']['fl'])))
    if not replay and not only:
        core = ['Accepted', 'Quiet', 'Validates', 'Exposed', 'Absent', 'ShadowedServed', 'Deprecated', 'Throws', 'CallableKind', 'Accessor', 'RetTransfer',
                'RetNullable', 'RetSkip', 'InstanceTransfer', 'ParamsInOrder', 'ParamDirection', 'ParamCallerAllocates', 'ParamTransfer', 'ParamNullable',
                'ParamOptional', 'ParamScope', 'ParamClosure', 'ParamDestroy', 'ParamSkip', 'SignalWhen', 'SignalFlags', 'VFuncInvoker', 'PropFlags',
                'PropAccessors', 'FieldFlags', 'MemberValue', 'EnumMembers', 'EnumErrorDomain', 'ConstValue', 'GTypeNames', 'ClassParent', 'ClassInterfaces',
                'IfacePrerequisites', 'TypeStruct', 'RecordFlags']
        empty = [c for c in core if not exercised.get(c)]
        if empty and not ck.violations and not ck.known_hits:
            raise MachineryError('clauses never exercised: %s' % empty)
        if empty:        # a tree on which (almost) nothing is accepted leaves nothing to judge element by element: the violations say so
            ck.notes.append('clauses never exercised in this run: %s' % empty)
    ck.cov['rule'] = ('an evaluation = one g-ir-compiler run on a scanner output or on what is left of one after the part objected to was removed; '
                      'a trace = one document record or one GIR element record judged by AcceptTrace; non-trivial = distinct '
                      '(element kind, container, marking, renames, stated flags) combinations; states = AcceptMC (one TLC state per XML event)')
    for o in [x for x in obs if x['kind'] == 'doc'][:1] + [x for x in obs if x['kind'] == 'elem' and x['g']['tag'] == 'method'][:1] + \
            [x for x in obs if x['kind'] == 'elem' and x['g']['tag'] == 'property'][:1]:
        ck.sample(dict(id=o['id'], g=json.dumps(o['g'])[:400], b=json.dumps(o['b'])[:400]))
    return ck.finish()


if __name__ == '__main__':
    main_wrapper(PID, run)

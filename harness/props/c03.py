"""C03 — identifier-level annotations and tags land on the right GIR element.

tla/Identify.tla: rename-to state machine (all walk orders x annotation assignments on 3 functions),
virtual-method documentation source; TLC checks the implementation-shaped layer against Mutual /
Honoured / VfuncOK.  TLC exports the rename cases; the harness renders them and generated
namespaces with every element kind and distinctive comment blocks, runs the REAL pipeline
(harness/scan.py), and TLC (IdentifyTrace.tla) judges every element: attributes(n) = F(block(key(n))).
"""
import json, os

from ..common import Check, MachineryError, main_wrapper

PID = 'C03'
DUMP = '''<?xml version="1.0"?><dump>
<class name="FooObj" get-type="foo_obj_get_type" parents="GObject">
  <property name="prop-a" type="gint" flags="3" default-value="0"/>
  <property name="prop-a-b" type="gint" flags="3" default-value="0"/>
  <property name="other-prop" type="gchararray" flags="1"/>
  <signal name="sig-a" return="void" when="last"><param type="gint"/></signal>
  <signal name="sig-a-b" return="void" when="first"></signal>
</class>
<class name="FooObjB" get-type="foo_obj_b_get_type" parents="GObject">
  <property name="prop-a" type="gint" flags="3" default-value="0"/>
  <signal name="sig-a" return="void" when="last"><param type="gint"/></signal>
</class></dump>'''


def build_namespace(S):
    """symbols + the list of elements [(kind, key, locator)] of the fixed test namespace"""
    fp = S.funcptr
    syms = [
        S.typedef_struct('FooObj', '_FooObj'), S.typedef_struct('FooObjClass', '_FooObjClass'),
        S.struct_def('_FooObj', [('GObject', 'parent_instance')]),
        S.struct_def('_FooObjClass', [('GObjectClass', 'parent_class'),
                                      S.member(fp('int', [('FooObj *', 'self'), ('int', 'x')]), 'do_thing'),
                                      S.member(fp('void', [('FooObj *', 'self')]), 'no_inv'),
                                      S.member(fp('void', [('FooObj *', 'self'), ('int', 'y')]), 'by_ann')]),
        S.function('foo_obj_get_type', 'GType', []),
        S.function('foo_obj_do_thing', 'int', [('FooObj *', 'self'), ('int', 'x')]),
        S.function('foo_obj_other', 'void', [('FooObj *', 'self'), ('int', 'v')]),
        S.function('foo_obj_other2', 'int', [('FooObj *', 'self')]),
        S.function('foo_obj_emit_sig_a', 'void', [('FooObj *', 'self'), ('int', 'x')]),
        S.function('foo_obj_call_by_ann', 'void', [('FooObj *', 'self'), ('int', 'y')]),
        # a second class with the SAME virtual-method, property and signal names
        S.typedef_struct('FooObjB', '_FooObjB'), S.typedef_struct('FooObjBClass', '_FooObjBClass'),
        S.struct_def('_FooObjB', [('GObject', 'parent_instance')]),
        S.struct_def('_FooObjBClass', [('GObjectClass', 'parent_class'),
                                       S.member(fp('int', [('FooObjB *', 'self'), ('int', 'x')]), 'do_thing'),
                                       S.member(fp('void', [('FooObjB *', 'self'), ('int', 'y')]), 'by_ann')]),
        S.function('foo_obj_b_get_type', 'GType', []),
        S.function('foo_obj_b_do_thing', 'int', [('FooObjB *', 'self'), ('int', 'x')]),
        S.function('foo_obj_b_call_by_ann', 'void', [('FooObjB *', 'self'), ('int', 'y')]),
        S.typedef_struct('FooRec', '_FooRec'), S.struct_def('_FooRec', [('int', 'x'), ('int', 'y'), ('int', 'x_y')]),
        S.typedef_struct('FooRecX', '_FooRecX'), S.struct_def('_FooRecX', [('int', 'x')]),
        S.function('foo_rec_do', 'void', [('FooRec *', 'self')]),
        S.function('foo_rec_copy', 'FooRec *', [('FooRec *', 'self')]),
        S.function('foo_rec_free', 'void', [('FooRec *', 'self')]),
        S.typedef_struct('FooUni', '_FooUni', union=True), S.struct_def('_FooUni', [('int', 'a'), ('double', 'b')], union=True),
        S.typedef_enum('FooEnum', [('FOO_ENUM_A', 0), ('FOO_ENUM_B', 1), ('FOO_ENUM_A_B', 2)]),
        S.typedef_enum('FooFlags', [('FOO_FLAGS_X', 1), ('FOO_FLAGS_Y', 2)], bitfield=True),
        S.const_int('FOO_CONST', 5), S.const_int('FOO_CONST2', 6), S.const_str('FOO_STR', 'str'),
        S.alias('FooAlias', 'gint'), S.alias('FooAliasX', 'gint'),
        S.callback('FooCb', 'void', [('int', 'x')]),
        S.function('foo_fn1', 'void', [('int', 'x')]), S.function('foo_fn10', 'void', [('int', 'x')]),
        S.function('foo_fn2', 'int', []),
    ]
    for k, s in enumerate(syms):
        s.line = k + 1
    # (kind, key, path in the GIR: list of (tag, attr, value))
    els = [
        ('class', 'FooObj', [('class', 'name', 'Obj')]),
        ('property', 'FooObj:prop-a', [('class', 'name', 'Obj'), ('property', 'name', 'prop-a')]),
        ('property', 'FooObj:prop-a-b', [('class', 'name', 'Obj'), ('property', 'name', 'prop-a-b')]),
        ('property', 'FooObj:other-prop', [('class', 'name', 'Obj'), ('property', 'name', 'other-prop')]),
        ('signal', 'FooObj::sig-a', [('class', 'name', 'Obj'), ('glib:signal', 'name', 'sig-a')]),
        ('signal', 'FooObj::sig-a-b', [('class', 'name', 'Obj'), ('glib:signal', 'name', 'sig-a-b')]),
        ('vfunc', 'FooObjClass::do_thing', [('class', 'name', 'Obj'), ('virtual-method', 'name', 'do_thing')]),
        ('vfunc', 'FooObjClass::no_inv', [('class', 'name', 'Obj'), ('virtual-method', 'name', 'no_inv')]),
        ('vfunc', 'FooObjClass::by_ann', [('class', 'name', 'Obj'), ('virtual-method', 'name', 'by_ann')]),
        ('method', 'foo_obj_do_thing', [('class', 'name', 'Obj'), ('method', 'c:identifier', 'foo_obj_do_thing')]),
        ('method', 'foo_obj_other', [('class', 'name', 'Obj'), ('method', 'c:identifier', 'foo_obj_other')]),
        ('method', 'foo_obj_other2', [('class', 'name', 'Obj'), ('method', 'c:identifier', 'foo_obj_other2')]),
        ('method', 'foo_obj_emit_sig_a', [('class', 'name', 'Obj'), ('method', 'c:identifier', 'foo_obj_emit_sig_a')]),
        ('method', 'foo_obj_call_by_ann', [('class', 'name', 'Obj'), ('method', 'c:identifier', 'foo_obj_call_by_ann')]),
        ('record', 'FooObjClass', [('record', 'name', 'ObjClass')]),
        ('class', 'FooObjB', [('class', 'name', 'ObjB')]),
        ('property', 'FooObjB:prop-a', [('class', 'name', 'ObjB'), ('property', 'name', 'prop-a')]),
        ('signal', 'FooObjB::sig-a', [('class', 'name', 'ObjB'), ('glib:signal', 'name', 'sig-a')]),
        ('vfunc', 'FooObjBClass::do_thing', [('class', 'name', 'ObjB'), ('virtual-method', 'name', 'do_thing')]),
        ('vfunc', 'FooObjBClass::by_ann', [('class', 'name', 'ObjB'), ('virtual-method', 'name', 'by_ann')]),
        ('method', 'foo_obj_b_do_thing', [('class', 'name', 'ObjB'), ('method', 'c:identifier', 'foo_obj_b_do_thing')]),
        ('method', 'foo_obj_b_call_by_ann', [('class', 'name', 'ObjB'), ('method', 'c:identifier', 'foo_obj_b_call_by_ann')]),
        ('record', 'FooRec', [('record', 'name', 'Rec')]),
        ('record', 'FooRecX', [('record', 'name', 'RecX')]),
        ('field', 'FooRec.x', [('record', 'name', 'Rec'), ('field', 'name', 'x')]),
        ('field', 'FooRec.y', [('record', 'name', 'Rec'), ('field', 'name', 'y')]),
        ('field', 'FooRec.x_y', [('record', 'name', 'Rec'), ('field', 'name', 'x_y')]),
        ('field', 'FooRecX.x', [('record', 'name', 'RecX'), ('field', 'name', 'x')]),
        ('method', 'foo_rec_do', [('record', 'name', 'Rec'), ('method', 'c:identifier', 'foo_rec_do')]),
        ('union', 'FooUni', [('union', 'name', 'Uni')]),
        ('field', 'FooUni.a', [('union', 'name', 'Uni'), ('field', 'name', 'a')]),
        ('enum', 'FooEnum', [('enumeration', 'name', 'Enum')]),
        ('member', 'FOO_ENUM_A', [('enumeration', 'name', 'Enum'), ('member', 'c:identifier', 'FOO_ENUM_A')]),
        ('member', 'FOO_ENUM_B', [('enumeration', 'name', 'Enum'), ('member', 'c:identifier', 'FOO_ENUM_B')]),
        ('member', 'FOO_ENUM_A_B', [('enumeration', 'name', 'Enum'), ('member', 'c:identifier', 'FOO_ENUM_A_B')]),
        ('enum', 'FooFlags', [('bitfield', 'name', 'Flags')]),
        ('member', 'FOO_FLAGS_X', [('bitfield', 'name', 'Flags'), ('member', 'c:identifier', 'FOO_FLAGS_X')]),
        ('constant', 'FOO_CONST', [('constant', 'c:type', 'FOO_CONST')]),
        ('constant', 'FOO_CONST2', [('constant', 'c:type', 'FOO_CONST2')]),
        ('constant', 'FOO_STR', [('constant', 'c:type', 'FOO_STR')]),
        ('alias', 'FooAlias', [('alias', 'name', 'Alias')]),
        ('alias', 'FooAliasX', [('alias', 'name', 'AliasX')]),
        ('callback', 'FooCb', [('callback', 'name', 'Cb')]),
        ('function', 'foo_fn1', [('function', 'c:identifier', 'foo_fn1')]),
        ('function', 'foo_fn10', [('function', 'c:identifier', 'foo_fn10')]),
        ('function', 'foo_fn2', [('function', 'c:identifier', 'foo_fn2')]),
    ]
    return syms, els


# target annotations per element kind: (annotation text, GIR attribute, value)
TARGETS = {
    'function': [('(finish-func foo_fn2)', 'glib:finish-func', 'foo_fn2'), ('(sync-func foo_fn2)', 'glib:sync-func', 'foo_fn2'),
                 ('(async-func foo_fn10)', 'glib:async-func', 'foo_fn10')],
    'method': [],
    'property': [('(setter other)', 'setter', 'other'), ('(getter other2)', 'getter', 'other2'), ('(default-value 55)', 'default-value', '55')],
    'signal': [('(emitter emit_sig_a)', 'emitter', 'emit_sig_a')],
    'record': [('(copy-func foo_rec_copy)', 'copy-function', 'foo_rec_copy'), ('(free-func foo_rec_free)', 'free-function', 'foo_rec_free'),
               ('(foreign)', 'foreign', '1')],
    'union': [('(copy-func foo_rec_copy)', 'copy-function', 'foo_rec_copy')],
    'constant': [('(value 4242)', 'value', '4242')],
}
TARGET_ATTRS = sorted({a for v in TARGETS.values() for _, a, _ in v} | {'glib:set-property', 'glib:get-property'})
KEYS_EXTRA = ['FooObj:nonexistent', 'foo_missing', 'FooObj::nosig', 'FooRec.nofield', 'FooObjClass::nothing', 'FooNothing',
              'FooObj.prop-a', 'FooRec:x']     # blocks that document nothing: must not leak anywhere


def make_block(key, kind, pid, rng, full=False):
    def pick(p):
        return full or rng.random() < p
    b = dict(key=key, doc='', since='', depver='', deptext='', stab='', attrs=[], skip=False, targets=[])
    anns = []
    if pick(0.6):
        b['attrs'] = [dict(k='k%d' % pid, v='v%d' % pid)]
        anns.append('(attributes k%d=v%d)' % (pid, pid))
    if (not full) and rng.random() < 0.15:
        b['skip'] = True
        anns.append('(skip)')
    for text, attr, val in TARGETS.get(kind, []):
        if key in ('FooObj:prop-a-b', 'FooObj:other-prop', 'FooObjB:prop-a') or (kind == 'signal' and key != 'FooObj::sig-a') \
                or (kind == 'record' and key != 'FooRec') \
                or (kind == 'constant' and key == 'FOO_STR'):
            continue
        if pick(0.5):
            b['targets'].append(dict(attr=attr, value=val))
            anns.append(text)
    lines = ['/**', ' * %s:%s' % (key, (' ' + ' '.join(anns)) if anns else '')]
    if pick(0.8):
        b['doc'] = 'doc%d of %s' % (pid, key)
        lines += [' *', ' * ' + b['doc']]
    lines.append(' *')
    if pick(0.6):
        b['since'] = '%d.0' % pid
        lines.append(' * Since: ' + b['since'])
    if pick(0.5):
        b['depver'] = '%d.1' % pid
        b['deptext'] = 'dep%d' % pid
        lines.append(' * Deprecated: %s: %s' % (b['depver'], b['deptext']))
    if pick(0.4):
        b['stab'] = rng.choice(['Stable', 'Unstable', 'Private'])
        lines.append(' * Stability: ' + b['stab'])
    lines.append(' */')
    return b, '\n'.join(lines)


def locate(S, ns, path):
    node = ns
    for tag, attr, val in path:
        nxt = None
        for c in node['children']:
            if c['tag'] == tag and c['attrs'].get(attr) == val:
                nxt = c
                break
        if nxt is None:
            return None
        node = nxt
    return node


def project(S, node):
    a = node['attrs']
    doc = S.child(node, 'doc')
    dd = S.child(node, 'doc-deprecated')
    out = dict(doc=doc['text'] if doc else '', version=a.get('version', ''), deprecated=a.get('deprecated') == '1',
               depver=a.get('deprecated-version', ''), deptext=dd['text'] if dd else '', stability=a.get('stability', ''),
               attrs=[dict(k=c['attrs'].get('name', ''), v=c['attrs'].get('value', '')) for c in S.children(node, 'attribute')],
               intro0=a.get('introspectable') == '0', targets=[])
    for t in TARGET_ATTRS:
        if t in a and not (t == 'value' and node['tag'] != 'constant'):
            out['targets'].append(dict(attr=t, value=a[t]))
    return out


EMPTY_OUT = dict(doc='', version='', deprecated=False, depver='', deptext='', stability='', attrs=[], intro0=False, targets=[])


def run():
    ck = Check(PID, 'model_checking')
    from .. import scan as S
    ck.assumptions += ['symgen conventions of harness/scan.py; runtime type data supplied as a gdump XML document (class FooObj with '
                       'properties/signals)', 'one fixed namespace shape with prefix-related names; blocks carry unique payloads so a leak is visible',
                       'accessor/async pairing attributes (setter/getter/set-property/get-property/finish/sync/async) may also be inferred by '
                       'heuristics, so NoForeignTargets is only evaluated for emitter/default-value/copy/free/foreign/value']
    replay = json.load(open(ck.args.replay))['replay'] if ck.args.replay else None
    obs, meta = [], {}
    RN = dict(fns=[], ren=[], outs=[], warned=[])
    NN = dict(nkind='-', key='-', invKey='-', blocks=[], out=EMPTY_OUT)

    if not replay:
        ck.tlc_mc('IdentifyMC', 'Identify_fixed.cfg', workers=4, timeout=300,
                  label='rename-to machine: 6 walk orders x 5^3 annotation assignments; vfunc doc source: 8 fact combinations')
        ck.cov['exhaustive'] = True
        cf = os.path.join(ck.tmp, 'cases.json')
        ck._tlc('IdentifyCases.tla', 'IdentifyCases.cfg', [], dict(CASES_FILE=cf), 300, 1)
        if not os.path.exists(cf):
            raise MachineryError('no rename cases exported')
        rcases = json.load(open(cf))
    else:
        rcases = [replay['case']] if replay.get('kind') == 'rename' else []

    # ------------------------------------------------------------ rename-to cases, packed
    CH = 250
    for base in range(0, len(rcases), CH):
        chunk = rcases[base:base + CH]
        syms, comments = [], []
        line = 1
        for k, c in enumerate(chunk):
            n = base + k
            for f in c['order']:
                syms.append(S.function('foo_r%d_%s' % (n, f), 'void', [], line=line))
                line += 1
            for f, t in sorted(c['ann'].items()):
                if t == '-':
                    continue
                tgt = 'foo_r%d_%s' % (n, t) if t != 'missing' else 'foo_r%d_nowhere' % n
                comments.append(('/**\n * foo_r%d_%s: (rename-to %s)\n */' % (n, f, tgt), '/src/foo.c', line))
                line += 5
        r = S.scan(syms, comments, deps=())
        ns = S.namespace_of(S.girabs(r.xml))
        fx = {c['attrs'].get('c:identifier'): c for c in ns['children'] if c['tag'] == 'function'}
        for k, c in enumerate(chunk):
            n = base + k
            names = ['foo_r%d_%s' % (n, f) for f in c['order']]
            outs = []
            for s_ in names:
                e = fx.get(s_)
                if e is not None:
                    outs.append(dict(f=s_, name=e['attrs'].get('name', ''), shadows=e['attrs'].get('shadows', '-'),
                                     shadowedBy=e['attrs'].get('shadowed-by', '-')))
            ren = [dict(f='foo_r%d_%s' % (n, f), t=('foo_r%d_%s' % (n, t) if t != 'missing' else 'foo_r%d_nowhere' % n))
                   for f, t in sorted(c['ann'].items()) if t != '-']
            lines_of = {s_.line: s_.ident for s_ in syms}
            warned = sorted({lines_of[rec['line']] for rec in r.log
                             if rec['line'] in lines_of and lines_of[rec['line']] in names
                             and ('shadow' in rec['text'].lower() or "Can't find symbol" in rec['text'])})
            oid = 'rename-%d' % n
            o = dict(id=oid, kind='rename', fns=names, ren=ren, outs=outs, warned=warned)
            o.update(NN)
            obs.append(o)
            meta[oid] = dict(kind='rename', case=c)
            ck.count()
            ck.nontrivial(('r', json.dumps(c, sort_keys=True)))

    # ------------------------------------------------------------ association cases
    nns = 0 if (replay and replay.get('kind') == 'rename') else (120 if ck.quick else 1500)
    syms, els = build_namespace(S)
    rng = ck.rng
    for n in range(nns):
        if replay:
            chosen = replay['chosen']
            full = replay['full']
            rng.seed(replay['rngseed'])
        else:
            full = (n % 10 == 0)
            chosen = [e[1] for e in els if (full or rng.random() < 0.5)]
            chosen += [k for k in KEYS_EXTRA if rng.random() < 0.5]
            rseed = rng.getrandbits(32)
            rng.seed(rseed)
        kinds = {e[1]: e[0] for e in els}
        blocks, comments = [], []
        line = 10
        order = list(chosen)
        rng.shuffle(order)
        virtual_ann = rng.random() < 0.7
        for pid, key in enumerate(order, 1):
            b, text = make_block(key, kinds.get(key, 'none'), pid + 100 * (n % 50), rng, full=full)
            if kinds.get(key) == 'enum':
                # the enumeration's block also describes, inline, the members that have a block of their OWN in
                # this case (@FOO_ENUM_B: text): the member's own block still is the one that documents it
                mine = [m for m in order if kinds.get(m) == 'member' and m.startswith('FOO_ENUM_' if key == 'FooEnum' else 'FOO_FLAGS_')]
                if mine:
                    inline = ''.join(' * @%s: inline text of %s in the block of %s\n' % (m, m, key) for m in mine)
                    tl = text.split('\n')                         # ['/**', ' * key: anns', ...]: after the identifier line
                    text = '\n'.join(tl[:2] + inline.rstrip('\n').split('\n') + tl[2:])
            if key in ('foo_obj_call_by_ann', 'foo_obj_b_call_by_ann') and virtual_ann:
                text = text.replace(' * %s:' % key, ' * %s: (virtual by_ann)' % key, 1)
            blocks.append(b)
            comments.append((text, '/src/foo.c', line))
            line += 20
        for meth in ('foo_obj_call_by_ann', 'foo_obj_b_call_by_ann'):
            if virtual_ann and meth not in chosen:
                line += 20
                comments.append(('/**\n * %s: (virtual by_ann)\n */' % meth, '/src/foo.c', line))
                blocks.append(dict(key=meth, doc='', since='', depver='', deptext='', stab='', attrs=[], skip=False, targets=[]))
        r = S.scan(syms, comments, dump_xml=DUMP)
        ns = S.namespace_of(S.girabs(r.xml))
        for kind, key, path in els:
            node = locate(S, ns, path)
            if node is None:
                continue           # e.g. skipped parents are still emitted; absent elements are C04's business
            inv = '-'
            if kind == 'vfunc' and node['attrs'].get('invoker'):
                inv = ('foo_obj_b_' if key.startswith('FooObjB') else 'foo_obj_') + node['attrs']['invoker']
            oid = 'node-%d-%s' % (n, key)
            o = dict(id=oid, kind='node', nkind=kind, key=key, invKey=inv, blocks=blocks, out=project(S, node))
            o.update(RN)
            obs.append(o)
            meta[oid] = dict(kind='node', chosen=chosen, full=full, rngseed=rseed if not replay else replay['rngseed'],
                             element=key, observed=o['out'])
            ck.count()
            ck.nontrivial(('n', kind, key, json.dumps(blocks[[b['key'] for b in blocks].index(key)], sort_keys=True) if key in chosen else ''))
        if replay:
            break

    rejected, _ = ck.tlc_verdict('IdentifyTrace', obs, chunk=3000)
    for oid, clause, detail in rejected:
        m = meta[oid]
        ck.violation(dict(clause=clause, detail=detail), '%s: %s rejected (%s): %s' % (oid, clause, detail, json.dumps(m)[:600]), m)
    ck.cov['rule'] = ('rename cases exported by TLC (all 750) + generated namespaces (39 elements of 12 kinds, random subsets of blocks with '
                      'unique payloads, blocks for nonexistent identifiers); distinct = distinct (element, block payload) pairs')
    for o in obs[:1] + obs[-1:]:
        ck.sample({k: o[k] for k in ('id', 'kind', 'fns', 'ren', 'outs', 'warned', 'nkind', 'key', 'invKey', 'out')})
    return ck.finish()


if __name__ == '__main__':
    main_wrapper(PID, run)

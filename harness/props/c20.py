"""C20 -- the XML writer always produces well-formed, lossless XML (giscanner/xmlwriter.py).

tla/XmlWriter.tla: (1) xml.sax.saxutils.escape/quoteattr and an XML 1.0 parser's view of text and
attribute values over a character-class alphabet, (2) collect_attributes/_calc_attrs_length,
(3) XMLWriter as an operation-sequence state machine (tag stack, live with-blocks, emitted tokens
`out`, described document `doc`), (4) the property layer.  TLC checks implementation layer =>
property layer exhaustively (XmlWriterMC + XmlWriter_*.cfg).

Binding to the real code:
 * TLC (XmlWriterCases, -dump) enumerates every operation sequence of the model of length <= 5 (6)
   that ends in a whole document, and every class string of length <= 2 (3 over the reduced
   alphabet); a seeded generator emits longer / deeper sequences in the same schema (depth <= 20,
   <= 50 attributes, values <= 200 characters, wrapping at many indent depths);
 * this file renders class strings to code points (U+0085, U+2028, combining marks, astral planes,
   quotes, <, >, &, TAB/LF/CR ...), executes the operations on the REAL XMLWriter (real `with
   writer.tagcontext(...)` blocks, exceptions raised inside them), feeds get_xml() after every
   operation to an independent parser (expat, no namespace processing) and projects the parser's
   events to JSON;
 * TLC (XmlWriterTrace) replays every sequence through XmlWriter!Do and judges: open elements after
   every operation (also after exceptions), well-formed + UTF-8, element structure, attribute names
   in order, exact attribute values, None-valued attributes omitted, exact leaf text, write_line
   text, wrapped tags have unchanged content.  Python never decides.  The model's own predictions (wrap
   decision, comments) only produce DRIFT notes.

Development aid (mutation exercise): C20_DEV_FAST=1 skips the model-checking runs (binding part only).
Concurrency follows common.NCPU (VERIF_NCPU): >= 12 CPUs -> TLC runs side by side, else one at a time.
"""
import json, os, re, time
from concurrent.futures import ThreadPoolExecutor
import xml.parsers.expat as expat

from ..common import Check, MachineryError, main_wrapper, NCPU, stable_hash

PID = 'C20'
# many small JVMs run side by side: keep each one's GC / JIT thread pools small; deep (not recursive) evaluation
JVM = {'JAVA_TOOL_OPTIONS': '-XX:ParallelGCThreads=2 -Xss16m'}

# ------------------------------------------------------------------------------------------------
# rendering class strings to code points
NA_POOL = [0x85, 0x2028, 0x2029, 0xE9, 0x301, 0x1F600, 0x10FFFF, 0xFFFD, 0xD7FF, 0xE000, 0xA0, 0x80,
           0x4E2D, 0xFEFF, 0x10000, 0x20AC, 0x0300, 0x1F1E9, 0x200D, 0xFFFC]
PLAIN_POOL = [ord(c) for c in 'abcxyzAZ059_-.:/#%=()[{}!?*+,|~^`@$\\']
FIXED = dict(sp=[32], lt=[60], gt=[62], amp=[38], dq=[34], sq=[39], lf=[10], tab=[9], cr=[13], semi=[59], rb=[93],
             w_amp=[ord(c) for c in 'amp'], w_lt=[ord(c) for c in 'lt'], w_gt=[ord(c) for c in 'gt'],
             w_quot=[ord(c) for c in 'quot'], w_apos=[ord(c) for c in 'apos'],
             w_10=[ord(c) for c in '#10'], w_13=[ord(c) for c in '#13'], w_9=[ord(c) for c in '#9'])
NAME_START = [ord(c) for c in 'abcdefgxyzABCXYZ_:'] + [0xE9, 0xFC, 0x3B1, 0x436, 0x4E2D]
NAME_CHAR = NAME_START + [ord(c) for c in '0129-.'] + [0xB7]


def render(cls, rng, na_rot=None):
    out = []
    for k, c in enumerate(cls):
        if c == 'p':
            out.append(rng.choice(PLAIN_POOL))
        elif c == 'na':
            out.append(NA_POOL[(na_rot + k) % len(NA_POOL)] if na_rot is not None else rng.choice(NA_POOL))
        else:
            out += FIXED[c]
    return out


def no_double_hyphen(cps):
    out = []
    for c in cps:
        out.append(120 if (c == 45 and out and out[-1] == 45) else c)
    return out


def cps(s):
    return [ord(c) for c in s]


def txt(c):
    return ''.join(map(chr, c))


def mkop(k, name=(), attrs=(), has=False, text=(), esc=False, n=0):
    return dict(k=k, name=list(name), attrs=[dict(a) for a in attrs], has=bool(has), text=list(text), esc=bool(esc), n=int(n))


def A(n, v):
    return dict(n=list(n), has=v is not None, v=list(v) if v is not None else [])


# ------------------------------------------------------------------------------------------------
# the independent parser
class Parse:
    """expat, namespace processing off.  Collects start/end/comment events; character data goes to the
    `after` of the preceding event."""

    def __init__(self):
        self.events = []      # structural events
        self.log = []         # (byte index, event or None) for every callback, in order
        self.err = '-'
        self.enc = '-'
        p = self.p = expat.ParserCreate()
        p.ordered_attributes = True
        p.buffer_text = False
        p.StartElementHandler = self._start
        p.EndElementHandler = self._end
        p.CommentHandler = self._comment
        p.CharacterDataHandler = self._chars
        p.XmlDeclHandler = self._decl

    def _ev(self, k, name='', attrs=(), text=''):
        e = dict(k=k, name=cps(name), attrs=[dict(n=cps(attrs[i]), v=cps(attrs[i + 1])) for i in range(0, len(attrs), 2)],
                 text=cps(text), after=[], nl=False)
        self.events.append(e)
        self.log.append((self.p.CurrentByteIndex, e))

    def _start(self, name, attrs):
        self._ev('start', name, attrs)

    def _end(self, name):
        self._ev('end', name)

    def _comment(self, text):
        self._ev('comment', text=text)

    def _chars(self, data):
        self.log.append((self.p.CurrentByteIndex, None))
        if self.events:
            self.events[-1]['after'] += cps(data)

    def _decl(self, version, encoding, standalone):
        self.enc = encoding if encoding is not None else '-'

    def feed(self, data, final=False):
        if self.err != '-':
            return
        try:
            self.p.Parse(data, final)
        except expat.ExpatError as e:
            self.err = expat.ErrorString(e.code)

    def mark_wrapped(self, whole):
        """nl of a start event: the raw start tag (bytes from its '<' to the next thing the parser reported)
        contains a line break"""
        for j, (idx, e) in enumerate(self.log):
            if e is not None and e['k'] == 'start':
                nxt = len(whole)
                for idx2, _ in self.log[j + 1:]:
                    if idx2 > idx:
                        nxt = idx2
                        break
                e['nl'] = b'\n' in whole[idx:nxt]


class Injected(Exception):
    pass


def execute(XMLWriter, ops, ws=True):
    """run the operations on a real XMLWriter; returns the observation part of a trace record"""
    w = XMLWriter()
    if not ws:
        w.disable_whitespace()
    st = dict(inc=Parse(), fed='', pos=0, depth=0, errat=0)
    cut = []

    def observe():
        x = w.get_xml()
        if not x.startswith(st['fed']) and not st['errat']:
            st['errat'] = len(cut) + 1       # the writer rewrote what it had returned before: no incremental view any more
        if not st['errat']:
            st['inc'].feed(x[len(st['fed']):].encode('utf-8'))
            st['fed'] = x
        cut.append(len(st['inc'].events))
        if st['inc'].err != '-' and not st['errat']:
            st['errat'] = len(cut)

    def attrs_of(op):
        return [(txt(a['n']), txt(a['v']) if a['has'] else None) for a in op['attrs']]

    def block():
        while st['pos'] < len(ops):
            i = st['pos']
            op = ops[i]
            st['pos'] += 1
            k = op['k']
            if k == 'push':
                w.push_tag(txt(op['name']), attrs_of(op))
            elif k == 'pop':
                w.pop_tag()
            elif k == 'tag':
                w.write_tag(txt(op['name']), attrs_of(op), txt(op['text']) if op['has'] else None)
            elif k == 'comment':
                w.write_comment(txt(op['text']))
            elif k == 'line':
                w.write_line(txt(op['text']), do_escape=op['esc'])
            elif k == 'enter':
                st['depth'] += 1
                try:
                    with w.tagcontext(txt(op['name']), attrs_of(op)):
                        observe()
                        if block() != 'exit':
                            raise MachineryError('generator: sequence ends inside a with-block')
                except Injected as e:
                    st['depth'] -= 1
                    e.n -= 1
                    if e.n > 0:
                        raise
                    observe()                 # right after the exception left its n-th with-block
                else:
                    st['depth'] -= 1
                    observe()                 # right after the with-block was left normally
                continue
            elif k == 'exit':
                if st['depth'] == 0:
                    raise MachineryError('generator: exit outside a with-block')
                return 'exit'
            elif k == 'raise':
                if st['depth'] < op['n'] or op['n'] < 1:
                    raise MachineryError('generator: raise(%d) inside %d with-blocks' % (op['n'], st['depth']))
                e = Injected()
                e.n = op['n']
                raise e
            else:
                raise MachineryError('unknown operation %r' % k)
            observe()
        return 'end'

    crash = '-'
    try:
        block()
    except MachineryError:
        raise
    except Injected:
        raise MachineryError('generator: exception escaped all with-blocks')
    except Exception as e:      # the writer itself failed on operations the property quantifies over
        crash = type(e).__name__
        st['errat'] = st['errat'] or len(cut) + 1      # nothing was executed from here on: step clauses silent, Returns reports
    while len(cut) < len(ops):
        cut.append(cut[-1] if cut else 0)
    # the document: get_encoded_xml() bytes through a fresh parser
    try:
        text = w.get_xml()
        data = w.get_encoded_xml()
    except Exception as e:
        crash = crash if crash != '-' else type(e).__name__
        text, data = '', b''
    try:
        utf8 = data.decode('utf-8', 'strict') == text
    except UnicodeDecodeError:
        utf8 = False
    fin = Parse()
    fin.feed(data, True)
    fin.mark_wrapped(data)
    inc = [dict(k=e['k'], name=e['name']) for e in st['inc'].events]
    return dict(wf=fin.err == '-', err=fin.err, utf8=utf8, enc=fin.enc, crash=crash, evs=fin.events, inc=inc, cut=cut,
                errat=st['errat']), text


# ------------------------------------------------------------------------------------------------
# case construction
def render_op(op, rng):
    """operation of the TLC op table (payloads are class strings) -> concrete operation"""
    attrs = [dict(n=a['n'], has=a['has'], v=render(a['v'], rng)) for a in op['attrs']]
    text = render(op['text'], rng)
    if op['k'] == 'comment':
        text = no_double_hyphen(text)
    return mkop(op['k'], op['name'], attrs, op['has'], text, op['esc'], op['n'])


def esc_case(cls, idx, rng):
    """one class string in every position the writer treats differently: attribute of an open tag, of a
    leaf with/without data, inside a long attribute list that wraps, leaf text, write_line text -- at depth d"""
    s = render(cls, rng, na_rot=idx)
    d = (0, 1, 3, 0, 2, 7, 1, 12)[idx % 8]
    pad = cps('p' * 40)
    ops = [mkop('push', cps('r'), [A(cps('v'), s)])]
    for i in range(d):
        ops.append(mkop('push', cps('e%d' % i), [A(cps('q'), s), A(cps('none'), None)] if i == d - 1 else []))
    ops.append(mkop('tag', cps('leaf'), [A(cps('a'), s), A(cps('b'), None), A(cps('c:c'), s + s)], True, s))
    ops.append(mkop('tag', cps('m'), [A(cps('k1'), pad), A(cps('k2'), s), A(cps('k3'), None), A(cps('k4'), s),
                                      A(cps('k5'), pad[:30]), A(cps('k6'), s + [32] + s)]))
    ops.append(mkop('enter', cps('w'), [A(cps('x'), s), A(cps('y'), pad), A(cps('z'), pad)]))
    if 'cr' in cls or not cls:
        ops.append(mkop('line', text=cps('t'), esc=True))
    else:
        ops.append(mkop('line', text=s, esc=True))
    ops.append(mkop('exit'))
    ops += [mkop('pop') for _ in range(d + 1)]
    return dict(kind='esc', ops=ops, cls=list(cls), s=s, ws=True)


CLASS_WEIGHTS = [('p', 30), ('sp', 6), ('lt', 3), ('gt', 3), ('amp', 4), ('dq', 4), ('sq', 4), ('lf', 3), ('tab', 3),
                 ('cr', 2), ('na', 8), ('semi', 2), ('rb', 2), ('w_amp', 1), ('w_lt', 1), ('w_quot', 1), ('w_10', 1),
                 ('w_13', 1), ('w_9', 1), ('w_apos', 1), ('w_gt', 1)]
CLASSES = [c for c, w in CLASS_WEIGHTS for _ in range(w)]


def rand_class_string(rng, maxlen, forbid=()):
    r = rng.random()
    n = 0 if r < 0.08 else rng.randint(1, 6) if r < 0.6 else rng.randint(1, maxlen)
    if rng.random() < 0.25:      # plain-heavy (long values that wrap)
        return [rng.choice(['p', 'p', 'p', 'p', 'sp', 'na']) for _ in range(n)]
    out = []
    while len(out) < n:
        c = rng.choice(CLASSES)
        if c not in forbid:
            out.append(c)
    return out


def rand_name(rng):
    n = rng.choice([1, 1, 2, 3, 4, 6, 9, 14])
    return [rng.choice(NAME_START)] + [rng.choice(NAME_CHAR) for _ in range(n - 1)]


def rand_attrs(rng, maxattrs, maxval):
    r = rng.random()
    n = 0 if r < 0.2 else rng.randint(1, 4) if r < 0.8 else rng.randint(1, maxattrs)
    names, attrs = set(), []
    while len(attrs) < n:
        nm = rand_name(rng)
        if tuple(nm) in names:
            nm = nm + cps(str(len(attrs)))
            if tuple(nm) in names:
                continue
        names.add(tuple(nm))
        if rng.random() < 0.15:
            attrs.append(A(nm, None))
        else:
            attrs.append(A(nm, render(rand_class_string(rng, maxval), rng)))
    return attrs


def rand_text(rng, maxlen, allow_cr):
    return render(rand_class_string(rng, maxlen, forbid=() if allow_cr else ('cr',)), rng)


def random_case(rng, maxops, maxdepth, maxattrs, maxval):
    """seeded generator of enabled operation sequences (the precondition side of XmlWriter!Enabled:
    one document element, pop_tag only for push_tag'ed elements, with-blocks left only when their own
    element is innermost, text only inside the document element)"""
    ops, stack, root = [], [], 0
    allow_cr = rng.random() < 0.08
    nops = rng.randint(1, maxops)
    deep = rng.random() < 0.3
    while True:
        closing = len(ops) >= nops
        if root == 2 and not stack:
            if not closing and rng.random() < 0.3:
                ops.append(mkop('comment', text=no_double_hyphen(rand_text(rng, 30, True))))
                continue
            break
        if closing and not stack and root == 0:
            ops.append(mkop('tag', rand_name(rng), rand_attrs(rng, maxattrs, maxval), rng.random() < 0.5, rand_text(rng, maxval, allow_cr)))
            root = 2
            continue
        nctx_top = 0
        while nctx_top < len(stack) and stack[-1 - nctx_top] == 'c':
            nctx_top += 1
        choices = []
        if not closing:
            choices += ['comment']
            if stack or root == 0:
                if len(stack) < maxdepth:
                    choices += ['push', 'enter'] * (4 if deep else 1)
                choices += ['tag', 'tag']
            if stack:
                choices += ['line', 'line']
        if stack:
            if stack[-1] == 'p':
                choices += ['pop'] * (1 if deep and not closing else 2)
            else:
                choices += ['exit'] * (1 if deep and not closing else 2) + ['raise']
        k = rng.choice(choices)
        if k in ('push', 'enter'):
            ops.append(mkop(k, rand_name(rng), rand_attrs(rng, maxattrs, maxval)))
            stack.append('p' if k == 'push' else 'c')
            root = 1
        elif k == 'tag':
            has = rng.random() < 0.6
            ops.append(mkop('tag', rand_name(rng), rand_attrs(rng, maxattrs, maxval), has,
                            rand_text(rng, maxval, allow_cr) if has else []))
            if not stack:
                root = 2
        elif k == 'comment':
            ops.append(mkop('comment', text=no_double_hyphen(rand_text(rng, 40, True))))
        elif k == 'line':
            esc = rng.random() < 0.8
            t = rand_text(rng, maxval, allow_cr) if esc else \
                render(rand_class_string(rng, 40, forbid=('lt', 'gt', 'amp', 'cr')), rng)
            ops.append(mkop('line', text=t, esc=esc))
        elif k == 'pop':
            ops.append(mkop('pop'))
            stack.pop()
            root = 2 if not stack else root
        elif k == 'exit':
            ops.append(mkop('exit'))
            stack.pop()
            root = 2 if not stack else root
        elif k == 'raise':
            n = rng.randint(1, nctx_top)
            ops.append(mkop('raise', n=n))
            del stack[-n:]
            root = 2 if not stack else root
    return dict(kind='rand', ops=ops, cls=[], s=[], ws=rng.random() < 0.85)


# ------------------------------------------------------------------------------------------------
def parallel_verdict(ck, module, obs, chunk, jobs):
    """ck.tlc_verdict, chunks judged by concurrent TLC processes (one worker each)"""
    parts = [obs[k:k + chunk] for k in range(0, len(obs), chunk)]

    def one(ix):
        part = parts[ix]
        tf = os.path.join(ck.tmp, 'obs-%s-p%d.json' % (module, ix))
        vf = os.path.join(ck.tmp, 'verdict-%s-p%d.json' % (module, ix))
        with open(tf, 'w') as f:
            json.dump(part, f)
        r = ck._tlc(module + '.tla', module + '.cfg', [], dict(JVM, TRACE_FILE=tf, VERDICT_FILE=vf), 15000, 1)
        if not os.path.exists(vf):
            raise MachineryError('trace spec %s produced no verdict:\n%s' % (module, r['out'][-3000:]))
        v = json.load(open(vf))
        if v.get('n') != len(part):
            raise MachineryError('trace spec %s consumed %s of %d records' % (module, v.get('n'), len(part)))
        if not ck.args.keep:
            os.unlink(tf)
        return v, r

    rejected, exercised, states = [], {}, 0
    with ThreadPoolExecutor(max_workers=jobs) as ex:
        for v, r in ex.map(one, range(len(parts))):
            rejected += [tuple(x) for x in v.get('rejected', [])]
            for c, cnt in v.get('exercised', {}).items():
                exercised[c] = exercised.get(c, 0) + cnt
            states += r['distinct']
    ck.cov['traces_validated_against_impl'] += len(obs)
    ck.cov['trace_states'] = ck.cov.get('trace_states', 0) + states
    ev = ck.cov.setdefault('clauses_exercised', {})
    for c, cnt in exercised.items():
        ev[c] = ev.get(c, 0) + cnt
    return rejected, exercised


def read_dump(path):
    """histories of the states with fin = TRUE in a TLC -dump of XmlWriterCases"""
    seqs = []
    with open(path) as f:
        text = f.read()
    for m in re.finditer(r'/\\ h = <<([0-9, \n]*)>>\s*/\\ fin = TRUE', text):
        seqs.append([int(x) for x in m.group(1).replace('\n', ' ').split(',') if x.strip()])
    return seqs


QUICK_MC = [('XmlWriter_ctl4.cfg', 4, 'operation sequences <= 4 over 14 ops: balanced prefixes, LIFO close after exceptions, lossless (Combined)'),
            ('XmlWriter_pay3q.cfg', 4, 'operation sequences <= 3 over 33 payload-rich ops (Combined)'),
            ('XmlWriter_esc3.cfg', 2, 'escape/quoteattr round trip through an XML 1.0 parser: all class strings <= 3 over 21 symbols'),
            ('XmlWriter_wrapq.cfg', 2, 'None vanishes, wrapping only changes separators, decision = f(lengths): lists <= 3 x 3 depths')]
THOROUGH_MC = [('XmlWriter_ctl6.cfg', 7, 'operation sequences <= 6 over 14 ops, every invariant by name'),
               ('XmlWriter_pay3.cfg', 4, 'operation sequences <= 3 over 33 payload-rich ops, every invariant by name'),
               ('XmlWriter_esc4.cfg', 3, 'all class strings <= 4 over 21 symbols'),
               ('XmlWriter_wrap.cfg', 2, 'attribute lists <= 3 x 6 values x 5 indent depths x 2 tag lengths')]
# (XmlWriter_ctl5/ctl7/esc5/esc6/pay4.cfg: intermediate or larger variants for manual runs, not part of the tiers)
# design mutations of the model that TLC must refute (the model is not vacuous): cfg, expected violated invariant
WITNESS = [('XmlWriter_w_nowsrefs.cfg', 'InvAttrRoundTrip', 'quoteattr without &#10; &#13; &#9;: TAB/LF/CR in attribute values are lost'),
           ('XmlWriter_w_escattr.cfg', 'InvAttrRoundTrip', 'escape() instead of quoteattr() for attribute values'),
           ('XmlWriter_w_crtext.cfg', 'InvTextRoundTripNoException', 'without the CR exception of the statement, text does not round-trip'),
           ('XmlWriter_w_amplast.cfg', 'InvTextRoundTrip', 'ampersand replaced last'),
           ('XmlWriter_w_noescape.cfg', 'Combined', 'no escaping of text')]


def run():
    ck = Check(PID, 'model_checking')
    from .. import gistub
    gistub.install()
    from giscanner.xmlwriter import XMLWriter
    ck.assumptions += [
        'independent parser = expat (xml.parsers.expat, namespace processing off, ordered attributes); it implements XML 1.0',
        'strings handed to the writer are XML-1.0-representable (Char production; no C0 controls but TAB/LF/CR, no surrogates, '
        'no U+FFFE/U+FFFF); element/attribute names are XML names valid in both the 4th and 5th edition; attribute names are '
        'unique per element; comment text has no "--" (a comment cannot represent it); write_line(do_escape=False) is given '
        'markup-free text; one document element -- all checked by TLC on every trace (clause GEN = machinery failure)',
        'pop_tag() is not used to close an element a with-block owns and with-blocks are left only when their own element is '
        'innermost (XmlWriter!Enabled, AllowMisuse = FALSE): the property is silent on that caller error',
        'CR in element text: the clauses Text/Lines are silent (the statement excepts it); everything else still judged',
        'comments are not compared as content (the statement lists element structure, attribute names/values and text); '
        'a lost or altered comment is a DRIFT note']
    replay = json.load(open(ck.args.replay))['replay'] if ck.args.replay else None
    cases = []
    # concurrency follows common.NCPU (VERIF_NCPU): on >= 12 CPUs the model-checking runs go side by side with the
    # execution of the real code and the judging of the traces; below that everything runs one TLC at a time
    wide = NCPU >= 12
    pool = ThreadPoolExecutor(max_workers=12 if wide else 1)
    if not replay:
        # ------------------------------------------------ 1. model checking (concurrent TLC runs) + case export
        cfgs = QUICK_MC if ck.quick else THOROUGH_MC
        wit = WITNESS[:3] if ck.quick else WITNESS
        if os.environ.get('C20_DEV_FAST'):      # development aid (mutation exercise): binding part only
            cfgs, wit = [], []
            ck.notes.append('C20_DEV_FAST: model checking runs skipped')
        def mc_job(cfg, workers, label, timeout):
            ex = ['-coverage', '1'] if not label.startswith('witness') else []
            return ck._tlc('XmlWriterMC.tla', cfg, ex, JVM, timeout, workers), cfg, label
        share = (lambda x: max(1, NCPU * x // 16)) if wide else (lambda x: NCPU)

        def submit_mc():
            return ([pool.submit(mc_job, cfg, share(w), label, 12000 if ck.quick else 36000) for cfg, w, label in cfgs],
                    [(inv, pool.submit(mc_job, cfg, 1, 'witness: ' + label, 9000)) for cfg, inv, label in wit])
        if wide:
            futs, wfuts = submit_mc()
        w = share(3)
        cases_file = os.path.join(ck.tmp, 'cases.json')
        dump = os.path.join(ck.tmp, 'seqs')
        maxlen = '5' if ck.quick else '6'
        r = ck.tlc_mc('XmlWriterCases', 'XmlWriterCases.cfg', workers=w, timeout=15000, coverage=False,
                      extra=['-dump', dump], env=dict(JVM, MAXLEN=maxlen, CASES_FILE=cases_file),
                      label='export: every enabled operation sequence <= %s over CtlOps (tree of histories)' % maxlen)
        if not os.path.exists(cases_file) or not os.path.exists(dump + '.dump'):
            raise MachineryError('TLC did not export cases')
        exported = json.load(open(cases_file))
        optab = exported['ops']
        seqs = read_dump(dump + '.dump')
        os.unlink(dump + '.dump')
        if not seqs or r['distinct'] < len(seqs):
            raise MachineryError('no complete sequences in the dump')
        ck.cov['exhaustive'] = True
        ck.cov['tlc_complete_sequences'] = len(seqs)
        rng = ck.rng
        for si, sq in enumerate(sorted(seqs)):
            ops = [render_op(optab[i - 1], rng) for i in sq]
            cases.append(dict(kind='ops', ops=ops, cls=[], s=[], ws=True))
            if si % 8 == 0:
                cases.append(dict(kind='ops', ops=ops, cls=[], s=[], ws=False))
        strings = sorted(exported['strings'], key=lambda s: (len(s), s))
        if ck.quick:
            short = [s for s in strings if len(s) <= 2]
            long3 = [s for s in strings if len(s) > 2]
            strings = short + rng.sample(long3, 300)
        ck.cov['tlc_class_strings'] = len(strings)
        for i, cls in enumerate(strings):
            cases.append(esc_case(cls, i, rng))
        # seeded random: long class strings in the escaping schema, then long / deep sequences
        for i in range(150 if ck.quick else 6000):
            cases.append(esc_case(rand_class_string(rng, 60) + rand_class_string(rng, 12), i, rng))
        for i in range(500 if ck.quick else 8000):
            big = i % (10 if ck.quick else 20) == 0
            cases.append(random_case(rng, maxops=60 if big else 14, maxdepth=20 if big else 6,
                                     maxattrs=50 if big else 8, maxval=200 if big else 40))
        for i, c in enumerate(cases):
            c['id'] = '%s-%d' % (c['kind'], i)
    else:
        replay['id'] = replay.get('id', 'replay-0')
        cases = [replay]

    # ---------------------------------------------------- 2. run the real writer, project
    obs, by_id = [], {}
    t0 = time.time()
    nops = 0
    for c in cases:
        o, text = execute(XMLWriter, c['ops'], c['ws'])
        rec = dict(id=c['id'], kind=c['kind'], ops=c['ops'], cls=c['cls'], s=c['s'])
        rec.update(o)
        obs.append(rec)
        by_id[c['id']] = c
        nops += len(c['ops'])
        ck.count()
        ck.nontrivial(stable_hash(text))
        if c['kind'] == 'rand' and len(c['ops']) > 6:
            ck.sample(dict(id=c['id'], ws=c['ws'], ops=[dict(k=o_['k'], name=txt(o_['name']),
                                                             attrs=[(txt(a['n']), txt(a['v']) if a['has'] else None) for a in o_['attrs']],
                                                             text=txt(o_['text']), n=o_['n']) for o_ in c['ops'][:8]],
                           xml=text[:600]), limit=2)
    ck.cov['operations_executed'] = nops
    ck.cov['exec_s'] = round(time.time() - t0, 2)

    # ---------------------------------------------------- 3. TLC judges
    if not replay and not wide:     # narrow machine: one TLC at a time -- model checking now, then the traces
        futs, wfuts = submit_mc()
        for f in futs + [f for _, f in wfuts]:
            f.exception()
    jobs = 1 if replay else (max(2, NCPU // 2 - 1) if wide else max(1, NCPU))
    chunk = max(50, min(500, len(obs) // jobs + 1))
    rejected, exercised = parallel_verdict(ck, 'XmlWriterTrace', obs, chunk, jobs)
    if not replay:
        def book(r, cfg, label):        # what Check.tlc_mc records, done in the main thread
            ck.cov['states'] += r['distinct']
            ck.cov['transitions'] += r['generated']
            ck.cov['tlc_runs'].append(dict(module='XmlWriterMC', cfg=cfg, label=label, generated=r['generated'], distinct=r['distinct'],
                                           depth=r['depth'], wall_s=r['wall_s'], ok=r['ok'], mode='exhaustive', violated=r.get('violated'),
                                           actions_never_taken=sorted(a for a, (d, g) in r['coverage'].items() if g == 0)))
        for f in futs:
            r, cfg, label = f.result()
            book(r, cfg, label)
            if not r['ok']:             # a violated model is a machinery failure
                raise MachineryError('TLC on XmlWriterMC/%s did not complete cleanly: %s %s\n%s' % (cfg, r.get('violated'), r.get('error'), r['out'][-3000:]))
        for inv, f in wfuts:
            r, cfg, label = f.result()
            book(r, cfg, label)
            if r.get('violated') != inv:
                raise MachineryError('witness %s: expected %s to be violated, TLC says %s / %s' % (cfg, inv, r.get('violated'), r.get('error')))
        ck.cov['witnesses_refuted'] = len(wfuts)
    pool.shutdown()
    drift, groups = {}, {}
    for oid, clause, detail in sorted(rejected):
        if clause == 'GEN':
            raise MachineryError('generator left the quantifier of C20 / the model: %s %s' % (oid, detail))
        if clause == 'DRIFT':
            drift[detail] = drift.get(detail, 0) + 1
        else:
            groups.setdefault((clause, detail), []).append(oid)
    for (clause, detail), ids in sorted(groups.items()):
        oid = min(ids, key=lambda i: (len(by_id[i]['ops']), sum(len(a['v']) for o_ in by_id[i]['ops'] for a in o_['attrs']), i))
        c = by_id[oid]
        o, text = execute(XMLWriter, c['ops'], c['ws'])
        ck.violation(dict(clause=clause, detail=detail),
                     'clause %s rejected (%s) on %d of %d sequences; smallest: %s, %d operations (%s); parser: wf=%s %s crash=%s; get_xml() = %r' % (
                         clause, detail, len(ids), len(obs), oid, len(c['ops']), ' '.join(x['k'] for x in c['ops'][:14]),
                         o['wf'], o['err'], o['crash'], text[:400]),
                     dict(kind=c['kind'], ops=c['ops'], cls=c['cls'], s=c['s'], ws=c['ws'], id=oid))
    for d, n in sorted(drift.items()):
        ck.notes.append('DRIFT %s: %d traces (the code no longer follows the implementation-shaped layer there; not part of the verdict)' % (d, n))
    if not replay:
        for cl in ('OpenStack', 'ExitCloses', 'RaiseCloses', 'WellFormed', 'Structure', 'AttrNames', 'AttrValues',
                   'NoneOmitted', 'Text', 'Lines', 'WrapContent'):
            if not exercised.get(cl):
                raise MachineryError('clause %s never exercised (vacuous run)' % cl)
    ck.cov['rule'] = ('cases = every complete operation sequence of the model up to the exported length (TLC state graph of '
                      'XmlWriterCases) x payload rendering + every class string up to the exported bound in 8 positions/depths + '
                      'seeded random sequences (depth <= 20, <= 50 attributes, values <= 200); evaluations = sequences executed on the '
                      'real XMLWriter and judged by TLC; non-trivial/distinct = distinct documents returned by get_xml()')
    return ck.finish()


if __name__ == '__main__':
    main_wrapper(PID, run)

"""C04 — each public C symbol is described once, under the right name and owner.

tla/Naming.tla: identifiers are word sequences over a fixed vocabulary; property layer = the statement of
C04 over (case, emitted elements); implementation-shaped layer = prefix matching with precedence of the
current namespace, tag-namespace handling, get-type folding, method / constructor / static pairing,
moved-to copies.  TLC checks  implementation layer => property layer  over exhaustive families of cases
(NamingMC), exports cases (NamingCases) which are renamed to concrete word lists, rendered with symgen
(harness/scan.py), scanned by the REAL pipeline (Transformer -> GDumpParser -> MainTransformer ->
IntrospectablePass -> GIRWriter, options given the way scannermain gives them), projected with girabs to
the set of (tag, owner, GIR name, c:identifier|c:type, moved-to, ...) and judged by TLC (NamingTrace).
Seeded random cases of the same schema go beyond the exhaustive bound.  The character-class sub-model of
utils.to_underscores(_noprefix) is replayed string by string against giscanner.utils.
"""
import json, os, re, threading

from ..common import Check, MachineryError, main_wrapper, TLA_DIR, NCPU

PID = 'C04'
NOREF = dict(ns='none', i=0, n='-')
INT = dict(ns='int', i=0, n='-')


# ------------------------------------------------------------------ vocabulary (read from the spec)
def load_vocab():
    text = open(os.path.join(TLA_DIR, 'Naming.tla')).read()
    vt = text[text.index('VocabT =='):text.index('Vocab ==')]
    voc = {l: (c, u) for l, c, u in re.findall(r'<<"(\w+)","(\w+)","(\w+)">>', vt)}
    cr = text[text.index('CharRel =='):]
    cr = cr[:cr.index('}')]
    rel = set(re.findall(r'<<"(\w+)","(\w+)">>', cr))
    # machinery self-check: the spelling tables of the spec are what they claim to be
    for l, (c, u) in voc.items():
        if c != l[0].upper() + l[1:] or u != l.upper() or not re.match(r'^[a-z]+$', l):
            raise MachineryError('vocabulary entry %r is not lower/Camel/UPPER' % l)
    real = {(a, b) for a in voc for b in voc if a != b and b.startswith(a)}
    if real != rel:
        raise MachineryError('CharRel of Naming.tla %r differs from the vocabulary %r' % (sorted(rel), sorted(real)))
    for a in voc:                      # no word is the concatenation of two others (word boundaries are unambiguous)
        for b in voc:
            if a + b in voc:
                raise MachineryError('vocabulary word %s%s is a concatenation' % (a, b))
    return voc


def JL(ws):
    return '_'.join(ws)


def JC(ws):
    return ''.join(w[0].upper() + w[1:] for w in ws)


def JU(ws):
    return '_'.join(w.upper() for w in ws)


def form(k):
    return 'l' if k in ('func', 'callbackl') else ('u' if k == 'const' else 'c')


def cname(d):
    f = form(d['k'])
    return ('_' if d['us'] else '') + (JL(d['w']) if f == 'l' else JU(d['w']) if f == 'u' else JC(d['w']))


def decl(k, w, us=False, ord_='-', reg='none', gt=(), par=None, p1=None, ret=None, ann='-'):
    return dict(k=k, w=list(w), us=bool(us), ord=ord_, reg=reg, gt=list(gt), par=par or dict(NOREF),
                p1=p1 or dict(NOREF), ret=ret or dict(NOREF), ann=ann)


# ------------------------------------------------------------------ concrete word lists for TLC's cases
PREFIX_POOL = ['foo', 'food', 'bar', 'g', 'gtk', 'inc', 'source']
TYPE_POOL = ['text', 'texts', 'buffer', 'view', 'box', 'item', 'mode', 'kind']
FUNC_POOL = ['do', 'max', 'make', 'with', 'label', 'renew', 'cb', 'func']
ROLE = dict(foo='p', bar='p', inc='p', text='t', buffer='t', view='t', item='t', make='f', do='f', max='f')


def rename_case(case, rng, identity=False):
    """TLC's abstract words -> concrete vocabulary words chosen per case (injective, roles kept; new / newv /
    get / type / object / mid / rec are fixed points)."""
    if identity:
        return case
    pools = dict(p=rng.sample(PREFIX_POOL, len(PREFIX_POOL)), t=rng.sample(TYPE_POOL, len(TYPE_POOL)),
                 f=rng.sample(FUNC_POOL, len(FUNC_POOL)))
    m = {}

    def tr(w):
        if w not in ROLE:
            return w
        if w not in m:
            m[w] = pools[ROLE[w]].pop()
        return m[w]

    def trp(ps):
        return [[tr(w) for w in p] for p in ps]
    c = json.loads(json.dumps(case))
    c['cur']['idp'], c['cur']['symp'] = trp(c['cur']['idp']), trp(c['cur']['symp'])
    c['inc']['idp'], c['inc']['symp'] = trp(c['inc']['idp']), trp(c['inc']['symp'])
    for d in c['decls']:
        d['w'] = [tr(w) for w in d['w']]
        d['gt'] = [tr(w) for w in d['gt']]
    return c


# ------------------------------------------------------------------ seeded random cases beyond TLC's bound
def random_case(rng):
    def prefix():
        p = [rng.choice(PREFIX_POOL)]
        if rng.random() < 0.3:
            p.append(rng.choice(['text', 'source', 'box', 'gtk', 'foo']))
        return p

    def plist(n):
        out = []
        while len(out) < n:
            p = prefix()
            if rng.random() < 0.35 and out:          # a prefix of / extension of one already chosen
                q = rng.choice(out)
                p = q + [rng.choice(['text', 'source', 'box'])] if len(q) == 1 else q[:1]
            if p not in out and len(p) <= 2:
                out.append(p)
        return out
    idp = plist(rng.choice([1, 1, 2, 2, 3]))
    symp = [list(p) for p in idp] if rng.random() < 0.6 else plist(rng.choice([1, 2, 2, 3]))
    inc_on = rng.random() < 0.65
    iidp = plist(rng.choice([1, 1, 2]))
    if inc_on and rng.random() < 0.4:                 # related to ours: same, prefix of ours, extension of ours
        q = rng.choice(idp)
        iidp[0] = rng.choice([q, q[:1], (q + ['source'])[:2]])
    isymp = [list(p) for p in iidp] if rng.random() < 0.7 else plist(rng.choice([1, 2]))
    if not inc_on:
        iidp, isymp = [['inc']], [['inc']]
    case = dict(cur=dict(idp=idp, symp=symp, unpref=rng.random() < 0.25), inc=dict(on=inc_on, idp=iidp, symp=isymp),
                dump=rng.random() < 0.7, decls=[])
    ds = case['decls']
    seen = set()

    def id_prefix():
        r = rng.random()
        if r < 0.72:
            return list(rng.choice(idp))
        if r < 0.82:
            return list(rng.choice(iidp))
        if r < 0.92:
            return []
        return [rng.choice(PREFIX_POOL)]

    def sym_prefix():
        r = rng.random()
        if r < 0.75:
            return list(rng.choice(symp))
        if r < 0.85:
            return list(rng.choice(isymp))
        if r < 0.93:
            return []
        return [rng.choice(PREFIX_POOL)]

    def carries(ps, w):
        return any(len(p) < len(w) and w[:len(p)] == p for p in ps)

    def gt_ok(ps, gt):
        # the FIRST listed symbol prefix that matches must leave a type part before get_type (else GDumpParser aborts)
        for p in ps:
            if len(p) < len(gt) and gt[:len(p)] == p:
                return len(gt) - len(p) >= 3
        return False

    def add(d):
        n = cname(d)
        g = JL(d['gt']) if d['gt'] else None
        if n in seen or n.lstrip('_') in seen or (g and g in seen) or not d['w']:
            return None
        seen.add(n)
        seen.add(n.lstrip('_'))
        if g:
            seen.add(g)
        ds.append(d)
        return len(ds)

    types = []            # indices (1-based) of compound declarations
    classes = []
    for _ in range(rng.choice([1, 2, 2, 3, 3, 4])):
        tw = [rng.choice(TYPE_POOL) for _ in range(rng.choice([1, 1, 2]))]
        w = id_prefix() + tw
        us = rng.random() < 0.1
        r = rng.random()
        if r < 0.62:
            d = decl('struct', w, us, rng.choice(['tf', 'tf', 'sf', 'sf', 't', 'anon', 'tag']))
            public = (not us) and carries(idp, w)
            if public and rng.random() < 0.6:
                d['reg'] = rng.choice(['class', 'class', 'boxed'])
                sp = list(rng.choice(symp))
                r2 = rng.random()
                body = list(tw) if r2 < 0.75 else (list(tw) + [rng.choice(['item', 'object', 'box'])] if r2 < 0.9
                                                   else [rng.choice(TYPE_POOL)])
                d['gt'] = sp + body + ['get', 'type']
                if not gt_ok(symp, d['gt']):
                    d['reg'], d['gt'] = 'none', []
                if d['reg'] == 'class':
                    r3 = rng.random()
                    if classes and r3 < 0.45:
                        d['par'] = dict(ns='cur', i=rng.choice(classes), n='-')
                    elif inc_on and r3 < 0.85:
                        d['par'] = dict(ns='inc', i=0, n=rng.choice(['object', 'mid']))
            i = add(d)
            if i:
                types.append(i)
                if d['reg'] == 'class':
                    classes.append(i)
        elif r < 0.74:
            d = decl('enum', w, us)
            if (not us) and carries(idp, w) and rng.random() < 0.4:
                d['reg'] = 'enum'
                d['gt'] = list(rng.choice(symp)) + tw + ['get', 'type']
                if not gt_ok(symp, d['gt']):
                    d['reg'], d['gt'] = 'none', []
            add(d)
        elif r < 0.82:
            add(decl('callback', w + ['cb'] if rng.random() < 0.5 else w, us))
        elif r < 0.88:
            add(decl('callbackl', sym_prefix() + tw + ['func'], us and False))
        else:
            add(decl('alias', w, us))
    tail_pool = [['new'], ['new'], ['new', 'with', 'label'], ['newv'], ['do'], ['do'], ['get', 'max'], ['make'], ['renew'],
                 ['with', 'new'], ['max'], ['new', 'do']]
    for _ in range(rng.choice([1, 2, 3, 3, 4, 5])):
        r = rng.random()
        ti = rng.choice(types) if types else 0
        tw = []
        if ti and r < 0.7:
            td = ds[ti - 1]
            cut = [p for p in idp if len(p) < len(td['w']) and td['w'][:len(p)] == p]
            tw = td['w'][len(rng.choice(cut)):] if cut else td['w'][-1:]
            if rng.random() < 0.15:
                tw = tw + [rng.choice(['item', 'buffer'])]
            if rng.random() < 0.08:
                tw = tw[:-1] + ['texts' if tw[-1] == 'text' else tw[-1]]
        elif r < 0.85:
            tw = [rng.choice(TYPE_POOL)]
        body = tw + rng.choice(tail_pool)
        if rng.random() < 0.06:
            body = rng.choice([['make'], ['do']]) + tw
        w = sym_prefix() + body

        def ref(bias):
            x = rng.random()
            if ti and x < bias:
                return dict(ns='cur', i=ti, n='-')
            if types and x < bias + 0.15:
                return dict(ns='cur', i=rng.choice(types), n='-')
            if inc_on and x < bias + 0.27:
                return dict(ns='inc', i=0, n=rng.choice(['object', 'mid', 'rec']))
            if x < bias + 0.4:
                return dict(INT)
            return dict(NOREF)
        isnew = 'new' in body or 'newv' in body
        d = decl('func', w, rng.random() < 0.08, p1=ref(0.15 if isnew else 0.6), ret=ref(0.6 if isnew else 0.1))
        if d['ret']['ns'] == 'int' and isnew:
            d['ret'] = dict(NOREF)
        x = rng.random()
        if x < 0.09 and d['p1']['ns'] != 'none':
            d['ann'] = 'method'
        elif x < 0.18 and d['ret']['ns'] in ('cur', 'inc'):
            d['ann'] = 'constructor'
        if d['ann'] != '-' and tw and rng.random() < 0.45:
            # what the annotations are for: names that do not start with the type's prefix
            d['w'] = sym_prefix() + rng.choice([['make'] + tw, ['renew'] + tw, ['do'] + tw + ['max'], tw[::-1] + ['make'], ['with'] + tw[-1:]])
        add(d)
    for _ in range(rng.choice([0, 1, 1, 2])):
        add(decl('const', sym_prefix() + [rng.choice(FUNC_POOL + TYPE_POOL) for _ in range(rng.choice([1, 2]))], rng.random() < 0.1))
    # declaration order is arbitrary: permute and re-index the references
    order = list(range(1, len(ds) + 1))
    rng.shuffle(order)
    pos = {old: new for new, old in enumerate(order, 1)}
    nds = [ds[o - 1] for o in order]
    for d in nds:
        for key in ('par', 'p1', 'ret'):
            if d[key]['ns'] == 'cur':
                d[key] = dict(ns='cur', i=pos[d[key]['i']], n='-')
    case['decls'] = nds
    return case


# ------------------------------------------------------------------ rendering (symgen) and projection (girabs)
INC_XML = '''<?xml version="1.0"?>
<repository version="1.2" xmlns="http://www.gtk.org/introspection/core/1.0" xmlns:c="http://www.gtk.org/introspection/c/1.0" xmlns:glib="http://www.gtk.org/introspection/glib/1.0">
  <namespace name="GObject" version="2.0" c:identifier-prefixes="%(idp)s" c:symbol-prefixes="%(symp)s">
    <class name="Object" c:symbol-prefix="object" c:type="%(I)sObject" glib:type-name="%(I)sObject" glib:get-type="%(s)s_object_get_type" glib:fundamental="1"/>
    <class name="Mid" c:symbol-prefix="mid" c:type="%(I)sMid" parent="Object" glib:type-name="%(I)sMid" glib:get-type="%(s)s_mid_get_type"/>
    <record name="Rec" c:type="%(I)sRec"/>
  </namespace>
</repository>'''


class Renderer(object):
    def __init__(self, S, tmp):
        self.S = S
        self.tmp = tmp
        self.inc_cache = {}

    def include(self, inc):
        key = json.dumps([inc['idp'], inc['symp']])
        if key not in self.inc_cache:
            from giscanner.girparser import GIRParser
            d = os.path.join(self.tmp, 'inc%d' % len(self.inc_cache))
            os.makedirs(d, exist_ok=True)
            path = os.path.join(d, 'GObject-2.0.gir')
            with open(path, 'w') as f:
                f.write(INC_XML % dict(idp=','.join(JC(p) for p in inc['idp']), symp=','.join(JL(p) for p in inc['symp']),
                                       I=JC(inc['idp'][0]), s=JL(inc['symp'][0])))
            p = GIRParser(types_only=True)
            p.parse(path)
            self.inc_cache[key] = p.get_namespace()
        return self.inc_cache[key]

    def ctype_of(self, case, ref):
        if ref['ns'] == 'cur':
            d = case['decls'][ref['i'] - 1]
            n = cname(d)
            return n
        if ref['ns'] == 'inc':
            return JC(case['inc']['idp'][0] + [ref['n']])
        return None

    def render(self, case, lseed):
        """-> symbols, comments, dump xml (or None), scan keyword arguments.  `lseed` decides the layout
        (where the second half of a typedef/struct pair goes); 0 = adjacent, TLC's order."""
        import random
        S = self.S
        lay = random.Random(lseed)
        groups = []                    # lists of symbols that stay adjacent
        late = []                      # (earliest group index, symbol) to be inserted later
        comments = []
        dump = []
        gts = []
        for i, d in enumerate(case['decls'], 1):
            n = cname(d)
            k = d['k']
            if k == 'func':
                ret = self.ctype_of(case, d['ret'])
                ret = (ret + ' *') if ret else ('int' if d['ret']['ns'] == 'int' else 'GType' if d['ret']['ns'] == 'gtype' else 'void')
                params = []
                p1 = self.ctype_of(case, d['p1'])
                if p1:
                    params.append((p1 + ' *', 'self'))
                elif d['p1']['ns'] == 'int':
                    params.append(('int', 'x'))
                groups.append([S.function(n, ret, params)])
                ann = '' if d['ann'] == '-' else ' (%s)' % d['ann']
                if ann or ret.endswith('*'):
                    text = '/**\n * %s:%s\n' % (n, ann)
                    if ret.endswith('*'):
                        text += ' *\n * Returns: (transfer none): it\n'
                    comments.append(text + ' */')
            elif k == 'const':
                groups.append([S.const_int(n, 5)])
            elif k == 'alias':
                groups.append([S.alias(n, 'gint')])
            elif k == 'enum':
                groups.append([S.typedef_enum(n, [(JU(d['w']) + '_A', 0), (JU(d['w']) + '_B', 1)])])
            elif k in ('callback', 'callbackl'):
                groups.append([S.callback(n, 'void', [('int', 'x')])])
            else:
                fields = [('int', 'x')]
                tag = '_' + n
                o = d['ord']
                if o == 't':
                    groups.append([S.typedef_struct(n, tag)])
                elif o == 'anon':
                    groups.append([S.typedef_struct(n, None, fields)])
                elif o == 'tag':
                    groups.append([S.struct_def(n, fields)])
                else:
                    a, b = S.typedef_struct(n, tag), S.struct_def(tag, fields)
                    first, second = (a, b) if o == 'tf' else (b, a)
                    if lseed and lay.random() < 0.5:
                        groups.append([first])
                        late.append((len(groups), second))
                    else:
                        groups.append([first, second])
            if d['gt']:
                gts.append(S.function(JL(d['gt']), 'GType', []))
                if d['reg'] == 'class':
                    chain = []
                    ref = d['par']
                    fuel = 10
                    while ref['ns'] != 'none' and fuel:
                        fuel -= 1
                        chain.append(self.ctype_of(case, ref))
                        if ref['ns'] == 'cur':
                            ref = case['decls'][ref['i'] - 1]['par']
                        else:
                            ref = dict(ns='inc', i=0, n='object') if ref['n'] == 'mid' else NOREF
                    dump.append('<class name="%s" get-type="%s" parents="%s"/>' % (n, JL(d['gt']), ','.join(chain)))
                elif d['reg'] == 'boxed':
                    dump.append('<boxed name="%s" get-type="%s"/>' % (n, JL(d['gt'])))
                elif d['reg'] == 'enum':
                    dump.append('<enum name="%s" get-type="%s"><member name="%s_A" nick="a" value="0"/>'
                                '<member name="%s_B" nick="b" value="1"/></enum>' % (n, JL(d['gt']), JU(d['w']), JU(d['w'])))
        for at, sym in late:
            pos = lay.randint(at, len(groups))
            groups.insert(pos, [sym])
            late[:] = [(a + 1 if a >= pos else a, s) for a, s in late]
        for g in gts:                                # get-type functions follow the other declarations
            groups.append([g])
        syms = [s for g in groups for s in g]
        for ln, s in enumerate(syms, 1):
            s.line = ln
        cur, inc = case['cur'], case['inc']
        kw = dict(name='Cur', version='1.0', idp=[JC(p) for p in cur['idp']], symp=[JL(p) for p in cur['symp']],
                  accept_unprefixed=bool(cur['unpref']), deps=(), warnings=False,
                  extra_includes={'GObject': self.include(inc)} if inc['on'] else None)
        dump_xml = ('<?xml version="1.0"?><dump>%s</dump>' % ''.join(dump)) if case['dump'] else None
        return syms, [(t, '/src/foo.c', 10 * (k + 1)) for k, t in enumerate(comments)], dump_xml, kw

    def observe(self, case, lseed):
        S = self.S
        syms, comments, dump_xml, kw = self.render(case, lseed)
        fatal, crash, xml = False, '', None
        try:
            r = S.scan(syms, comments, dump_xml=dump_xml, **kw)
            xml = r.xml
        except SystemExit as e:
            if 'Namespace conflict' in str(e):
                fatal = True
            else:
                crash = 'SystemExit: %s' % str(e)[:300]
        except Exception as e:                      # a crashing scanner describes nothing (judged by Present)
            crash = '%s: %s' % (type(e).__name__, str(e)[:300])
        finally:
            from giscanner import message
            message.MessageLogger._instance = None
        els = project(S, xml) if xml else []
        return els, fatal, crash


NESTED = ('function', 'method', 'constructor')


def project(S, xml):
    ns = S.namespace_of(S.girabs(xml))
    els = []

    def el(node, owner):
        a = node['attrs']
        oa = owner['attrs'] if owner else {}
        return dict(tag=node['tag'], owner=(oa.get('name') or oa.get('glib:name') or '?') if owner else '',
                    ownerCT=oa.get('c:type', '-') if owner else '-', ownerSP=oa.get('c:symbol-prefix', '-') if owner else '-',
                    name=a.get('name', a.get('glib:name', '')), cid=a.get('c:identifier', a.get('c:type', '-')),
                    movedTo=a.get('moved-to', '-'), getType=a.get('glib:get-type', '-'), symPrefix=a.get('c:symbol-prefix', '-'),
                    parent=a.get('parent', '-'))
    for c in ns['children']:
        if c['tag'] in ('function-macro', 'docsection'):
            continue
        els.append(el(c, None))
        for g in c['children']:
            if g['tag'] in NESTED:
                els.append(el(g, c))
    return els


# ------------------------------------------------------------------ underscore sub-model
def concretise(classes, rng):
    return ''.join(rng.choice('ABCDEFGHXYZ') if k == 'U' else rng.choice('abcdefgxyz') if k == 'l' else rng.choice('0123456789')
                   for k in classes)


def abstract(s):
    return ['U' if ch.isupper() else 'l' if ch.islower() else 'd' if ch.isdigit() else ch for ch in s]


# ------------------------------------------------------------------ verdicts (TLC, several JVMs side by side)
def verdicts(ck, obs, kind, chunk=3000):
    """ck.tlc_verdict, chunk-parallel: every chunk of observations is judged by its own TLC run of
    NamingTrace (idiom A.2); totality is checked per chunk."""
    from concurrent.futures import ThreadPoolExecutor
    parts = [obs[k:k + chunk] for k in range(0, len(obs), chunk)]

    def one(arg):
        k, part = arg
        tf = os.path.join(ck.tmp, 'obs-%s-%d.json' % (kind, k))
        vf = os.path.join(ck.tmp, 'verdict-%s-%d.json' % (kind, k))
        with open(tf, 'w') as f:
            json.dump(part, f)
        r = ck._tlc('NamingTrace.tla', 'NamingTrace.cfg', [], dict(TRACE_FILE=tf, VERDICT_FILE=vf, KIND=kind), 6000, 1)
        if not os.path.exists(vf):
            raise MachineryError('NamingTrace produced no verdict:\n%s' % r['out'][-3000:])
        v = json.load(open(vf))
        if v.get('n') != len(part):
            raise MachineryError('NamingTrace consumed %s of %d records' % (v.get('n'), len(part)))
        os.unlink(tf)
        return v
    rejected, exercised = [], {}
    with ThreadPoolExecutor(max_workers=max(1, min(6, NCPU // 2))) as ex:
        for v in ex.map(one, list(enumerate(parts))):
            rejected += [tuple(x) for x in v.get('rejected', [])]
            for c, n in v.get('exercised', {}).items():
                exercised[c] = exercised.get(c, 0) + n
    ck.cov['traces_validated_against_impl'] += len(obs)
    ev = ck.cov.setdefault('clauses_exercised', {})
    for c, n in exercised.items():
        ev[c] = ev.get(c, 0) + n
    return rejected, exercised


# ------------------------------------------------------------------ the check
def run():
    ck = Check(PID, 'model_checking')
    voc = load_vocab()
    from .. import scan as S
    from giscanner import utils as giutils
    ck.assumptions += [
        'symgen conventions of harness/scan.py (typedef struct _X X; / struct _X {..}; in either order, anonymous typedef struct, '
        'tag-only struct, typedef enum, callback typedef, alias typedef, #define constant in a .h file); options as scannermain '
        'passes them: Namespace(name, version, identifier_prefixes, symbol_prefixes), Transformer(accept_unprefixed=)',
        'runtime type data is a gdump XML stand-in listing exactly the get-type functions of the case (class with parents chain, '
        'boxed, enum); the included namespace is a generated GIR named GObject (root class Object, class Mid, record Rec) read by '
        'the real GIRParser',
        'identifiers are word sequences over the 30-word vocabulary of Naming.tla; words are [a-z]+ so CamelCase <-> underscore '
        'conversion splits exactly at capitals (the character-class sub-model covers to_underscores on all strings <= 7)',
        "the statement's 'symbols starting with an underscore' = C symbols (functions, constants); underscore-prefixed TYPES, which "
        'the scanner keeps as _Name (Transformer.strip_identifier, deliberate upstream), are reported as a beyond-statement note',
        'the statement is silent when two declarations map to the same GIR name (several prefixes / accept-unprefixed): the scanner '
        'aborts with "Namespace conflict", or keeps the first of two constants',
        'CamelCase prefixes are matched by characters in the code; where a prefix of the namespace matches only inside a word '
        '(G vs Gtk, Foo vs Food) the name and ownership clauses are silent',
        'annotated constructors are judged by the return-type half of the constructor clause and by the name clause (the statement '
        'describes name-based inference; (constructor) exists for names that do not carry the prefix)',
        'nested static functions (<function> inside a type) may be named with or without the owner prefix (statement silent)',
        'registered types are public, carry a prefix of the namespace, and their get-type function carries a symbol prefix of the '
        'namespace (otherwise the real scanner aborts in GDumpParser)',
    ]
    replay = json.load(open(ck.args.replay))['replay'] if ck.args.replay else None
    rd = Renderer(S, ck.tmp)
    mc_err = []
    th = None
    cases, strings = [], []

    if not replay:
        # ---- TLC: implementation layer => property layer (in a thread; the real-scanner work overlaps)
        def mc():
            try:
                if ck.quick:
                    ck.tlc_mc('NamingMC', 'Naming_quick.cfg', workers=max(1, NCPU - 2), timeout=6000,
                              label='impl => property: prefix x order x pair families, reduced menus (see NamingMC)')
                else:
                    for cfg, lab in (('Naming_prefix.cfg', '18 prefix configurations x 1..2 declarations of 84 shapes'),
                                     ('Naming_order.cfg', '1..2 compounds x 5 typedef/struct arrangements x registration x function; order independence'),
                                     ('Naming_pair.cfg', '99 type pairs x 750 functions x dump/no dump'),
                                     ('Naming_pair2.cfg', '36 type pairs x 45 x 44 function pairs x dump/no dump')):
                        ck.tlc_mc('NamingMC', cfg, workers=max(1, NCPU - 2), timeout=20000, label=lab)
                ck.tlc_mc('NamingMC', 'Naming_uscore.cfg', workers=2, timeout=3000, coverage=False,
                          label='to_underscores sub-model: word-shaped strings split at capitals, all strings <= 7 over {U,l,d}')
                # witnesses: the model exhibits the known finding when its exception is dropped, and (thorough tier)
                # each what-if switch of the implementation-shaped layer breaks the clause it should break
                wit = [('annmethod', 'I_NameStrict', '(method) annotation keeps the owner prefix (known finding)')]
                if not ck.quick:
                    wit += [('ctor', 'I_Ctor', 'Dev CtorReachRoot = code before c932153'),
                            ('ctorname', 'I_Name', 'Dev CtorNameSubstr = code before c6625ef'),
                            ('emptyrem', 'I_Present', 'Dev EmptyRemainderMatches = code before f62728f'),
                            ('crossns', 'I_Present', 'Dev CrossNs: method attached to a type of the include'),
                            ('nomoved', 'I_Once', 'Dev NoMovedTo: static-method copy without moved-to'),
                            ('leak', 'I_Absent', 'Dev UnderscoreLeak: underscore functions not dropped')]
                for name, inv, lab in wit:
                    r = ck.tlc_mc('NamingMC', 'Naming_w_%s.cfg' % name, workers=min(4, NCPU), timeout=6000, expect_ok=False,
                                  coverage=False, label='witness: ' + lab)
                    if r.get('violated') != inv:
                        raise MachineryError('witness Naming_w_%s did not violate %s: %s\n%s' % (name, inv, r.get('violated'), r['out'][-1500:]))
            except BaseException as e:       # noqa
                mc_err.append(e)
        if NCPU >= 8:                       # overlap model checking with the real-scanner work
            th = threading.Thread(target=mc)
            th.start()
        else:
            mc()
            if mc_err:
                raise mc_err[0]
        # ---- cases exported by TLC
        cf = os.path.join(ck.tmp, 'cases.json')
        r = ck._tlc('NamingCases.tla', 'NamingCases.cfg', ['-seed', str(ck.seed + 1)], dict(TIER=ck.tier, CASES_FILE=cf), 6000, 2)
        if not os.path.exists(cf):
            raise MachineryError('TLC did not export cases:\n' + r['out'][-2000:])
        exported = json.load(open(cf))
        rng = ck.rng
        for fam in ('prefix', 'order', 'pair', 'pair2'):
            for k, c in enumerate(exported[fam]):
                cases.append(dict(id='%s-%d' % (fam, k), src=fam, case=rename_case(c, rng, identity=(k % 4 == 0)), lseed=0))
        strings = exported['uscore']
        n_rand = 2500 if ck.quick else 30000
        for k in range(n_rand):
            cases.append(dict(id='rand-%d' % k, src='random', case=random_case(rng), lseed=rng.getrandbits(30) + 1))
    else:
        if replay.get('kind') == 'uscore':
            strings = [replay['s']]
        else:
            cases = [dict(id='replay', src=replay.get('src', 'replay'), case=replay['case'], lseed=replay['lseed'])]

    # ---- the REAL scanner
    obs, meta = [], {}
    for it in cases:
        els, fatal, crash = rd.observe(it['case'], it['lseed'])
        obs.append(dict(id=it['id'], c=it['case'], els=els, fatal=fatal))
        meta[it['id']] = dict(kind='scan', src=it['src'], case=it['case'], lseed=it['lseed'], crash=crash, observed=els)
        ck.count()
        ck.nontrivial(json.dumps(it['case'], sort_keys=True))
    rejected, exercised = verdicts(ck, obs, 'scan') if obs else ([], {})
    ndrift = nextra = 0
    for oid, clause, detail in rejected:
        m = meta[oid]
        if clause == 'EXTRA':
            nextra += 1
            if nextra <= 2:
                ck.notes.append('BEYOND-STATEMENT %s: %s (underscore-prefixed type kept as _Name; not part of C04 as read)' % (oid, detail))
            continue
        if clause == 'DRIFT':
            ndrift += 1
            if ndrift <= 8:
                ck.notes.append('DRIFT %s: the implementation-shaped layer does not predict the emitted elements exactly: %s'
                                % (oid, json.dumps(dict(case=m['case'], observed=m['observed']))[:1500]))
            continue
        sig = dict(clause=clause, detail=detail)
        text = '%s: clause %s rejected (%s)%s\n case=%s\n elements=%s' % (
            oid, clause, detail, (' scanner crashed: ' + m['crash']) if m['crash'] else '', json.dumps(m['case']),
            json.dumps([(e['tag'], e['owner'], e['name'], e['cid'], e['movedTo']) for e in m['observed']]))
        ck.violation(sig, text, dict(kind='scan', src=m['src'], case=m['case'], lseed=m['lseed']))
    ck.cov['beyond_statement'] = dict(underscore_type_kept=nextra)
    ck.cov['drift'] = ndrift

    # ---- to_underscores / to_underscores_noprefix, one test per string of the sub-model
    uobs, umeta = [], {}
    for k, s in enumerate(strings):
        conc = replay['concrete'] if replay and replay.get('kind') == 'uscore' else concretise(s, ck.rng)
        np_, p_ = giutils.to_underscores_noprefix(conc), giutils.to_underscores(conc)
        oid = 'uscore-%d' % k
        uobs.append(dict(id=oid, s=list(s), np=abstract(np_), p=abstract(p_)))
        umeta[oid] = dict(kind='uscore', s=list(s), concrete=conc, np=np_, p=p_)
        ck.count()
        ck.nontrivial(('u', ''.join(s)))
    if uobs:
        urej, _ = verdicts(ck, uobs, 'uscore', chunk=4000)
        for oid, clause, detail in urej:
            m = umeta[oid]
            ck.violation(dict(clause='Uscore' + clause, cls=''.join(m['s'])),
                         '%s: to_underscores clause %s rejected for %r -> noprefix %r / prefix %r' % (oid, clause, m['concrete'], m['np'], m['p']), m)

    if th:
        th.join()
    if mc_err:
        raise mc_err[0]
    if not replay:
        ck.cov['exhaustive'] = True
    by_src = {}
    for it in cases:
        by_src[it['src']] = by_src.get(it['src'], 0) + 1
    ck.cov['cases_by_source'] = by_src
    ck.cov['rule'] = ('cases = samples of the exhaustive TLC families (NamingCases; abstract words renamed to concrete vocabulary words '
                      'per case) + seeded random cases beyond the bound (<= 3 prefixes per kind, <= 12 declarations, typedef and '
                      'struct apart) + all 3279 class strings of the underscore sub-model; distinct = distinct concrete cases')
    for o in obs[:1] + obs[-1:]:
        ck.sample(dict(id=o['id'], case=o['c'], elements=[(e['tag'], e['owner'], e['name'], e['cid'], e['movedTo']) for e in o['els']]))
    if uobs:
        ck.sample(umeta[uobs[-1]['id']])
    return ck.finish()


if __name__ == '__main__':
    main_wrapper(PID, run)

"""C11 — comment parsing never aborts, diagnostics point at the source, every diagnostic is counted.

tla/CommentBlock.tla fault layer: the generator plants single faults (unbalanced / doubled / empty /
stray parentheses, missing colon, duplicate @param / tag / Returns, @param after the description, text
before '*', code before '/**' / after '*/', one-line block, missing identifier, deprecated tag-style
annotations, deprecated spellings, key=value given to a list annotation, unknown annotation, malformed
Attributes:) into the models, in lock step with the modelled parser's line bookkeeping; TLC proves
DiagAtFault / IgnoredNotHalfApplied over all single-fault placements within the bound
(CommentBlockMC + CommentBlock_fault*.cfg) and exports faulty cases (CommentBlockCases fx / fsim).
Every case is rendered to text, placed between two good blocks of a fictitious source file and given
to the REAL parse_comment_blocks with a recording MessageLogger whose display is suppressed; a second
stream feeds arbitrary strings.  TLC (CommentBlockFaultTrace) judges the observations.
"""
import glob, json, os, random, re
from concurrent.futures import ThreadPoolExecutor

from ..common import Check, MachineryError, main_wrapper, NCPU
from .. import cblock as C
from .c10 import export

PID = 'C11'
FILE = 'src/gtk/gtkwidget.c'
DEP_TAG_RE = re.compile(r'(attributes|get\s+value\s+func|ref\s+func|rename\s+to|set\s+value\s+func|transfer|type|unref\s+func|value|virtual)\s*:', re.I)
LB_RE = re.compile(r'\r\n|\r|\n')
ALPHABET = ['(', ')', '((', '()', '))', ':', '::', '*', '/', '@', ' ', '  ', '\t', '\n', '\r', '\r\n', '\x00', 'é', 'ß', '中', '\U0001F600',
            '=', ',', '<', '>', '|', '.', '...', '-', '_', 'x', 'Returns:', 'Since:', 'Deprecated:', 'Stability:', 'Attributes:',
            'Rename to:', 'Description:', 'Return value:', '@p:', '@returns:', '@...:', '(skip)', '(transfer full)', '(array length=n)',
            '(in-out)', '(attribute a b)', '(attribute a b c)', 'SECTION:', 'Foo::bar:', 'Foo:bar:', 'Foo.bar:', 'Foo|a.b', '/**', '*/', ' * ',
            '\x0b', '\x0c', '\x85', ' ', '﻿']


def split_lines(text):
    return LB_RE.split(text)


def good_block(R, rng, pool, uniq):
    """a fault-free case rendered with the diagnostic-free vocabulary -> (text, expected tree)"""
    case = pool[rng.randrange(len(pool))]
    sub = C.Sub(R.AP, random.Random(rng.randrange(1 << 40)), case, 'safe', uniq)
    lay = C.draw_layout(random.Random(rng.randrange(1 << 40)), rng.randrange(8))
    rd = C.render(case, sub, lay)
    return rd.text, C.expected_tree(case, sub)


def fuzz_text(rng, seeds):
    """arbitrary strings: mutated blocks, token soup, long lines, nested parentheses, raw noise"""
    mode = rng.random()
    if mode < 0.45 and seeds:
        s = seeds[rng.randrange(len(seeds))]
        for _ in range(rng.choice([1, 1, 2, 3, 5, 8])):
            op = rng.random()
            i = rng.randrange(len(s) + 1)
            if op < 0.5:
                s = s[:i] + rng.choice(ALPHABET) + s[i:]
            elif op < 0.75 and len(s) > 1:
                j = min(len(s), i + rng.choice([1, 1, 2, 5]))
                s = s[:i] + s[j:]
            elif op < 0.9:
                j = min(len(s), i + rng.choice([3, 8, 20]))
                s = s[:j] + s[i:j] + s[j:]
            else:
                ls = s.split('\n')
                rng.shuffle(ls)
                s = '\n'.join(ls)
        return s
    if mode < 0.8:
        n = rng.choice([0, 1, 2, 3, 5, 8])
        lines = []
        for _ in range(n):
            toks = [rng.choice(ALPHABET + ['word', 'foo_bar', 'a b c']) for _ in range(rng.choice([0, 1, 2, 4, 7]))]
            lines.append(rng.choice([' * ', ' *', '*', '', '   ', 'junk * ', '\t* ']) + rng.choice(['', ' ', '']).join(toks))
        return rng.choice(['/**', '/**', ' /**', '/** foo:', 'int x; /**', '/***', '/*', '/**/']) + rng.choice(['\n', '\r\n', '\r', '']) \
            + rng.choice(['\n', '\n', '\r\n', '\r']).join(lines) + rng.choice(['\n', '\n', '\r\n', '']) + rng.choice([' */', '*/', ' **/', ' */ int y;', 'text */', ''])
    if mode < 0.9:
        big = rng.choice(['(' * rng.choice([50, 300]) + 'x' + ')' * rng.choice([49, 50, 300]),
                          'x' * 10000, '(skip) ' * 30, '((((a))))', ':' * 500, ' ' * 5000 + '(',
                          '(array ' + ' '.join('k%d=v' % i for i in range(500)) + ')'])
        where = rng.choice(['id', 'param', 'desc', 'tag'])
        body = {'id': ' * foo: %s\n', 'param': ' * foo:\n * @p: %s\n', 'desc': ' * foo:\n *\n * %s\n', 'tag': ' * foo:\n *\n * Returns: %s\n'}[where] % big
        return '/**\n' + body + ' */'
    n = rng.choice([1, 5, 30, 200])
    return ''.join(chr(rng.choice([rng.randrange(32), rng.randrange(32, 127), rng.randrange(127, 0x300), rng.randrange(0x4e00, 0x4f00), 42, 47, 40, 41, 58, 10, 13]))
                   for _ in range(n)) if rng.random() < 0.5 else \
        '/**' + ''.join(chr(rng.choice([rng.randrange(1, 127), 42, 40, 41, 58, 64, 10, 13, 32, 32])) for _ in range(n)) + '*/'


def run_scanner_main(R, comments, outpath):
    """the warn-fatal decision of scannermain.scanner_main on the same comments (stubbed source scanner)"""
    from giscanner import scannermain as SM
    lg = C.make_logger(R.MSG)

    class SS(object):
        def get_comments(self):
            return comments

        def get_symbols(self):
            return []

        def get_errors(self):
            return []

    orig = SM.create_source_scanner
    SM.create_source_scanner = lambda options, args: (SS(), [])
    exited, err = False, ''
    try:
        try:
            SM.scanner_main(['g-ir-scanner', '--namespace=Foo', '--nsversion=1.0', '--header-only', '--warn-error', '--quiet',
                             '--output=' + outpath, 'x.h'])
        except SystemExit:
            exited = True
        except Exception as e:      # observation
            err = '%s: %s' % (type(e).__name__, e)
    finally:
        SM.create_source_scanner = orig
    ndiag = sum(1 for c in lg.calls if c[0] != R.MSG.FATAL)
    return dict(checked=not err, exited=exited, ndiag=ndiag), err


def observe(R, rec, outpath):
    """parse [good block, input, good block] of a fictitious file with the real parser"""
    bt, be = rec['before']
    at, ae = rec['after']
    mid = rec['text']
    src = split_lines(mid)
    l1 = rec['l1']
    l2 = l1 + len(split_lines(bt)) + rec['gap']
    l3 = l2 + len(src) + rec['gap']
    comments = [(bt, FILE, l1), (mid, FILE, l2), (at, FILE, l3)]
    blocks, exc, diags, count, shown = R.parse_many(comments)
    for d in diags:
        d['mlen'] = len(d['mline'])
    o = dict(id=rec['id'], stream=rec['stream'], file=FILE, lineno=l2, src=src,
             alone=bool(re.match(r'^\s*/\*\*\s*$', src[0])) if rec['stream'] == 'fuzz' else bool(rec['alone']),
             closealone=bool(re.match(r'^\s*\*+/', src[-1])), current=not DEP_TAG_RE.search(mid), single=bool(rec.get('single')),
             open=rec.get('open', 'alone'), close=rec.get('close', 'alone'), lines=rec.get('lines', []), faults=rec.get('faults', []),
             raised=bool(exc), exc=exc, diags=diags, count=count, shown=bool(shown),
             before=dict(exp=be, got=C.proj_block(blocks.get(be['name']))),
             after=dict(exp=ae, got=C.proj_block(blocks.get(ae['name']))),
             tree=C.proj_block(blocks.get(rec['name'])) if rec.get('name') else dict(C.NOTREE),
             ign=rec.get('ign', []), specdiags=rec.get('specdiags', []),
             hasref=False, refpart='', refdup=False, reftree=dict(C.NOTREE),
             fatal=dict(checked=False, exited=False, ndiag=0))
    if rec.get('ref'):
        rb, rexc, _, _ = R.parse(rec['ref']['text'], FILE, l2)
        o.update(hasref=True, refpart=rec['ref']['part'], refdup=bool(rec['ref']['dup']), reftree=C.proj_block(rb))
    if rec.get('fatal'):
        o['fatal'], err = run_scanner_main(R, comments, outpath)
        if err:
            o['exc'] = (o['exc'] + ' | scanner_main: ' + err).strip(' |')
    return o


def build(R, rng, cases, nfuzz, nfatal):
    """abstract cases + seeded arbitrary strings -> input records (text between two good blocks of a fictitious file)"""
    recs = []
    seen, uniq = set(), []
    for c in cases:
        k = json.dumps([c['lines'], c['open'], c['close']], sort_keys=True)
        if k not in seen:
            seen.add(k)
            uniq.append(c)
    cases = uniq
    pool = [c for c in cases if c['nf'] == 0 and c['complete'] and c['open'] == 'alone' and c['close'] == 'alone']
    if len(pool) < 20:
        raise MachineryError('too few fault-free cases exported (%d)' % len(pool))
    seeds = []
    n = 0
    for ci, case in enumerate(cases):
        if not case['complete'] and case['open'] != 'oneline':
            continue
        if case['open'] == 'opentext' and rng.random() > 0.1:
            continue        # the rider case (text behind the opening token) repeats the whole fault space: keep a tenth
        sub = C.Sub(R.AP, random.Random(rng.randrange(1 << 40)), case, 'safe', 'M%d' % ci)
        lay = C.draw_layout(random.Random(rng.randrange(1 << 40)), rng.randrange(8))
        rd = C.render(case, sub, lay)
        ign = {}
        for part, aid in case['ign']:
            if aid == C.DUP_ID:
                continue        # same NAME as an annotation the part rightly has: judged by the deep comparison below
            tp = 'id' if part == 'id' else sub.pname_exp(part) if part in sub.pnames else part
            ign.setdefault(tp, []).append(sub.ann(part, aid)[2])
        # a rejected CONTINUATION line: reference = the same block cut off just before that line (the part's
        # annotations, options included, must be what they were then)
        ref = None
        part = 'id'
        for k, l in enumerate(case['lines']):
            if l['k'] == 'ident':
                part = 'id'
            elif l['k'] in ('param', 'tag') and l['name'] not in ('attributes', 'renameto'):
                part = l['name']
            if l['k'] == 'text' and l['anns'] and l['af'] in ('unbal', 'dbl', 'empty', 'stray') and case['open'] == 'alone':
                tp = 'id' if part == 'id' else sub.pname_exp(part) if part in sub.pnames else part
                ref = dict(part=tp, text=lay['eol'].join(rd.src[:rd.rel[k]] + [lay['pre'] + '*/']), dup=C.DUP_ID in l['anns'])
        nfaults = case['nf']
        recs.append(dict(id='f%d' % ci, stream='fault', text=rd.text, name=sub.ident_exp, alone=case['alone'] and case['open'] != 'opentext',
                         single=(nfaults == 1), open=case['open'], close=case['close'], lines=case['lines'], faults=case['faults'],
                         ign=[dict(part=p, names=v) for p, v in sorted(ign.items())], specdiags=case['specdiags'], ref=ref,
                         before=good_block(R, rng, pool, 'B%d' % ci), after=good_block(R, rng, pool, 'A%d' % ci),
                         l1=rng.randrange(1, 400), gap=rng.randrange(1, 6), fatal=(n % max(1, len(cases) // nfatal) == 0)))
        n += 1
        if len(seeds) < 400:
            seeds.append(rd.text)
    corpus = [fx['input'] for fx in C.fixtures()]          # upstream's own well-formed and malformed samples
    for path in sorted(glob.glob(os.path.join(C.REPO, 'tests', 'warn', '*.h'))):
        try:
            corpus += [m.group(0) for m in re.finditer(r'(?ms)^[^\n]*?/\*\*.*?\*/', open(path, encoding='utf-8', errors='replace').read())]
        except OSError:
            pass
    seeds += corpus
    for i in range(nfuzz + len(corpus)):
        text = corpus[i] if i < len(corpus) else fuzz_text(rng, seeds)
        recs.append(dict(id='z%d' % i, stream='fuzz', text=text, name='', alone=False, single=False,
                         before=good_block(R, rng, pool, 'B%dz' % i), after=good_block(R, rng, pool, 'A%dz' % i),
                         l1=rng.randrange(1, 400), gap=rng.randrange(1, 6), fatal=(i % max(1, nfuzz // nfatal) == 0)))

    return recs


def run():
    ck = Check(PID, 'model_checking')
    R = C.Runner()
    ck.assumptions += [
        'source lines are delimited by \\n, \\r\\n or \\r (the convention of the parser and of the line numbers handed to it); the comment is given from the beginning of the line on which it opens',
        'a diagnostic points at "the offending text" if its line carries the planted fault, or (once a fault has been planted) is a later @param / tag line blamed for standing where the parser no longer expects it',
        'LineIsFaultLine, CaretInLine and InBlock speak only for blocks whose opening token stands alone on its line; CaretInLine only if no deprecated tag-style annotation (Attributes:, Rename to:, Transfer:, ...) occurs in the text',
        'an exception caught by the catch-all of parse_comment_blocks ("unrecoverable parse error") counts as raised: observe_at is parse_comment_block',
        'the good neighbour blocks use annotations that are valid for their part (they must not be diagnosed themselves)',
        'warn-fatal: scanner_main is run with a stubbed source scanner (header-only, empty symbol list) on the same comments',
    ]
    replay = json.load(open(ck.args.replay))['replay'] if ck.args.replay else None
    recs = []
    if replay is None:
        nfuzz = 2500 if ck.quick else 20000
        nfatal = 120 if ck.quick else 1000
        jobs = []
        with ThreadPoolExecutor(max_workers=max(1, NCPU // 3)) as ex:
            mcs = ['CommentBlock_fault_q.cfg', 'CommentBlock_fault2.cfg'] if ck.quick else ['CommentBlock_fault_q.cfg', 'CommentBlock_fault2.cfg', 'CommentBlock_fault1.cfg']
            if os.environ.get('VERIF_CB_DEV'):
                mcs = []
            for cfg in mcs:
                jobs.append(('mc', ex.submit(ck.tlc_mc, 'CommentBlockMC', cfg, workers=min(6, NCPU), timeout=12000,
                                             label='impl => DiagAtFault, IgnoredNotHalfApplied: all single-fault placements within ' + cfg)))
            if not os.environ.get('VERIF_CB_DEV'):
                jobs.append(('w', ex.submit(ck.tlc_mc, 'CommentBlockMC', 'CommentBlock_w_pos.cfg', workers=min(2, NCPU), timeout=4500,
                                            expect_ok=False, coverage=False,
                                            label='witness: without the known deviation "validate position lost on continuation" DiagAtFault fails')))
            if not ck.quick and not os.environ.get('VERIF_CB_DEV'):
                jobs.append(('mc', ex.submit(ck.tlc_mc, 'CommentBlockMC', 'CommentBlock_fixed_fault.cfg', workers=min(6, NCPU), timeout=12000,
                                             label='the implementation layer as the repaired code would be (per-annotation positions): DiagAtFault without tolerance')))
            for name in ('fx', 'fxu', 'fxv', 'fxd', 'fxe', 'fxr'):     # fxd/fxe/fxr: parentheses faults (also behind a repeated annotation) on continuation lines of identifier / @param / Returns       # exhaustive: every single-fault placement in small models; unknown / kv / deprecated spelling x continuation lines
                jobs.append(('x', ex.submit(export, ck, name, min(3, NCPU))))
            jobs.append(('x', ex.submit(export, ck, 'fpsim', min(3, NCPU), 'num=%d' % (120 if ck.quick else 800))))   # malformed annotation fields among several annotations
            jobs.append(('x', ex.submit(export, ck, 'fsim', min(3, NCPU), 'num=%d' % (330 if ck.quick else 2500))))
            cases = []
            for kind, f in jobs:
                r = f.result()
                if kind == 'x':
                    cases += r
                elif kind == 'w':
                    ck.notes.append('witness CommentBlock_w_pos.cfg: TLC reports %s' % (r.get('violated') or r.get('error') or 'no violation'))
        ck.cov['exhaustive'] = True
        recs = build(R, ck.rng, cases, nfuzz, nfatal)
    else:
        recs = [replay]

    ck.notes.append('phase: TLC model checking + case export done at %.1fs' % (__import__('time').time() - ck.t0))
    obs, by_id = [], {}
    outpath = os.path.join(ck.tmp, 'out.gir')
    for rec in recs:
        rec['before'] = tuple(rec['before'])
        rec['after'] = tuple(rec['after'])
        o = observe(R, rec, outpath)
        obs.append(o)
        by_id[o['id']] = (rec, o)
        ck.count()
        ck.nontrivial((o['stream'], json.dumps([(d['kind'], d['line'] - o['lineno']) for d in o['diags']])))
    ck.notes.append('phase: %d inputs observed at %.1fs' % (len(obs), __import__('time').time() - ck.t0))
    rejected = C.parallel_verdict(ck, 'CommentBlockFaultTrace', [{k: v for k, v in o.items() if k != 'exc'} for o in obs], per=1500)
    ndrift = 0
    drift_kinds = {}
    for oid, clause, detail in rejected:
        rec, o = by_id[oid]
        if clause.startswith('DRIFT:'):
            ndrift += 1
            drift_kinds[detail] = drift_kinds.get(detail, 0) + 1
            continue
        fk, dk, where = (detail.split('/') + ['', '', ''])[:3]
        if where in ('nopos', 'closetext'):
            sig = dict(clause=clause, where=where)          # one root cause each, whatever the input
        elif rec['stream'] == 'fuzz':
            sig = dict(clause=clause, stream='fuzz', kind=dk, where=where)
        else:
            sig = dict(clause=clause, stream='fault', fault=fk, kind=dk, where=where)
        lines = ['%4d| %s' % (o['lineno'] + i, l) for i, l in enumerate(o['src'][:40])]
        dl = ['  %s %s:%s kind=%s marker=%s "%s"' % (d['type'], d['file'] if d['hasfile'] else '<none>', d['line'] if d['hasline'] else '<none>',
                                                    d['kind'], (d['mpos'], d['mline'][:60]) if d['hasmarker'] else None, d['text'][:70]) for d in o['diags'][:8]]
        msg = '%s: clause %s rejected (%s)%s\n--- input (file %s)\n%s\n--- diagnostics (count=%d)\n%s' % (
            oid, clause, detail, ('\n--- exception: ' + o['exc']) if o.get('exc') else '', FILE, '\n'.join(lines)[:3000], o['count'], '\n'.join(dl))
        ck.violation(sig, msg, rec)
    if ndrift:
        ck.notes.append('DRIFT: on %d inputs the modelled parser logs other (line, kind) pairs than the real one, by planted fault: %s' % (
            ndrift, json.dumps(drift_kinds, sort_keys=True)))
    nf = sum(1 for o in obs if o['stream'] == 'fault')
    ck.cov['rule'] = ('inputs = faulty (model, layout, fault placement) cases exported by TLC (%d) + arbitrary strings incl. the upstream fixtures (%d), each parsed '
                      'between two good blocks; non-trivial/distinct = distinct (stream, diagnostic kinds and relative lines) outcomes' % (nf, len(obs) - nf))
    for o in [x for x in obs if x['diags']][:2]:
        ck.sample(dict(id=o['id'], src=o['src'][:12], diags=[(d['kind'], d['line']) for d in o['diags']], lineno=o['lineno']))
    return ck.finish()


if __name__ == '__main__':
    main_wrapper(PID, run)

"""C10 — well-formed GTK-Doc comment blocks are parsed exactly (incl. writer round trip).

tla/CommentBlock.tla: generator (grammar + layout freedom) in lock step with the line-class state
machine transcribed from parse_comment_block; TLC proves RoundTrip / WriterFix for all models and
layouts within the bound (CommentBlockMC), exports (model, layout) cases exhaustively and by balanced
random walks beyond the bound (CommentBlockCases); every case is rendered into comment text in several
concrete layouts the abstract layout leaves free, with annotation / text content drawn from the full
vocabulary of annotationparser; the REAL parser's tree and parse(write(parse(x))) are judged by TLC
(CommentBlockTrace), clause by clause.  The upstream XML fixtures are extra cases.
"""
import json, os, random
from concurrent.futures import ThreadPoolExecutor

from ..common import Check, MachineryError, main_wrapper, NCPU
from .. import cblock as C

PID = 'C10'
MC_QUICK = ['CommentBlock_ident.cfg', 'CommentBlock_tagdesc.cfg', 'CommentBlock_tags.cfg']
MC_THOROUGH = ['CommentBlock_ident.cfg', 'CommentBlock_tagdesc.cfg', 'CommentBlock_tags.cfg', 'CommentBlock_desc.cfg',
               'CommentBlock_params.cfg', 'CommentBlock_tags4.cfg']
EXPORT_QUICK = ['x_ident', 'x_param', 'x_desc', 'x_tag']
EXPORT_THOROUGH = ['x_ident', 'x_param', 'x_desc', 'x_tag', 't_param', 't_tag']


def parse_cases(out):
    cases = []
    for line in out.split('\n'):
        if line.startswith('"{'):
            cases.append(json.loads(json.loads(line)))
    return cases


def export(ck, name, workers, simulate=None):
    dev = os.environ.get('VERIF_CB_DEV')        # development only (mutation experiments): reuse TLC's exported cases
    cache = os.path.join(dev, 'cases-%s-%s-%d.json' % (name, simulate, ck.seed)) if dev else None
    if cache and os.path.exists(cache):
        ck.notes.append('DEV: cases of %s taken from %s' % (name, cache))
        return json.load(open(cache))
    r = ck.tlc_mc('CommentBlockCases', 'CommentBlockCases_%s.cfg' % name, workers=workers, timeout=6000, coverage=False,
                  simulate=simulate, depth=60 if simulate else None, label='case export ' + name)
    cases = parse_cases(r['out'])
    if not cases:
        raise MachineryError('TLC exported no cases from %s:\n%s' % (name, r['out'][-2000:]))
    for c in cases:
        c['origin'] = name
    if cache:
        json.dump(cases, open(cache, 'w'))
    return cases


def observe(R, case, subseed, layouts, mode='full'):
    """one record: the case under one content substitution, observed in several concrete layouts"""
    sub = C.Sub(R.AP, random.Random(subseed), case, mode)
    exp = C.expected_tree(case, sub)
    variants = {}
    texts = {}
    for li, lay in enumerate(layouts):
        rd = C.render(case, sub, lay)
        block, exc, diags, cnt = R.parse(rd.text, 'test.c', 1)
        got = C.proj_block(block)
        if block is not None:
            rt, rtok, wtext = R.roundtrip(block, indent=(li % 3 != 2))
        else:
            rt, rtok, wtext = dict(C.NOTREE), False, ''
        key = json.dumps([got, rt, rtok, bool(exc)], sort_keys=True)
        if key not in variants:
            variants[key] = dict(lay='L%d' % li, n=0, raised=bool(exc), got=got, rtok=rtok, rt=rt)
            texts['L%d' % li] = (rd.text, exc, wtext, diags)
        variants[key]['n'] += 1
    return exp, list(variants.values()), texts


def run():
    ck = Check(PID, 'model_checking')
    R = C.Runner()
    ck.assumptions += [
        'statement precondition encoded in the generator: tokens inside an annotation separated by single spaces; descriptions do not begin with a parenthesis',
        'None and the empty string are the same description / value / option list (the convention of upstream\'s expected trees in tests/scanner/annotationparser)',
        'empty lines inside descriptions carry at most the one blank after the asterisk; indentation of description text is written with spaces',
        'values: Since/Deprecated take dotted numbers, Stability one of stable|unstable|private|internal (any case, reported capitalised); description text after a value-less Since/Deprecated does not begin with a digit',
        'deprecated spellings (in-out) -> inout and (attribute k v) -> (attributes k=v) belong to the vocabulary; the comment handed to the parser ends with its end token (as the C lexer delivers it)',
    ]
    replay = json.load(open(ck.args.replay))['replay'] if ck.args.replay else None
    recs = []          # (record for TLC, replay object, texts)
    nlay = 4
    nsub = 1 if ck.quick else 2

    if replay is None:
        mcs = MC_QUICK if ck.quick else MC_THOROUGH
        exps = EXPORT_QUICK if ck.quick else EXPORT_THOROUGH
        simn = 200 if ck.quick else 2000
        jobs = []
        with ThreadPoolExecutor(max_workers=max(1, NCPU // 3)) as ex:
            for cfg in ([] if os.environ.get('VERIF_CB_DEV') else mcs):
                jobs.append(('mc', ex.submit(ck.tlc_mc, 'CommentBlockMC', cfg, workers=min(3, NCPU), timeout=7500,
                                             label='impl => RoundTrip, WriterFix: all models x layouts within ' + cfg)))
            if not os.environ.get('VERIF_CB_DEV'):
                jobs.append(('w', ex.submit(ck.tlc_mc, 'CommentBlockMC', 'CommentBlock_w_action.cfg', workers=min(2, NCPU), timeout=4500,
                                            expect_ok=False, coverage=False,
                                            label='witness: with the writer as it is (ACTION:Class:name written out) WriterFix fails')))
                if not ck.quick:
                    jobs.append(('mc', ex.submit(ck.tlc_mc, 'CommentBlockMC', 'CommentBlock_fixed_ident.cfg', workers=min(3, NCPU), timeout=7500,
                                                 label='the implementation layer as the repaired writer would be: RoundTrip, WriterFix without tolerance')))
            for name in exps:
                jobs.append(('x', ex.submit(export, ck, name, min(2, NCPU))))
            jobs.append(('x', ex.submit(export, ck, 'sim', min(3, NCPU), 'num=%d' % simn)))   # number of walks = num x workers
            cases = []
            for kind, f in jobs:
                r = f.result()
                if kind == 'x':
                    cases += r
                elif kind == 'w':
                    ck.notes.append('witness CommentBlock_w_action.cfg: TLC reports %s' % (r.get('violated') or r.get('error') or 'no violation'))
        ck.cov['exhaustive'] = True
        seen = set()
        uniq = []
        for c in cases:
            k = json.dumps([c['lines'], c['open'], c['close']], sort_keys=True)
            if k not in seen:
                seen.add(k)
                uniq.append(c)
        cases = uniq
        rng = ck.rng
        for ci, case in enumerate(cases):
            if case['nf'] or not case['complete'] or not case['alone']:
                continue
            for si in range(nsub):
                subseed = rng.randrange(1 << 40)
                lr = random.Random(subseed ^ 0x5a5a)
                layouts = [C.draw_layout(lr, lr.randrange(8)) for _ in range(nlay)]
                recs.append(dict(kind='case', id='c%d.%d' % (ci, si), case=case, subseed=subseed, layouts=layouts, abs=(si == 0)))
        for fx in C.fixtures():
            recs.append(dict(kind='fixture', id='fx:' + fx['id'], fixture=fx))
    else:
        recs = [replay]

    ck.notes.append('phase: TLC model checking + case export done at %.1fs' % (__import__('time').time() - ck.t0))
    obs, by_id = [], {}
    nfix = nfix_c10 = nfix_abs = 0
    for rec in recs:
        if rec['kind'] == 'case':
            case = rec['case']
            exp, variants, texts = observe(R, case, rec['subseed'], rec['layouts'])
            form = case['model']['name']
            o = dict(id=rec['id'], src='tlc', form=form, exp=exp, variants=variants, hasabs=bool(rec['abs']),
                     lines=case['lines'] if rec['abs'] else [], model=case['model'] if rec['abs'] else dict(C.NOTREE))
            ck.count(sum(v['n'] for v in variants))
            ck.nontrivial(json.dumps(exp, sort_keys=True))
        else:
            fx = rec['fixture']
            nfix += 1
            if fx['messages'] or not fx['exp']['present']:
                continue        # not a well-formed block (diagnostics / "not a GTK-Doc block" expected): a C11 case
            nfix_c10 += 1
            block, exc, diags, cnt = R.parse(fx['input'], 'test.c', 1)
            got = C.proj_block(block)
            exp = C.settle_kinds(json.loads(json.dumps(fx['exp'])), got)
            if block is not None:
                rt, rtok, wtext = R.roundtrip(block)
            else:
                rt, rtok, wtext = got, True, ''
            variants = [dict(lay='fixture', n=1, raised=bool(exc), got=got, rtok=rtok, rt=rt)]
            texts = {'fixture': (fx['input'], exc, wtext, diags)}
            form = 'fixture'
            ab = C.abstract_fixture(fx['input'], exp)      # line-class abstraction: the spec's own parser vs upstream's intent (DRIFT only)
            nfix_abs += 1 if ab else 0
            o = dict(id=rec['id'], src='fixture', form=form, exp=exp, variants=variants, hasabs=bool(ab),
                     lines=ab[0] if ab else [], model=ab[1] if ab else dict(C.NOTREE))
            ck.count()
            ck.nontrivial(fx['id'])
        obs.append(o)
        by_id[o['id']] = (rec, texts)

    ck.notes.append('phase: %d records observed at %.1fs' % (len(obs), __import__('time').time() - ck.t0))
    rejected = C.parallel_verdict(ck, 'CommentBlockTrace', obs, per=1500)
    ndrift = 0
    for oid, clause, detail in rejected:
        rec, texts = by_id[oid]
        if clause.startswith('DRIFT:'):
            ndrift += 1
            if ndrift <= 10:
                ck.notes.append('DRIFT %s %s: the spec\'s own parser does not yield the model/expected tree (spec bug or upstream intent differs)' % (oid, detail))
            continue
        form, _, lay = detail.partition('/')
        text, exc, wtext, diags = texts.get(lay, ('', '', '', []))
        cls = clause
        if clause == 'WriterRoundTrip' and (form == 'action' or text.find('|') >= 0 and 'ACTION:' in wtext):
            cls = 'action-identifier'
        if rec['kind'] == 'fixture':
            cls = rec['fixture']['id']
        sig = dict(clause=clause, cls=cls, src='fixture' if rec['kind'] == 'fixture' else 'tlc')
        msg = '%s: clause %s rejected (%s)\n--- comment text\n%s\n--- written by GtkDocCommentBlockWriter\n%s%s' % (
            oid, clause, detail, text, wtext, ('\n--- exception: ' + exc) if exc else '')
        ck.violation(sig, msg, rec)
    if ndrift:
        ck.notes.append('%d DRIFT notes in total' % ndrift)
    ck.cov['rule'] = ('cases = (model, layout) pairs exported by TLC from CommentBlockCases (exhaustive per grammar region + balanced random walks '
                      'beyond the bound), each under %d content substitutions x %d concrete layouts, plus upstream fixtures without expected messages '
                      '(%d of %d); evaluations = comment texts parsed; non-trivial/distinct = distinct expected trees' % (nsub, nlay, nfix_c10, nfix))
    ck.cov['fixtures'] = dict(total=nfix, wellformed=nfix_c10, abstracted_for_spec_parser=nfix_abs)
    for o in obs[:1] + obs[len(obs) // 2:len(obs) // 2 + 1]:
        rec, texts = by_id[o['id']]
        ck.sample(dict(id=o['id'], text=list(texts.values())[0][0], expected=o['exp']))
    return ck.finish()


if __name__ == '__main__':
    main_wrapper(PID, run)

"""C18 — the dependency-GIR cache never serves stale or torn data.

1. TLC model-checks tla/Cache.tla (every interleaving of the file-system steps of 2-3 scanner
   processes, crash points, source edits, rename/copy move, fine/coarse clock, version purge).
2. TLC behaviours (witness counterexamples, -simulate runs) are replayed against the REAL
   giscanner.cachestore/Transformer._parse_include under harness/sched.py (S->C).
3. Random schedules are executed the same way (C->S).
4. Every recorded trace is validated by TLC against tla/CacheTrace.tla (implementation layer +
   property layer in every state) and tla/CacheProp.tla (API level).  Verdicts come from TLC only.
"""
import glob, json, os, re, shutil, sys, tempfile

from ..common import Check, MachineryError, main_wrapper, TLA_DIR

PID = 'C18'
MC_QUICK = ['Cache_q1', 'Cache_q2', 'Cache_q3', 'Cache_q4']
MC_THOROUGH = ['Cache_t1', 'Cache_t3']
WITNESS = {   # cause -> (cfg producing a counterexample of "no such witness", needs 3 processes?)
    'parse_edit_store': 'Cache_w_pes',
    'copy_window': 'Cache_w_copy',
    'equal_mtime': 'Cache_w_eq',
    'stat_by_name': 'Cache_w_byname',
    'stamp_first': 'Cache_w_stampfirst',   # what-if: stamp written before the purge, first new-version process killed
    # coverage witnesses (no property violation expected): a cache hit, a purge that finds an entry,
    # a truncated entry being read and discarded, a copystat whose name vanished
    'cov_dataload': 'Cache_w_data',
    'cov_purge': 'Cache_w_purge',
    'cov_broken': 'Cache_w_broken',
    'cov_copystat_lost': 'Cache_w_lost',
}
ACT_RE = re.compile(r'<(\w+?)(?:\((\d+)\))? line')


def schedule_from_states(states):
    """[(action text, vars)] -> [(action, p, clock_after)]"""
    sched = []
    for head, vars_ in states:
        m = ACT_RE.search(head)
        if not m or m.group(1) in ('Initial', 'Init'):
            continue
        clk = vars_.get('clock')
        sched.append((m.group(1), int(m.group(2) or 0), int(clk) if clk is not None else None))
    return sched


def parse_states(text, marker):
    """split TLC output (error trace: 'State n: <...>'; simulate file: '\\* <...>' + STATE_n ==)"""
    out = []
    if marker == 'error':
        parts = re.split(r'^State \d+: ', text, flags=re.M)[1:]
    else:
        parts = re.split(r'^\\\* ', text, flags=re.M)[1:]
    for part in parts:
        head, _, rest = part.partition('\n')
        m = re.search(r'^/\\ clock = (\d+)', rest, flags=re.M)
        out.append((head, {'clock': m.group(1)} if m else {}))
    return out


def run():
    from .. import sched as S
    ck = Check(PID, 'model_checking')
    a = ck.args
    ck.assumptions += [
        'giscanner._giscanner stubbed (not used by the cache); GIRParser replaced by a version-carrying fake: the cache treats parse results as opaque picklable data',
        'shutil.move is executed step-wise by the harness following CPython 3.12 shutil.move/copy2 (rename; on EXDEV open-truncate, write, copystat by name, unlink)',
        'a truncated pickle never unpickles successfully (real pickles are used, so this is also observed)',
        'the dependency GIR is replaced atomically by an edit and distinct versions get distinct mtimes unless the coarse-clock configuration says otherwise',
        'one cache entry; the .cache-version stamp file replacement is taken as atomic',
    ]
    replay_only = None
    if a.replay:
        replay_only = json.load(open(a.replay))['replay']

    # ------------------------------------------------------------ 1. model checking
    if not replay_only:
        for cfg in MC_QUICK + ([] if ck.quick else MC_THOROUGH):
            r = ck.tlc_mc('CacheMC', cfg + '.cfg', timeout=900, label='exhaustive: all invariants incl. NoStaleUnexplained')
        ck.cov['exhaustive'] = True

    traces = []     # dict(id, mixed, events, api, sched_src)

    def execute(tid, schedule, nprocs, svers, coarse, rng=None, src=''):
        root = tempfile.mkdtemp(prefix='w-', dir=ck.tmp)
        try:
            w, procs, info = S.run_schedule(root, schedule, nprocs=3, svers=svers, coarse=coarse, random_rng=rng)
            api = []
            for p, pr in procs.items():
                for i, rec in enumerate(pr.api):
                    if 'k' not in rec and not rec.get('raised'):
                        continue      # load() never returned (process killed)
                    ino = rec.get('ino', 0)
                    api.append(dict(id='%s/p%d' % (tid, p), p=p, startVer=rec['startVer_at_call'],
                                    endVer=rec.get('endVer', w.srcVer), k=rec.get('k', 'raised'), ver=rec.get('ver', 0),
                                    raised=bool(rec.get('raised')), stampStale=bool(w.stamp_stale.get(ino)),
                                    statMtime=rec.get('statMtime', -1), srcStatMtime=rec.get('srcStatMtime', -1),
                                    mustPurge=bool(rec.get('mustPurge')), checkedAt=rec.get('checkedAt', 0),
                                    inoPutAt=w.put_at.get(ino, 0)))
            errs = {p: repr(pr.error) for p, pr in procs.items() if pr.error is not None}
            traces.append(dict(id=tid, svkey='%d%d%d' % (svers[1], svers[2], svers[3]), coarse=coarse,
                               events=w.events, api=api, errors=errs, mismatch=info['mismatch'], src=src,
                               schedule=[list(x) for x in (schedule or info.get('schedule') or [])]))
        finally:
            shutil.rmtree(root, ignore_errors=True)
        ck.count()

    SAME = {1: 1, 2: 1, 3: 1}
    MIXED = {1: 1, 2: 1, 3: 2}
    MIXED2 = {1: 1, 2: 2, 3: 1}
    MIXED3 = {1: 1, 2: 2, 3: 2}     # two processes of the new scanner version: the second trusts the stamp of the first

    if replay_only:
        r = replay_only
        execute(r['id'], [tuple(x) for x in r['schedule']] if r.get('schedule') else None, 3,
                {int(k): v for k, v in r['svers'].items()}, r['coarse'])
    else:
        # -------------------------------------------------------- 2a. witnesses of the known root causes
        for cause, cfg in WITNESS.items():
            r = ck.tlc_mc('CacheMC', cfg + '.cfg', timeout=600, expect_ok=False, coverage=False,
                          label='witness search: a stale load with cause ' + cause)
            if not r.get('violated'):
                raise MachineryError('model has no witness for cause %s (cfg %s): %s' % (cause, cfg, r.get('error')))
            sched_ = schedule_from_states(parse_states(r['out'], 'error'))
            execute('witness-' + cause, sched_, 3, MIXED if cause == 'cov_purge' else MIXED3 if cause == 'stamp_first' else SAME,
                    coarse=(cause == 'equal_mtime'),
                    src='TLC counterexample ' + cfg)
        # -------------------------------------------------------- 2b. simulated behaviours of the model
        nsim = 120 if ck.quick else 1500
        simdir = os.path.join(ck.tmp, 'sim')
        os.makedirs(simdir)
        r = ck.tlc_mc('CacheMC', 'Cache_sim.cfg', timeout=900, coverage=False, workers=1,
                      simulate='file=%s/tr,num=%d' % (simdir, nsim), depth=60, label='simulation for S->C replay')
        for i, f in enumerate(sorted(glob.glob(simdir + '/tr_*'))):
            sched_ = schedule_from_states(parse_states(open(f).read(), 'sim'))
            execute('sim-%d' % i, sched_, 3, MIXED, coarse=True, src='tlc -simulate Cache_sim.cfg')
        shutil.rmtree(simdir, ignore_errors=True)
        # -------------------------------------------------------- 2c. every crash point / pause point, sequentially
        # p1 runs alone to the end (stores an entry), p2 runs k primitives and is then killed (or merely
        # paused), p3 runs alone to the end, p2 (if alive) finishes: the quantifier's "all crash points
        # inside a store" and "wherever a writer is killed", also across a scanner-version change
        def prims_of(sv, copy):
            root = tempfile.mkdtemp(prefix='w-', dir=ck.tmp)
            try:
                w, procs, info = S.run_schedule(root, [('run', 1, None)] * 40 + [('run', 2, None)] * 40, nprocs=3, svers=sv,
                                                coarse=False, complete=False)
                return sum(1 for e in w.events if e['p'] == 2 and e['act'] not in ('Ret', 'Raise'))
            finally:
                shutil.rmtree(root, ignore_errors=True)

        for sv, tag in ((SAME, 'same'), (MIXED3, 'mixed3'), (MIXED2, 'mixed2')):
            n2 = prims_of(sv, False)
            for k in range(0, n2 + 1, 1 if (not ck.quick or sv is MIXED3) else 2):
                for mode in ('crash', 'pause'):
                    sched_ = [('run', 1, None)] * 40 + [('run', 2, None)] * k
                    if mode == 'crash':
                        sched_ += [('Crash', 2, None)]
                    sched_ += [('run', 3, None)] * 40
                    execute('sweep-%s-%s-%d' % (tag, mode, k), sched_, 3, sv, coarse=False,
                            src='directed: p1 alone, p2 %s after %d primitives, p3 alone' % (mode, k))
        # -------------------------------------------------------- 3. random schedules on the real code
        nrand = 300 if ck.quick else 6000
        for i in range(nrand):
            sv = [SAME, MIXED, SAME, MIXED2, MIXED3][i % 5]
            execute('rand-%d' % i, None, 3, sv, coarse=(i % 3 == 0), rng=ck.rng, src='random scheduler seed %d' % ck.seed)

    # ------------------------------------------------------------ 4. verdicts by TLC
    by_id = {t['id']: t for t in traces}
    verdicts = []
    groups = {}     # the trace spec takes the scanner-version assignment from the environment
    for t in traces:
        groups.setdefault(t['svkey'], []).append(t)
    for key, group in sorted(groups.items()):
        obs = [dict(id=t['id'], events=t['events']) for t in group]
        rej, _ = ck.tlc_verdict('CacheTrace', obs, env={'SVER1': key[0], 'SVER2': key[1], 'SVER3': key[2]},
                                chunk=400, timeout=900)
        verdicts += rej
    api = [r for t in traces for r in t['api']]
    api_rej = []
    if api:
        api_rej, _ = ck.tlc_verdict('CacheProp', api, chunk=50000)

    drifted = {}
    for v in verdicts:
        tid, clause, detail = v
        if clause == 'DRIFT':
            drifted[tid] = detail
    for tid, clause, detail in verdicts:
        t = by_id[tid]
        if clause == 'DRIFT':
            ck.notes.append('DRIFT %s at event %s (%s)' % (tid, detail, t['src']))
            continue
        sig = dict(clause=clause, cause=detail)
        ck.violation(sig, 'trace %s (%s): %s violated, cause=%s' % (tid, t['src'], clause, detail), replay_of(t))
    for rid, clause, detail in api_rej:
        tid = rid.rsplit('/', 1)[0]
        t = by_id[tid]
        if clause == 'NoStale' and tid not in drifted:
            continue      # the implementation-level verdict (with its root cause) is authoritative
        sig = dict(clause=clause, cause=detail, level='api')
        ck.violation(sig, 'trace %s (%s): API-level %s violated (%s) by load() of %s' % (tid, t['src'], clause, detail, rid),
                     replay_of(t))
    ndrift = len(drifted)
    ck.cov['drifted_traces'] = ndrift
    ck.cov['rule'] = ('a trace = one execution of 3 real scanner processes under one schedule; non-trivial = at least one '
                      'load() returned data or an entry was replaced while a descriptor was open; distinct by event sequence')
    seen = set()
    for t in traces:
        key = tuple((e['act'], e['p']) for e in t['events'])
        if key in seen:
            continue
        seen.add(key)
        if any(e['act'] == 'LRead' for e in t['events']):
            ck.nontrivial(hash(key))
    for t in traces[:2]:
        ck.sample(dict(id=t['id'], src=t['src'], events=['%s(%d)' % (e['act'], e['p']) for e in t['events']],
                       load_results=t['api']))
    if ndrift and ndrift * 5 > len(traces):
        ck.notes.append('more than 20%% of the traces drifted from the implementation layer: the code no longer follows tla/Cache.tla')
    return ck.finish()


def replay_of(t):
    k = t['svkey']
    return dict(id=t['id'], schedule=t['schedule'], svers={'1': int(k[0]), '2': int(k[1]), '3': int(k[2])},
                coarse=t['coarse'], events=t['events'], api=t['api'], errors=t['errors'])


if __name__ == '__main__':
    main_wrapper(PID, run)

"""C12 — runtime GObject type data is merged faithfully into the GIR.

tla/GDump.tla: property layer (clauses over world x reported dump x emitted GIR) + implementation-shaped layer (one
action per pass of GDumpParser.parse / MainTransformer); TLC checks impl => property over six exhaustive families
(GDumpMC: parent chains, flag words, pairing combinations, signal when x flags, error quarks, interface lists) and
three what-if configurations that must FAIL (the deviations of the real code).  GDumpCases exports exactly those
worlds; they and seeded random bigger worlds are rendered into raw symbols (symgen) + the dump document an emulated
introspection binary writes for the functions the REAL GDumpParser.init_parse asks about, run through the real
GDumpParser.parse + MainTransformer + IntrospectablePass + GIRWriter, projected (harness/gdumpgen.py) and judged by
TLC (GDumpTrace) clause by clause.  Python never decides.
"""
import json, os, multiprocessing
from concurrent.futures import ThreadPoolExecutor

from ..common import Check, MachineryError, main_wrapper, REPO, stable_hash, NCPU

PID = 'C12'
FAMILIES = ['chain', 'flags', 'pair', 'sig', 'quark', 'iface']
WITNESS = [('barepointer', 'known finding, code as is judged strictly: a pointer type without a same-named struct/union is dropped, '
                           'its get-type function kept'),
           ('emptydef', 'repaired defect b4d5363 switched back on: a reported empty-string default value is dropped by the writer'),
           ('quarkfloat', 'repaired defect 3cb096a switched back on: an error-quark function moved into a class is not paired '
                          'with its enumeration')]
LABELS = {'chain': 'parent chains of length <= 4 over {registered, declared-only, hidden, included} ancestors',
          'flags': 'every flag word 0..255 x high bits x (type, default value)',
          'pair': 'runtime kind x same-named declaration x Class/Iface/Interface struct x form of the get-type function',
          'sig': 'signal when x {no-recurse, detailed, action, no-hooks} x return type x parameter lists',
          'quark': 'two enumerations (declared/registered/absent) x their error-quark functions x lone quark x class with the same prefix',
          'iface': 'implemented-interface lists x prerequisite lists over {registered, included, hidden}'}

_S = None
_G = None


def _init_worker():
    global _S, _G
    from .. import scan as S
    from .. import gdumpgen as G
    _S, _G = S, G


def observe(item):
    """(id, world) -> observation record for GDumpTrace (runs the real scanner)."""
    oid, w = item
    if _S is None:
        _init_worker()
    r = _G.run_world(_S, w)
    g = _G.project(_S, r['xml']) if r['xml'] else _G.EMPTY_G
    return dict(id=oid, w=w, asked=r['asked'], askedQ=r['askedQ'], dump=r['dump'], dumpQ=r['dumpQ'], g=g,
                crashed=r['crashed']), (r.get('exc') or '')


def summarize(w):
    return dict(decls=['%s %s' % (d['k'], d['c']) + ('(%s,%d)' % (d['ret'], d['np']) if d['k'] == 'fn' else '') for d in w['decls']],
                reg=['%s %s via %s parents=%s ifaces=%s props=%s sigs=%s' % (
                    t['k'], t['gt'], t['fn'], ','.join(t['parents']), ','.join(t['ifaces']),
                    [(p['name'], p['ty'], p['hi'] * 65536 + p['lo'], p['def'] if p['hasDef'] else None) for p in t['props']],
                    [(s['name'], s['when'], s['ret'], s['params']) for s in t['sigs']]) for t in w['reg']],
                quarks=w['quarks'], ann=w['ann'])


def run():
    ck = Check(PID, 'model_checking')
    from .. import scan as S
    from .. import gdumpgen as G
    ck.assumptions += [
        'symgen conventions of harness/scan.py (typedef struct/union/enum, function, function-pointer members, callback typedefs)',
        'girepository/gdump.c (the producer of the dump) is NOT executed: it needs a compiled GObject library.  Its output format is '
        'taken from reading it (harness/gdumpgen.py render_dump), pinned by a golden document embedded in the harness, and every '
        'element/attribute name the renderer writes is compared with the format strings of the current gdump.c at run time',
        'the emulated binary answers exactly for the functions the real GDumpParser.init_parse() lists (get-type: / error-quark: lines), '
        'each GType once, interfaces without the implicit GObject prerequisite, flags printed with %d of a 32-bit word',
        'names are CamelCase words with the trivial underscore form (FooPadError <-> pad_error); identifier-prefix stripping and '
        'CamelCase->underscore conversion are C04 territory and are carried by the world, not re-derived',
        '"actually known" ancestor / interface / type = its GType name is carried by an element of the emitted GIR or registered by an '
        'included namespace (synthetic GLib/GObject/Gio GIRs of harness/data/gir)',
        'no comment blocks except type-level (ref-func ...) annotations: property/signal annotations that override dump data are C01/C03',
        'implementation layer: a class prefix that is a proper word-prefix of the quark function base (foo_port_io_error_quark vs class '
        'FooPort) also floats the function; only the exact-prefix case is modelled (the property layer judges both)']
    problems = G.check_producer_format(REPO)
    if problems:
        raise MachineryError('the dump renderer no longer matches girepository/gdump.c: ' + '; '.join(problems))
    replay = json.load(open(ck.args.replay))['replay'] if ck.args.replay else None

    items = []           # (id, world)
    src = {}
    mc_futures = []
    size = 'q' if ck.quick else 't'
    mc_workers = min(2, NCPU)
    ex = ThreadPoolExecutor(max(1, min(8, NCPU // 2)))      # TLC jobs (model checking: 2 workers each; verdicts: 1 worker)
    skip_mc = bool(os.environ.get('C12_SKIP_MC'))       # debugging aid (mutation experiments): cases still come from TLC
    if not replay:
        cf = os.path.join(ck.tmp, 'cases.json')
        exp = ex.submit(ck._tlc, 'GDumpCases.tla', 'GDumpCases_%s.cfg' % size, [], dict(CASES_FILE=cf),
                        6000, 1)
        for fam in ([] if skip_mc else FAMILIES):
            mc_futures.append(ex.submit(ck.tlc_mc, 'GDumpMC', 'GDump_%s_%s.cfg' % (fam, size), workers=mc_workers, timeout=6000,
                                        coverage=False, label=LABELS[fam]))
        for wname, what in ([] if skip_mc else WITNESS):
            mc_futures.append(ex.submit(ck.tlc_mc, 'GDumpMC', 'GDump_w_%s.cfg' % wname, workers=1, timeout=6000, coverage=False,
                                        expect_ok=False, label='what-if (must fail): ' + what))
        # seeded random worlds beyond the exhaustive bound
        rng = ck.rng
        for i in range(250 if ck.quick else 4000):
            w = G.random_world(rng)
            items.append(('rand-%d' % i, w))
            src['rand-%d' % i] = 'random'
        r = exp.result()
        if not os.path.exists(cf):
            raise MachineryError('GDumpCases exported nothing:\n' + r['out'][-2000:])
        cases = json.load(open(cf))
        for fam in FAMILIES:
            ws = cases[fam]
            ws.sort(key=lambda x: json.dumps(x, sort_keys=True))
            for i, w in enumerate(ws):
                items.append(('%s-%d' % (fam, i), w))
                src['%s-%d' % (fam, i)] = 'tlc:' + fam
            ck.cov.setdefault('tlc_cases', {})[fam] = len(ws)
    else:
        items = [(replay['id'], replay['w'])]
        src[replay['id']] = replay.get('src', 'replay')

    # ------------------------------------------------------------ run the real scanner
    if len(items) > 50:
        with multiprocessing.Pool(max(1, min(6, NCPU - mc_workers)), initializer=_init_worker) as pool:
            results = pool.map(observe, items, chunksize=50)
    else:
        results = [observe(it) for it in items]
    obs = [o for o, _ in results]
    excs = {o['id']: e for o, e in results if e}
    by_id = {o['id']: o for o in obs}
    for o in obs:
        ck.count()
        if o['dump'] or o['dumpQ']:
            ck.nontrivial(stable_hash(o['w']))

    # ------------------------------------------------------------ TLC judges (parallel chunks)
    CH = 400
    parts = [obs[k:k + CH] for k in range(0, len(obs), CH)]

    def verdict(arg):
        k, part = arg
        tf = os.path.join(ck.tmp, 'obs-%d.json' % k)
        vf = os.path.join(ck.tmp, 'verdict-%d.json' % k)
        with open(tf, 'w') as f:
            json.dump(part, f)
        r = ck._tlc('GDumpTrace.tla', 'GDumpTrace.cfg', [], dict(TRACE_FILE=tf, VERDICT_FILE=vf), 6000, 1)
        if not os.path.exists(vf):
            raise MachineryError('GDumpTrace produced no verdict:\n%s' % r['out'][-3000:])
        v = json.load(open(vf))
        if v.get('n') != len(part):
            raise MachineryError('GDumpTrace consumed %s of %d observations' % (v.get('n'), len(part)))
        if v.get('illformed'):
            raise MachineryError('ill-formed worlds (generator bug): %s' % v['illformed'][:5])
        os.unlink(tf)
        return [tuple(x) for x in v.get('rejected', [])], v.get('exercised', {}), r['wall_s']

    rejected, exercised = [], {}
    for rej, exd, wall in ex.map(verdict, list(enumerate(parts))):
        rejected += rej
        for c, n in exd.items():
            exercised[c] = exercised.get(c, 0) + n
        ck.cov.setdefault('trace_tlc_wall_s', []).append(wall)
    ck.cov['traces_validated_against_impl'] += len(obs)
    ck.cov['clauses_exercised'] = exercised

    import re
    for f in mc_futures:
        r = f.result()
        m = re.search(r'Finished in (.*?) at', r['out'])
        ck.cov.setdefault('tlc_finished_in', []).append(m.group(1) if m else '?')
    ex.shutdown()
    if not replay:
        for run_ in ck.cov['tlc_runs']:
            if (run_.get('label') or '').startswith('what-if') and not run_.get('violated'):
                raise MachineryError('what-if configuration %s did not fail: the implementation layer no longer contains the deviation' % run_['cfg'])
        ck.cov['exhaustive'] = not skip_mc

    for oid, clause, detail in rejected:
        o = by_id[oid]
        if clause == 'EXTRA':
            ck.cov.setdefault('beyond_statement', {}).setdefault(detail, 0)
            ck.cov['beyond_statement'][detail] += 1
            if len([n for n in ck.notes if n.startswith('BEYOND')]) < 5:
                ck.notes.append('BEYOND-STATEMENT %s: clause %s (not part of C12) does not hold; world %s' % (
                    oid, detail, json.dumps(summarize(o['w']))[:400]))
            continue
        sig = dict(clause=clause, detail=detail)
        text = ('world %s (%s): clause %s rejected (%s)%s\nworld: %s\nasked: %s %s\nemitted (projection): %s' % (
            oid, src.get(oid, ''), clause, detail, (' exception: ' + excs[oid]) if oid in excs else '',
            json.dumps(summarize(o['w'])), o['asked'], o['askedQ'], json.dumps(o['g'])[:900]))
        ck.violation(sig, text, dict(id=oid, src=src.get(oid, ''), w=o['w']))

    dead = [c for c, n in exercised.items() if n == 0]
    if dead and not replay and not ck.violations:      # vacuity: on a green run every clause must have spoken
        raise MachineryError('clauses never exercised (generator bug): %s' % dead)

    ck.cov['rule'] = ('one case = one world (scanned declarations x runtime GType registry) scanned by the real pipeline; cases = the '
                      'worlds TLC model-checked (GDumpCases exports every world of the six families at the tier size: all flag words, all when x flag '
                      'combinations, all chains ...) + seeded random worlds of 3-8 types; '
                      'non-trivial = the dump reported at least one type or quark; distinct by world')
    for o in obs[:1] + obs[-1:]:
        ck.sample(dict(id=o['id'], world=summarize(o['w']), asked=o['asked'], classes=[(c['name'], c['parent'], c['typeStruct'], c['vfuncs'])
                                                                                     for c in o['g']['classes']]))
    return ck.finish()


if __name__ == '__main__':
    main_wrapper(PID, run)

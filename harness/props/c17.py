"""C17 — requiring a namespace loads the right typelib version and its dependencies.

1. TLC model-checks tla/Repository.tla (implementation-shaped layer of girepository.c =>
   property layer of C17) on small universes: version election over directories, dependency
   graphs, missing / mismatching files, odd version names, lazy flag, load-from-memory.
2. S->C: TLC counterexamples ("witness" configurations), TLC -simulate behaviours and the call
   alphabet exported by TLC (all 1- and 2-call histories) are rendered into real typelibs
   (compiled by REPO's own g-ir-compiler from tiny GIRs) in temp directories and executed by
   harness/cdrv/drv_repo.c, ONE fresh process per history.
3. C->S: seeded random worlds (<= 6 directories, <= 30 calls) are executed the same way.
4. Every recorded trace is validated by TLC against tla/RepositoryTrace.tla (property layer with
   the logged results bound, invariants in every state; implementation layer only for DRIFT).
Python renders cases and projects outputs; it never decides.
"""
import glob, json, os, re, shutil, subprocess, sys, threading
from concurrent.futures import ThreadPoolExecutor

from ..common import Check, MachineryError, main_wrapper, TLA_DIR, VERIF, NCPU, tla_to_py, stable_hash

PID = 'C17'
DRV_SRC = os.path.join(VERIF, 'harness', 'cdrv', 'drv_repo.c')
MC_QUICK = ['Repository_q1', 'Repository_q3', 'Repository_q7', 'Repository_q8']
MC_THOROUGH = ['Repository_q1', 'Repository_q2', 'Repository_q3', 'Repository_q4', 'Repository_q5', 'Repository_q6', 'Repository_q7', 'Repository_q8']
# witness configurations: cause/coverage name -> cfg  (TLC's counterexample is replayed on the real code)
WITNESS = ['versionless', 'lazy_upgrade', 'lazy_dependency', 'lazy_dep_accepted', 'mem_other', 'closure_conflict',
           'partial', 'numeric', 'depconflict']
EXPORT_DISKS = ['DiskVersions', 'DiskDeps', 'DiskBad', 'DiskOdd', 'DiskEqual']

OPMAP = {'Prepend': 'prepend', 'Require': 'require', 'RequirePrivate': 'reqpriv', 'LoadMem': 'loadmem',
         'LoadedNamespaces': 'loaded', 'Version': 'version', 'TypelibPath': 'path', 'ImmediateDeps': 'ideps',
         'Deps': 'deps', 'EnumerateVersions': 'enum', 'IsRegistered': 'isreg'}
NSNAMES = ['VfA', 'VfB', 'VfC', 'VfD', 'VfE']     # do not exist in any system typelib directory

GIR = '''<?xml version="1.0"?>
<repository version="1.2" xmlns="http://www.gtk.org/introspection/core/1.0" xmlns:c="http://www.gtk.org/introspection/c/1.0">
%s<namespace name="%s" version="%s" c:identifier-prefixes="%s" c:symbol-prefixes="%s"/>
</repository>
'''


def xml_esc(s):
    return s.replace('&', '&amp;').replace('"', '&quot;').replace('<', '&lt;')


def call(op, ns='', ver='', lazy=False, dir=0, fns='', fver=''):
    return dict(op=op, ns=ns, ver=ver, lazy=bool(lazy), dir=int(dir), fns=fns, fver=fver)


class Pool(object):
    """typelib contents compiled once per (namespace, version, dependency string)"""

    def __init__(self, cb, root):
        self.cb = cb
        self.root = root
        self.stubs = os.path.join(root, 'stubs')
        os.makedirs(self.stubs, exist_ok=True)
        self.done = {}
        self.lock = threading.Lock()

    @staticmethod
    def key(f):
        return (f['ins'], f['iver'], tuple((d['ns'], d['ver']) for d in f['deps']))

    def _stub(self, ns, ver):
        p = os.path.join(self.stubs, '%s-%s.gir' % (ns, ver))
        if not os.path.exists(p):
            with open(p, 'w') as fh:
                fh.write(GIR % ('', xml_esc(ns), xml_esc(ver), ns, ns.lower()))

    def _compile(self, k):
        ns, ver, deps = k
        d = os.path.join(self.root, 'c%d' % self.done[k][0])
        os.makedirs(d, exist_ok=True)
        # girparser PREPENDS each include to the dependency list: write them in reverse so that the
        # dependency string of the typelib has the model's order
        inc = ''.join('<include name="%s" version="%s"/>\n' % (xml_esc(a), xml_esc(b)) for a, b in reversed(deps))
        g = os.path.join(d, '%s-%s.gir' % (ns, ver))
        with open(g, 'w') as fh:
            fh.write(GIR % (inc, xml_esc(ns), xml_esc(ver), ns, ns.lower()))
        out = os.path.join(d, 'out.typelib')
        p = self.cb.compile_gir(g, out, [self.stubs])
        if p.returncode != 0 or not os.path.exists(out):
            raise MachineryError('g-ir-compiler failed for %s-%s deps %s:\n%s%s' % (ns, ver, deps, p.stdout, p.stderr))
        return out

    def prepare(self, worlds):
        todo = []
        for w in worlds:
            for f in w['disk']:
                k = self.key(f)
                if k not in self.done:
                    self.done[k] = [len(self.done), None]
                    todo.append(k)
                    for a, b in k[2]:
                        self._stub(a, b)
        with ThreadPoolExecutor(NCPU) as ex:
            for k, out in zip(todo, ex.map(self._compile, todo)):
                self.done[k][1] = out

    def typelib(self, f):
        return self.done[self.key(f)][1]


def render(pool, world, root):
    """lay the world's files out under root/d<i>/; returns {dir id: path}"""
    dirs = {}
    for d in range(1, world['ndirs'] + 1):
        dirs[d] = os.path.join(root, 'd%d' % d)
        os.makedirs(dirs[d], exist_ok=True)
    for f in world['disk']:
        dst = os.path.join(dirs[f['dir']], '%s-%s.typelib' % (f['fns'], f['fver']))
        src = pool.typelib(f)
        try:
            os.link(src, dst)
        except OSError:
            shutil.copy(src, dst)
    return dirs


def script_of(calls, dirs):
    lines = []
    for c in calls:
        op = OPMAP[c['op']]
        v = c['ver'] if c['ver'] != '' else '-'
        fl = '1' if c['lazy'] else '0'
        if op == 'prepend':
            a = [op, dirs[c['dir']]]
        elif op == 'require':
            a = [op, c['ns'], v, fl]
        elif op == 'reqpriv':
            a = [op, dirs[c['dir']], c['ns'], v, fl]
        elif op == 'loadmem':
            a = [op, os.path.join(dirs[c['dir']], '%s-%s.typelib' % (c['fns'], c['fver'])), fl]
        elif op == 'loaded':
            a = [op]
        elif op == 'isreg':
            a = [op, c['ns'], v]
        else:
            a = [op, c['ns']]
        lines.append('\t'.join(a))
    return '\n'.join(lines) + '\n'


def project_path(p, dirs):
    """typelib path string -> (dir id, file namespace, file version); -1 = <builtin>, -2 = unknown"""
    if p == '<builtin>':
        return -1, '', ''
    for d, dp in dirs.items():
        if p.startswith(dp + '/'):
            base = p[len(dp) + 1:]
            if base.endswith('.typelib') and '-' in base and '/' not in base:
                stem = base[:-len('.typelib')]
                i = stem.rindex('-')
                return d, stem[:i], stem[i + 1:]
    return -2, p, ''


def project_dir(p, dirs):
    """search path element -> dir id; 0 = the compiled-in <libdir>/girepository-1.0, -2 = unknown"""
    for d, dp in dirs.items():
        if p == dp:
            return d
    return 0 if p.endswith('/girepository-1.0') else -2


def events_of(calls, stdout, rc, dirs):
    evs = []
    lines = stdout.split('\n')
    for i, c in enumerate(calls):
        rec = None
        if i < len(lines):
            try:
                rec = json.loads(lines[i])
            except ValueError:
                rec = None
        e = dict(c)
        if rec is None:
            # the process died inside this call
            e.update(res='crash', dom='', code=-1, ret='', names=[], rdir=0, rfns='', rfver='', snap=[], spath=[], crit=0,
                     rc=rc)
            evs.append(e)
            break
        e.update(res=rec['res'], dom=rec['dom'], code=rec['code'], ret=rec['ret'], names=rec['ans'], rdir=0, rfns='',
                 rfver='', crit=rec['crit'], rc=0)
        if c['op'] == 'TypelibPath' and rec['res'] == 'ok':
            e['rdir'], e['rfns'], e['rfver'] = project_path(rec['ret'], dirs)
            e['ret'] = ''
        snap = []
        for it in rec['snap']:
            d, a, b = project_path(it['path'], dirs)
            snap.append(dict(ns=it['ns'], ver=it['ver'], dir=d, fns=a, fver=b))
        e['snap'] = snap
        e['spath'] = [project_dir(p, dirs) for p in rec['spath']]
        evs.append(e)
    return evs


def vchars_of(world, calls):
    vs = set(f['fver'] for f in world['disk']) | set(f['iver'] for f in world['disk'])
    vs |= set(d['ver'] for f in world['disk'] for d in f['deps'])
    vs |= set(c['ver'] for c in calls if c['ver']) | set(c['fver'] for c in calls if c['fver'])
    return [dict(v=v, cs=list(v)) for v in sorted(vs)]


class Runner(object):
    def __init__(self, ck, cb, drv):
        self.ck = ck
        self.drv = drv
        self.pool = Pool(cb, os.path.join(ck.tmp, 'pool'))
        self.n = 0

    def execute(self, cases):
        """cases: list of dict(id, world, calls, src) -> list of trace dicts"""
        self.pool.prepare([c['world'] for c in cases])

        def one(item):
            k, case = item
            root = os.path.join(self.ck.tmp, 'w', '%d' % k)
            os.makedirs(root)
            try:
                dirs = render(self.pool, case['world'], root)
                sp = os.path.join(root, 'script')
                with open(sp, 'w') as fh:
                    fh.write(script_of(case['calls'], dirs))
                env = dict(os.environ)
                env.pop('GI_TYPELIB_PATH', None)
                env.pop('G_DEBUG', None)
                env.pop('G_MESSAGES_DEBUG', None)
                if case['world']['env']:
                    env['GI_TYPELIB_PATH'] = ':'.join(dirs[d] for d in case['world']['env'])
                try:
                    p = subprocess.run([self.drv, sp], env=env, stdout=subprocess.PIPE, stderr=subprocess.PIPE,
                                       timeout=60)
                    rc, out, err = p.returncode, p.stdout.decode('utf-8', 'replace'), p.stderr.decode('utf-8', 'replace')
                except subprocess.TimeoutExpired as ex:
                    rc, out, err = -999, (ex.stdout or b'').decode('utf-8', 'replace'), 'timeout'
                if rc == 2:
                    raise MachineryError('driver failed on %s: %s' % (case['id'], err[-500:]))
                evs = events_of(case['calls'], out, rc, dirs)
                return dict(id=case['id'], env=case['world']['env'], disk=case['world']['disk'],
                            vchars=vchars_of(case['world'], case['calls']), events=evs, src=case['src'],
                            world=case['world'], calls=case['calls'], stderr=err[-300:] if rc else '')
            finally:
                shutil.rmtree(root, ignore_errors=True)

        base = self.n
        self.n += len(cases)
        with ThreadPoolExecutor(NCPU) as ex:
            return list(ex.map(one, [(base + i, c) for i, c in enumerate(cases)]))


# ---------------------------------------------------------------- histories generated by TLC
def _disk_from_tla(v):
    """printed TLA+ value of `disk` (function dir -> set of files; printed as tuple or :> @@) -> list"""
    items = list(enumerate(v, 1)) if isinstance(v, list) else sorted(v.items())
    out = []
    for d, files in items:
        for f in files:
            out.append(dict(dir=int(d), fns=f['fns'], fver=f['fver'], ins=f['ins'], iver=f['iver'],
                            deps=[dict(ns=x['ns'], ver=x['ver']) for x in f['deps']]))
    return out, max([int(d) for d, _ in items] + [1])


def _state_vars(block):
    vars_ = {}
    cur = None
    for line in block.split('\n'):
        m = re.match(r'/\\ (\w+) = (.*)', line)
        if m:
            cur = m.group(1)
            vars_[cur] = m.group(2)
        elif cur and line.strip() and not re.match(r'^(State \d+|STATE_|\\\*|=====|Error|\d+ states|Finished|The )', line):
            vars_[cur] += ' ' + line.strip()
        elif not line.strip():
            cur = None
    return vars_


def behaviour_from_text(text, kind):
    """TLC error trace (kind 'error') or -simulate file (kind 'sim') -> (world, calls, predicted)"""
    if kind == 'error':
        blocks = re.split(r'^State \d+: .*$', text, flags=re.M)[1:]
    else:
        blocks = re.split(r'^STATE_\d+ ==.*$', text, flags=re.M)[1:]
    world, calls, pred = None, [], []
    for b in blocks:
        v = _state_vars(b)
        if world is None:
            disk, nd = _disk_from_tla(tla_to_py(v['disk']))
            path = tla_to_py(v['path'])
            world = dict(ndirs=max(nd, 3), env=[int(x) for x in path if int(x) != 0], disk=disk)
            continue
        last = tla_to_py(v['last'])
        c = last['c']
        calls.append(call(c['op'], c['ns'], c['ver'], c['lazy'], c['dir'], c['fns'], c['fver']))
        pred.append(dict(res=last['o']['res'], broken=last['broken']))
    return world, calls, pred


# ---------------------------------------------------------------- seeded random worlds and histories
PLAIN_V = ['1.0', '1.9', '1.10', '2.0', '1', '0.9', '10.0', '2', '1.2']
ODD_V = ['1.x', 'x', '1.0.1', '01.09', '+1.5', '1.', ' 1.3', '1.4 ', '1 .5', '.7', '2.x9']


def random_case(rng, cid, zone):
    """zone=False: worlds/histories that stay out of the zones where the real code is known to
    deviate (lazy->eager, another version from memory, version-mismatching copies reachable by a
    versionless require, a dependency on another version of a namespace in progress), so that long
    histories are validated end to end; zone=True: anything goes."""
    nns = rng.randint(2, 4)
    names = NSNAMES[:nns]
    ndirs = rng.randint(1, 6)
    vers = rng.sample(PLAIN_V, rng.randint(2, 4))
    if rng.random() < 0.35:
        vers += rng.sample(ODD_V, rng.randint(1, 3))
    allnames = [(n, v) for n in names for v in vers]
    if zone and rng.random() < 0.5:
        rng.shuffle(allnames)               # rank over (ns, ver): namespace-level cycles possible
    else:
        allnames.sort(key=lambda x: (names.index(x[0]), rng.random()))   # deps only to later namespaces
        allnames.reverse()
    rank = {nv: i for i, nv in enumerate(allnames)}

    def content(n, v):
        lower = [x for x in allnames if rank[x] < rank[(n, v)] and x[0] != n]
        deps, seen = [], set()
        for x in rng.sample(lower, min(len(lower), rng.choice([0, 0, 1, 1, 2, 3]))):
            if x[0] not in seen:
                seen.add(x[0])
                deps.append(dict(ns=x[0], ver=x[1]))
        return deps

    disk = []
    base = {}
    density = rng.choice([0.25, 0.4, 0.6])
    for d in range(1, ndirs + 1):
        for (n, v) in allnames:
            if rng.random() < density:
                if (n, v) not in base or rng.random() < 0.25:
                    deps = content(n, v)
                    base.setdefault((n, v), deps)
                else:
                    deps = base[(n, v)]
                disk.append(dict(dir=d, fns=n, fver=v, ins=n, iver=v, deps=deps))
    # copies under another name
    for f in list(disk):
        r = rng.random()
        if r < 0.08:        # another namespace's contents: refused in every mode
            others = [g for g in disk if g['ins'] != f['fns']]
            if others:
                g = rng.choice(others)
                f.update(ins=g['ins'], iver=g['iver'], deps=g['deps'])
        elif zone and r < 0.16:   # same namespace, another version
            others = [g for g in disk if g['ins'] == f['fns'] and g['iver'] != f['fver'] and g['ins'] == g['fns']]
            if others:
                g = rng.choice(others)
                f.update(iver=g['iver'], deps=g['deps'])
    env = rng.sample(range(1, ndirs + 1), rng.randint(0, ndirs))
    world = dict(ndirs=ndirs, env=env, disk=disk)

    depended = set(d['ns'] for f in disk for d in f['deps'])
    lazy_ns = set(n for n in names if n not in depended and rng.random() < 0.5)
    reach = {}      # namespace -> namespaces possibly loaded when it is required

    def closure(n):
        if n not in reach:
            reach[n] = {n}
            for f in disk:
                if f['ins'] == n:
                    for d in f['deps']:
                        reach[n] |= closure(d['ns'])
        return reach[n]

    touched = set()
    calls = []
    ncalls = rng.choice([3, 5, 8, 12, 20, 30])
    reqv = vers + ['', '', '', '3.7']
    for i in range(ncalls):
        r = rng.random()
        n = rng.choice(names)
        if r < 0.10:
            calls.append(call('Prepend', dir=rng.randint(1, ndirs)))
        elif r < 0.45:
            lz = (rng.random() < 0.3) if zone else (n in lazy_ns)
            calls.append(call('Require', n, rng.choice(reqv), lz))
            touched |= closure(n)
        elif r < 0.55:
            lz = (rng.random() < 0.3) if zone else (n in lazy_ns)
            calls.append(call('RequirePrivate', n, rng.choice(reqv), lz, rng.randint(1, ndirs)))
            touched |= closure(n)
        elif r < 0.62 and disk:
            f = rng.choice(disk)
            if zone or f['ins'] not in touched:
                lz = (rng.random() < 0.3) if zone else (f['ins'] in lazy_ns)
                calls.append(call('LoadMem', lazy=lz, dir=f['dir'], fns=f['fns'], fver=f['fver']))
                touched |= closure(f['ins'])
            else:
                calls.append(call('LoadedNamespaces'))
        else:
            q = rng.choice(['LoadedNamespaces', 'Version', 'TypelibPath', 'ImmediateDeps', 'Deps', 'EnumerateVersions',
                            'IsRegistered'])
            if q == 'LoadedNamespaces':
                calls.append(call(q))
            elif q == 'IsRegistered':
                calls.append(call(q, n, rng.choice(reqv)))
            else:
                calls.append(call(q, n))
    return dict(id=cid, world=world, calls=calls, src='random %s seed-derived' % ('zone' if zone else 'clean'))


# ---------------------------------------------------------------- the check
def run():
    from ..cbuild import CBuild
    ck = Check(PID, 'model_checking')
    a = ck.args
    ck.assumptions += [
        'no GLib headers here: libgirepository is compiled from REPO against the declaration shim cshim/include and linked with the system GLib 2.74 (harness/cbuild.py)',
        'typelibs are produced by REPO\'s own g-ir-compiler from generated one-namespace GIRs; <include> elements (written in reverse) create the dependency string; a file whose contents disagree with its name is a copy of another typelib',
        'the compiled-in search directory (config.h: /nonexistent-verif/lib/girepository-1.0, or a system directory) contains no file of the namespaces VfA..VfE',
        'the dependency relation over file names (namespace, version) is acyclic: girepository.c recurses without bound on a cycle (reported separately); a file never depends on its own namespace; one version per namespace in a dependency string (g-ir-compiler refuses anything else)',
        'version strings contain no "-" and no "/"; files do not change during a history; one process = one history',
        'path strings and "ns-version" dependency strings are projected by the harness (directory id, file name split at the last "-")',
        'version strings are given to TLA+ as character sequences; parse_version()/strtol is transcribed in Repository.tla (values < 2^31)',
    ]
    replay = json.load(open(a.replay))['replay'] if a.replay else None

    # ------------------------------------------------------------ model checking (in the background)
    mc_err = []

    def mc():
        try:
            for cfg in (MC_QUICK if ck.quick else MC_THOROUGH):
                ck.tlc_mc('RepositoryMC', cfg + '.cfg', timeout=600, workers=6 if ck.quick else None, coverage=False,
                          label='exhaustive: implementation layer => property layer (modulo MC_KnownDesign)')
        except BaseException as ex:      # re-raised in the main thread
            mc_err.append(ex)

    th = None
    if not replay:
        th = threading.Thread(target=mc)
        th.start()

    cb = CBuild(os.path.join(ck.tmp, 'cbuild')).build()
    drv = cb.driver(DRV_SRC)
    runner = Runner(ck, cb, drv)
    cases = []

    if replay:
        cases.append(dict(id=replay['id'], world=replay['world'], calls=replay['calls'], src='replay'))
    else:
        # -------------------------------------------------------- S->C 1: witnesses (TLC counterexamples)
        def witness(w):
            r = ck.tlc_mc('RepositoryMC', 'Repository_w_%s.cfg' % w, timeout=300, workers=2, expect_ok=False,
                          coverage=False, label='witness search: ' + w)
            if not r.get('violated'):
                raise MachineryError('model has no witness for %s: %s' % (w, (r.get('error') or r['out'][-1500:])))
            world, calls, pred = behaviour_from_text(r['out'], 'error')
            return dict(id='witness-' + w, world=world, calls=calls, src='TLC counterexample Repository_w_%s.cfg' % w,
                        pred=pred)

        with ThreadPoolExecutor(4) as ex:
            cases += list(ex.map(witness, WITNESS if not ck.quick else WITNESS[:6]))
        # -------------------------------------------------------- S->C 2: the exported call alphabet, all short histories
        for q in (['xq1', 'xq3', 'xq7', 'xq8'] if ck.quick else ['xq1', 'xq2', 'xq3', 'xq4', 'xq5', 'xq6', 'xq7', 'xq8']):
            cf = os.path.join(ck.tmp, 'cases-%s.json' % q)
            ck.tlc_mc('RepositoryCases', 'Repository_%s.cfg' % q, timeout=300, workers=1, coverage=False,
                      env={'CASES_FILE': cf}, label='export of worlds and call alphabet')
            for wi, w in enumerate(json.load(open(cf))):
                envs = w['envs'][-1:] if ck.quick else w['envs']
                firsts = [c for c in w['calls'] if c['op'] in ('Prepend', 'Require', 'RequirePrivate', 'LoadMem')]
                if ck.quick:
                    firsts = [c for c in firsts if c['op'] != 'RequirePrivate' or c['ver'] == '']
                for ei, env in enumerate(envs):
                    world = dict(ndirs=w['ndirs'], env=env, disk=w['disk'])
                    k = 0
                    for c1 in firsts:
                        for c2 in w['calls']:
                            if ck.quick and c2['op'] in ('RequirePrivate',) and c2['ver'] != '':
                                continue
                            cases.append(dict(id='exh-%s-%d-%d-%d' % (q, wi, ei, k), world=world, calls=[c1, c2],
                                              src='all 2-call histories over Calls(disk) of Repository_%s.cfg' % q))
                            k += 1
        # -------------------------------------------------------- S->C 2b: directed lazy -> eager histories
        # load every file of every exported world lazily, then ask for it eagerly (same version / any
        # version / from memory), then query: covers eager upgrades that succeed AND ones that fail on
        # a missing, mismatching or conflicting dependency (what was loaded must stay loaded)
        seen_w = set()
        for c in list(cases):
            if not c['id'].startswith('exh-'):
                continue
            w = c['world']
            wk = stable_hash(w)
            if wk in seen_w:
                continue
            seen_w.add(wk)
            for fi, f in enumerate(w['disk']):
                for vi, second in enumerate([call('Require', f['fns'], f['fver'], False),
                                             call('Require', f['fns'], '', False),
                                             call('LoadMem', lazy=False, dir=f['dir'], fns=f['fns'], fver=f['fver'])]):
                    cases.append(dict(id='lazyup-%s-%d-%d' % (wk, fi, vi), world=w,
                                      calls=[call('RequirePrivate', f['fns'], f['fver'], True, f['dir']), second,
                                             call('LoadedNamespaces'), call('TypelibPath', f['fns'])],
                                      src='directed: lazy load, eager request, queries'))
        # -------------------------------------------------------- S->C 2c: directed lazily-registered DEPENDENCY histories
        # register every recorded dependency of a file lazily (from the directory that has it), then require the
        # file non-lazily, then query: the dependency must be completed and ITS dependencies loaded
        seen_w = set()
        for c in list(cases):
            if not c['id'].startswith('exh-'):
                continue
            w = c['world']
            wk = stable_hash(w)
            if wk in seen_w:
                continue
            seen_w.add(wk)
            for fi, f in enumerate(w['disk']):
                if not f['deps'] or f['fns'] != f['ins']:
                    continue
                pres = []
                for dpn in f['deps']:
                    holders = [g for g in w['disk'] if g['fns'] == dpn['ns'] and g['fver'] == dpn['ver']]
                    for g in holders[:1] + holders[-1:]:         # from the first and from the last directory that has it
                        pres.append([call('RequirePrivate', dpn['ns'], dpn['ver'], True, g['dir'])])
                if len(pres) > 1:
                    pres.append([p[0] for p in pres])            # all of them
                for pi, pre in enumerate(pres):
                    cases.append(dict(id='lazydep-%s-%d-%d' % (wk, fi, pi), world=w,
                                      calls=pre + [call('Require', f['fns'], f['fver'], False), call('LoadedNamespaces'),
                                                   call('Deps', f['fns'])] + [call('TypelibPath', d['ns']) for d in f['deps']],
                                      src='directed: dependencies registered lazily, dependent required eagerly, queries'))
        if ck.quick:
            # quick: a seeded sample of the 2-call histories (thorough replays all of them)
            exh = [c for c in cases if c['id'].startswith('exh-') and not c['id'].startswith('exh-xq7-')]
            keep = set(c['id'] for c in ck.rng.sample(exh, min(len(exh), 420)))
            keep |= set(c['id'] for c in cases if c['id'].startswith('exh-xq7-') and c['calls'][0]['op'] in ('Prepend', 'Require')
                        and c['calls'][1]['op'] in ('Require', 'Version', 'TypelibPath'))
            cases = [c for c in cases if not c['id'].startswith('exh-') or c['id'] in keep]
        # -------------------------------------------------------- S->C 3: simulated behaviours of the model
        nsim = 30 if ck.quick else 600
        simdir = os.path.join(ck.tmp, 'sim')
        os.makedirs(simdir)
        ck.tlc_mc('RepositoryMC', 'Repository_sim.cfg', timeout=600, coverage=False, workers=1,
                  simulate='file=%s/tr,num=%d' % (simdir, nsim), depth=12, label='simulation for S->C replay')
        for i, f in enumerate(sorted(glob.glob(simdir + '/tr_*'))):
            world, calls, pred = behaviour_from_text(open(f).read(), 'sim')
            if calls:
                cases.append(dict(id='sim-%d' % i, world=world, calls=calls, src='tlc -simulate Repository_sim.cfg', pred=pred))
        shutil.rmtree(simdir, ignore_errors=True)
        # -------------------------------------------------------- C->S: random worlds and histories
        nclean, nzone = (140, 40) if ck.quick else (5000, 1200)
        for i in range(nclean):
            cases.append(random_case(ck.rng, 'rand-%d' % i, False))
        for i in range(nzone):
            cases.append(random_case(ck.rng, 'zone-%d' % i, True))

    import time as _t
    t_exec = _t.time()
    traces = runner.execute(cases)
    ck.cov['exec_wall_s'] = round(_t.time() - t_exec, 1)
    ck.cov['prep_wall_s'] = round(t_exec - ck.t0, 1)
    ck.count(len(traces))
    by_id = {t['id']: t for t in traces}

    # ------------------------------------------------------------ verdicts by TLC
    obs = [dict(id=t['id'], env=t['env'], disk=t['disk'], vchars=t['vchars'],
                events=[{k: v for k, v in e.items() if k not in ('crit', 'rc')} for e in t['events']]) for t in traces]
    npar = max(1, min(NCPU - 2, 12))
    chunk = min(120, max(40, (len(obs) + npar - 1) // npar))     # many small TLC runs: a slice never needs more than minutes
    parts = [obs[k:k + chunk] for k in range(0, len(obs), chunk)]
    rejected = []

    def verdict(item):
        k, part = item
        tf = os.path.join(ck.tmp, 'tr-%d.json' % k)
        vf = os.path.join(ck.tmp, 'vd-%d.json' % k)
        with open(tf, 'w') as fh:
            json.dump(part, fh)
        r = ck._tlc('RepositoryTrace.tla', 'RepositoryTrace.cfg', [], dict(TRACE_FILE=tf, VERDICT_FILE=vf), 6000, 1)
        if not os.path.exists(vf):
            raise MachineryError('RepositoryTrace produced no verdict:\n%s' % r['out'][-3000:])
        v = json.load(open(vf))
        if v.get('n') != len(part):
            raise MachineryError('RepositoryTrace consumed %s of %d traces' % (v.get('n'), len(part)))
        os.unlink(tf)
        return [tuple(x) for x in v.get('rejected', [])], v.get('exercised', {}), r['wall_s']

    exercised = {}
    with ThreadPoolExecutor(min(len(parts), npar) or 1) as ex:
        for rej, exd, wall in ex.map(verdict, list(enumerate(parts))):
            rejected += rej
            for c, n in exd.items():
                exercised[c] = exercised.get(c, 0) + n
            ck.cov.setdefault('trace_tlc_wall_s', []).append(wall)
    ck.cov['traces_validated_against_impl'] += len(obs)
    ck.cov['clauses_exercised'] = exercised

    if th:
        th.join()
        if mc_err:
            raise mc_err[0]
        ck.cov['exhaustive'] = True

    ndrift = 0
    bad = {}
    for tid, clause, detail in rejected:
        t = by_id[tid]
        pos, op, cause = (detail.split(':') + ['', ''])[:3]
        if clause == 'EXTRA':
            msg = 'BEYOND-STATEMENT %s: behaviour clause %s (not part of C17) does not hold at event %s (%s)' % (tid, cause, pos, op)
            ck.cov.setdefault('beyond_statement', {}).setdefault(cause, 0)
            ck.cov['beyond_statement'][cause] += 1
            if len([n for n in ck.notes if n.startswith('BEYOND')]) < 5:
                ck.notes.append(msg)
            continue
        if clause == 'DRIFT':
            ndrift += 1
            if len(ck.notes) < 40:
                ck.notes.append('DRIFT %s at event %s (%s): the implementation-shaped layer does not predict it' % (tid, pos, op))
            continue
        bad.setdefault(tid, []).append((clause, cause, pos, op))
    for tid, items in bad.items():
        t = by_id[tid]
        pos = int(items[0][2])
        ev = t['events'][pos - 1]
        for clause, cause, _, op in items:
            sig = dict(clause=clause, cause=cause, op=op)
            text = ('trace %s (%s): event %d %s is not a behaviour of the specification: clause %s (root cause class: %s)\n'
                    'call: %s\nobserved: res=%s code=%s ret=%r snapshot=%s\nhistory: %s' % (
                        tid, t['src'], pos, op, clause, cause, json.dumps(t['calls'][pos - 1]), ev['res'], ev['code'],
                        ev['ret'], json.dumps(ev['snap']),
                        ' ; '.join(script_of(t['calls'][:pos], {d: 'd%d' % d for d in range(1, t['world']['ndirs'] + 1)}).strip().split('\n'))))
            ck.violation(sig, text, dict(id=tid, world=t['world'], calls=t['calls'][:pos], events=t['events'][:pos]))

    ck.cov['drifted_traces'] = ndrift
    ck.cov['events'] = sum(len(t['events']) for t in traces)
    ck.cov['rule'] = ('a trace = one fresh process executing one history of g_irepository_* calls on one generated '
                      'directory layout; non-trivial = at least one require/load succeeded in loading a typelib; '
                      'distinct by (layout, call sequence)')
    for t in traces:
        if any(e['op'] in ('Require', 'RequirePrivate', 'LoadMem') and e['res'] == 'ok' for e in t['events']):
            ck.nontrivial(stable_hash([t['world'], t['calls']]))
    for t in traces[:1] + [x for x in traces if x['id'].startswith('rand-')][:1]:
        ck.sample(dict(id=t['id'], src=t['src'], env=t['env'],
                       files=['d%d/%s-%s.typelib[%s-%s deps %s]' % (f['dir'], f['fns'], f['fver'], f['ins'], f['iver'],
                                                                   ','.join(d['ns'] + '-' + d['ver'] for d in f['deps'])) for f in t['disk']],
                       events=['%s(%s %s)->%s' % (e['op'], e['ns'] or e['fns'], e['ver'] or e['fver'], e['res']) for e in t['events']]))
    return ck.finish()


if __name__ == '__main__':
    main_wrapper(PID, run)
